"""Shared by the engine-S properties (C01 C02 C10 C12 C15 C20): spec generator, spec -> Coq printer,
implementation drivers, decoding of the Coq observables."""
import copy
import json
import math
from fractions import Fraction

from harness import core

TYPES = ['histosys', 'lumi', 'normfactor', 'normsys', 'shapefactor', 'shapesys', 'staterror']
COQ_TY = dict(histosys='Histosys', lumi='Lumi', normfactor='Normfactor', normsys='Normsys',
              shapefactor='Shapefactor', shapesys='Shapesys', staterror='Staterror')

HEADER = '''From Coq Require Import ZArith QArith Qcanon String List.
Require Import PV.Num PV.Run PV.Sort PV.Spec PV.Impl PV.InterpQ PV.EngineRun.
Import ListNotations. Open Scope string_scope.
Notation M := (Build_modifier (N:=QcNum)).
Notation S := (Build_sample (N:=QcNum)).
Notation C := (Build_channel (N:=QcNum)).
Notation P := (Build_parcfg (N:=QcNum)).
Notation SP := (Build_spec (N:=QcNum)).
Notation ST := (Build_settings QcNum).
Notation q := mkq.
Notation MDN := (@MDNone QcNum). Notation MDNm := (@MDNorm QcNum). Notation MDH := (@MDHisto QcNum). Notation MDL := (@MDList QcNum).
'''


# ------------------------------------------------------------------------------------------------
# generator of well-formed specs
def dy(rng, lo, hi, step=0.25):
    """a dyadic rational in [lo, hi]"""
    n = int(round((hi - lo) / step))
    return lo + step * rng.randrange(n + 1)


# modifier families for stratified generation: `alpha` stands for normsys + histosys (one Gaussian-constrained scalar),
# the other families are the modifier types themselves
FAMILIES = ('normfactor', 'lumi', 'alpha', 'shapefactor', 'shapesys', 'staterror')
FAMILY_TYPES = dict(normfactor=('normfactor',), lumi=('lumi',), alpha=('normsys', 'histosys'), shapefactor=('shapefactor',),
                    shapesys=('shapesys',), staterror=('staterror',))
# every combination of the constrained families (Poisson-constrained shapesys, Gaussian-constrained staterror, alpha, lumi)
CONSTRAINED_COMBOS = [tuple(f for f, on in zip(('shapesys', 'staterror', 'alpha', 'lumi'), bits) if on)
                      for bits in [(a, b, c, d) for a in (1, 0) for b in (1, 0) for c in (0, 1) for d in (0, 1)] if bits[0] or bits[1]]


def gen_profile(rng):
    """a random subset of the modifier families (at least one of them)"""
    p = dict(normfactor=0.8, lumi=0.2, alpha=0.35, shapefactor=0.3, shapesys=0.6, staterror=0.6)
    fams = [f for f in FAMILIES if rng.random() < p[f]]
    return tuple(fams or [rng.choice(FAMILIES)])


def gen_spec(rng, size=None, allow=None, lumi_cfg=True, profile=None):
    """returns (spec dict with 'channels' and 'parameters', poi name or None).
    profile: tuple of FAMILIES the modifiers are drawn from (with raised per-sample probabilities, so that the families of
    a small profile really occur); by default 30% of the specs get a random profile, the others draw from all types."""
    if allow is None and profile is None and rng.random() < 0.3:
        profile = gen_profile(rng)
    boost = profile is not None
    if boost:
        allow = [t for f in profile for t in FAMILY_TYPES[f]]
    allow = set(allow or TYPES)
    nch = size or rng.choice([1, 1, 2, 2, 3, 4])
    chnames = rng.sample(['SR', 'CR1', 'CR2', 'VR', 'A', 'b_ch', 'ZZ'], nch)
    pool = rng.sample(['signal', 'bkg', 'bkg2', 'fakes', 'ttbar', 'Wjets'], rng.choice([2, 3, 3, 4, 5]))
    nf_pool = ['mu', 'k_tt', 'mu_W']
    al_pool = ['JES', 'JER', 'pdf', 'scale']
    sf_pool = ['sf_shape', 'sf2']
    nbins = {c: rng.choice([1, 2, 2, 3, 4]) for c in chnames}
    # shapefactor names are bound to one bin count
    sf_bins = {}
    stat_multi = rng.random() < 0.15 and nch >= 2       # one staterror name spanning two channels
    stat_name = {c: 'staterror_' + c for c in chnames}
    if stat_multi:
        a, b = chnames[0], chnames[1]
        stat_name[b] = stat_name[a]
    channels = []
    used_shapesys = 0
    has_lumi = False
    stat_carriers = {}      # staterror name -> set of samples that must carry it in every channel of that name
    for c in chnames:
        present = [s for s in pool if rng.random() < 0.7] or [pool[0]]
        if 'signal' in pool and 'signal' not in present and rng.random() < 0.5:
            present.insert(0, 'signal')
        rng.shuffle(present)
        samples = []
        for s in present:
            nb = nbins[c]
            data = [dy(rng, 0.0 if rng.random() < 0.08 else 0.5, 40.0) for _ in range(nb)]
            mods = []
            if 'normfactor' in allow and (s == 'signal' or rng.random() < 0.3):
                for nm in rng.sample(nf_pool, rng.choice([1, 1, 2])):
                    mods.append({'name': nm, 'type': 'normfactor', 'data': None})
            if 'lumi' in allow and rng.random() < (0.5 if boost else 0.3):
                mods.append({'name': 'lumi', 'type': 'lumi', 'data': None})
                has_lumi = True
            if 'normsys' in allow:
                for nm in rng.sample(al_pool, rng.choice([0, 0, 1, 2])):
                    mods.append({'name': nm, 'type': 'normsys', 'data': {'lo': dy(rng, 0.5, 1.0, 0.125), 'hi': dy(rng, 1.0, 1.5, 0.125)}})
            if 'histosys' in allow:
                for nm in rng.sample(al_pool, rng.choice([0, 0, 1, 2])):
                    mods.append({'name': nm, 'type': 'histosys', 'data': {
                        'lo_data': [max(0.0, d - dy(rng, 0, 3)) for d in data], 'hi_data': [d + dy(rng, 0, 3) for d in data]}})
            if 'shapefactor' in allow and rng.random() < (0.4 if boost else 0.2):
                nm = rng.choice(sf_pool)
                if sf_bins.setdefault(nm, nb) == nb:
                    mods.append({'name': nm, 'type': 'shapefactor', 'data': None})
            if 'shapesys' in allow and rng.random() < (0.55 if boost else 0.3):
                used_shapesys += 1
                mods.append({'name': 'shapesys_%d' % used_shapesys, 'type': 'shapesys',
                             'data': [0.0 if rng.random() < 0.12 else dy(rng, 0.25, 4.0) for _ in data]})
            if 'staterror' in allow:
                nm = stat_name[c]
                want = stat_carriers.get(nm)
                if stat_multi and want is not None and c == chnames[1]:
                    carry = s in want
                else:
                    carry = rng.random() < (0.6 if boost else 0.4)
                if carry:
                    mods.append({'name': nm, 'type': 'staterror', 'data': [0.0 if rng.random() < 0.1 else dy(rng, 0.25, 3.0) for _ in data]})
            rng.shuffle(mods)
            samples.append({'name': s, 'data': data, 'modifiers': mods})
        if stat_multi and c == chnames[0]:
            stat_carriers[stat_name[c]] = {s['name'] for s in samples if any(m['type'] == 'staterror' for m in s['modifiers'])}
        channels.append({'name': c, 'samples': samples})
    if stat_multi:
        # consistency: a sample carrying the shared staterror must carry it in both channels (and be present in both)
        nm = stat_name[chnames[0]]
        want = stat_carriers.get(nm, set())
        s0 = {s['name'] for s in channels[0]['samples']}
        s1 = {s['name'] for s in channels[1]['samples']}
        for ch in channels[:2]:
            for s in ch['samples']:
                has = any(m['type'] == 'staterror' for m in s['modifiers'])
                should = s['name'] in want and s['name'] in s0 and s['name'] in s1
                if has and not should:
                    s['modifiers'] = [m for m in s['modifiers'] if m['type'] != 'staterror']
                if should and not has:
                    s['modifiers'].append({'name': nm, 'type': 'staterror', 'data': [dy(rng, 0.25, 3.0) for _ in s['data']]})
    # a staterror carried by several samples of a channel where one of them has an empty bin but a non-zero uncertainty
    if rng.random() < 0.35:
        for c in channels:
            carriers = [s for s in c['samples'] if any(m['type'] == 'staterror' for m in s['modifiers'])]
            if len(carriers) >= 2:
                victim = rng.choice(carriers)
                b = rng.randrange(len(victim['data']))
                if all(s['data'][b] > 0 for s in carriers if s is not victim):
                    victim['data'][b] = 0.0
                    for m in victim['modifiers']:
                        if m['type'] == 'staterror':
                            m['data'][b] = dy(rng, 0.5, 3.0)
                        if m['type'] == 'histosys':
                            m['data']['lo_data'][b] = 0.0
                break
    spec = {'channels': channels, 'parameters': []}
    if not any(s['modifiers'] for c in channels for s in c['samples']):
        channels[0]['samples'][0]['modifiers'].append({'name': 'mu', 'type': 'normfactor', 'data': None})
    # measurement parameter configs
    info = par_info(spec)
    params = []
    for name, (kind, n) in info.items():
        if name == 'lumi':
            if lumi_cfg:
                lv = dy(rng, 0.5, 2.0, 0.5)
                params.append({'name': 'lumi', 'auxdata': [lv], 'sigmas': [dy(rng, 0.0625, 0.25, 0.0625)], 'inits': [lv],
                               'bounds': [[0.0, 10.0 * lv]]})
            continue
        if rng.random() < 0.25:
            p = {'name': name}
            if rng.random() < 0.5:
                p['inits'] = [dy(rng, 0.5, 1.5) for _ in range(n)]
            if rng.random() < 0.4:
                p['bounds'] = [[-8.0, 8.0] if kind == 'alpha' else [0.0, dy(rng, 5, 20)] for _ in range(n)]
            if rng.random() < 0.3:
                p['fixed'] = rng.random() < 0.6
            if kind in ('alpha', 'staterror', 'shapesys') and rng.random() < 0.4:
                p['auxdata'] = [dy(rng, 0.5, 1.5) if kind != 'alpha' else dy(rng, -1, 1) for _ in range(n)]
            if kind == 'staterror' and rng.random() < 0.3:
                p['sigmas'] = [dy(rng, 0.0625, 0.5, 0.0625) for _ in range(n)]
            if kind == 'shapesys' and rng.random() < 0.3:
                p['factors'] = [dy(rng, 1, 50) for _ in range(n)]
            if len(p) > 1:
                params.append(p)
    # release (fixed: false) bin-wise parameters whose default flags fix some component (zero yield / zero uncertainty bins)
    for c in channels:
        for smp in c['samples']:
            for m in smp['modifiers']:
                if m['type'] in ('shapesys', 'staterror') and any(u == 0 or d == 0 for u, d in zip(m['data'], smp['data'])) \
                        and rng.random() < 0.5 and not any(p['name'] == m['name'] for p in params):
                    params.append({'name': m['name'], 'fixed': rng.random() < 0.8 and False})
    rng.shuffle(params)
    spec['parameters'] = params
    # the parameter of interest ranges over every parameter with exactly one component: normfactors (most often), but also
    # normsys/histosys alphas, lumi, and the one-component NON-scalar sets (one-bin shapefactor, one-bin shapesys / staterror
    # gamma), which are registered after the bin-wise sets of larger channels
    singles = [nm for nm, (kind, n) in info.items() if n == 1]
    nfs = [nm for nm in singles if info[nm][0] == 'normfactor']
    late = [nm for nm in singles if info[nm][0] in ('shapefactor', 'shapesys', 'staterror')]
    r = rng.random()
    if r < 0.12 or not singles:
        poi = None
    elif r < 0.6 and nfs:
        poi = rng.choice(nfs)
    elif late and rng.random() < 0.6:
        poi = rng.choice(late)
    else:
        poi = rng.choice(singles)
    return spec, poi


def par_info(spec):
    """name -> (kind, n) for a well-formed spec (used by the generator only)"""
    out = {}
    for c in spec['channels']:
        for s in c['samples']:
            for m in s['modifiers']:
                t, nm = m['type'], m['name']
                if t in ('normsys', 'histosys'):
                    out.setdefault(nm, ('alpha', 1))
                elif t == 'normfactor':
                    out.setdefault(nm, ('normfactor', 1))
                elif t == 'lumi':
                    out.setdefault(nm, ('lumi', 1))
                elif t == 'shapefactor':
                    out.setdefault(nm, ('shapefactor', len(s['data'])))
                elif t == 'shapesys':
                    out.setdefault(nm, ('shapesys', len(s['data'])))
    # staterror: total bins of the channels carrying it
    st = {}
    for c in spec['channels']:
        nms = {m['name'] for s in c['samples'] for m in s['modifiers'] if m['type'] == 'staterror'}
        for nm in nms:
            st[nm] = st.get(nm, 0) + len(c['samples'][0]['data'])
    for nm, n in st.items():
        out[nm] = ('staterror', n)
    return out


def shape_signature(spec):
    return json.dumps([[len(c['samples'][0]['data']), sorted((s['name'], sorted((m['type'], m['name']) for m in s['modifiers']))
                                                               for s in c['samples'])] for c in spec['channels']]
                      + [sorted(p['name'] + ':' + ','.join(sorted(k for k in p if k != 'name')) for p in spec.get('parameters', []))])


def nontrivial(spec):
    nsamp = sum(len(c['samples']) for c in spec['channels'])
    nmods = sum(len(s['modifiers']) for c in spec['channels'] for s in c['samples'])
    keys = {(m['name'], m['type']) for c in spec['channels'] for s in c['samples'] for m in s['modifiers']}
    subset = any(sum(1 for c in spec['channels'] for s in c['samples'] if any((m['name'], m['type']) == k for m in s['modifiers'])) < nsamp for k in keys)
    return (len(spec['channels']) >= 2 or nsamp >= 2) and nmods >= 1 and subset


# ------------------------------------------------------------------------------------------------
# printing to Coq
def qlist(xs):
    return core.clist(xs, core.q)


def opt(x, f):
    return 'None' if x is None else '(Some %s)' % f(x)


def mod_to_coq(m):
    t = m['type']
    d = m['data']
    if t == 'normsys':
        data = '(MDNm %s %s)' % (core.q(d['lo']), core.q(d['hi']))
    elif t == 'histosys':
        data = '(MDH %s %s)' % (qlist(d['lo_data']), qlist(d['hi_data']))
    elif t in ('shapesys', 'staterror'):
        data = '(MDL %s)' % qlist(d)
    else:
        data = 'MDN'
    return '(M %s %s %s)' % (core.cstr(m['name']), COQ_TY[t], data)


def spec_to_coq(spec, poi):
    chans = core.clist(spec['channels'], lambda c: '(C %s %s)' % (core.cstr(c['name']), core.clist(
        c['samples'], lambda s: '(S %s %s %s)' % (core.cstr(s['name']), qlist(s['data']), core.clist(s['modifiers'], mod_to_coq)))))
    pars = core.clist(spec.get('parameters', []), lambda p: '(P %s %s %s %s %s %s %s)' % (
        core.cstr(p['name']), opt(p.get('inits'), qlist),
        opt(p.get('bounds'), lambda b: core.clist(b, lambda lh: '(%s, %s)' % (core.q(lh[0]), core.q(lh[1])))),
        opt(p.get('auxdata'), qlist), opt(p.get('factors'), qlist), opt(p.get('sigmas'), qlist),
        opt(p.get('fixed'), core.cbool)))
    return '(SP %s %s %s)' % (chans, pars, opt(poi, core.cstr))


def settings_to_coq(st):
    return '(ST %s %s %s %s)' % (core.cstr(st['normsys']), core.cstr(st['histosys']),
                                 opt(st.get('clip_sample'), core.q), opt(st.get('clip_bin'), core.q))


def table_to_coq(tbl):
    return core.clist(tbl, lambda e: '((%s, %s, %s, %s), %s)' % (core.cstr(e[0]), core.q(e[1]), core.q(e[2]), core.q(e[3]), core.q(e[4])))


def case_expr(spec, poi, st, points, tbl=()):
    pts = core.clist(points, lambda pd: '(%s, %s)' % (qlist(pd[0]), qlist(pd[1])))
    return 'run_case %s %s %s %s' % (table_to_coq(tbl), spec_to_coq(spec, poi), settings_to_coq(st), pts)


# ------------------------------------------------------------------------------------------------
# decoding Coq's printed records
def decode_case(res):
    """printed `inl "Err"` or `inr (cfg fields..., [EvalOk ...])` -> dict"""
    v = core.parse_qc(res)
    if v[0] == 'inl':
        return dict(build=v[1])
    t = v[1]
    keys = ['channels', 'samples', 'modifiers', 'nbins', 'slices', 'pars', 'npars', 'inits', 'bounds', 'fixed', 'auxdata',
            'aux_order', 'poi', 'vars', 'factors']
    assert len(t) == len(keys) + 1, len(t)
    d = dict(zip(keys, t[:-1]))
    out = dict(build='ok')
    out['channels'] = d['channels']
    out['samples'] = d['samples']
    out['modifiers'] = [list(m) for m in d['modifiers']]
    out['nbins'] = d['nbins']
    out['slices'] = [[c, a, b] for (c, (a, b)) in d['slices']]
    out['par_order'] = [p[0] for p in d['pars']]
    out['par_slices'] = [[p[1][0], p[1][0] + p[1][1]] for p in d['pars']]
    out['ptypes'] = [p[2] for p in d['pars']]
    out['scalar'] = [p[3] == 'true' for p in d['pars']]
    out['npars'] = d['npars']
    out['inits'] = [F(x) for x in d['inits']]
    out['bounds'] = [[Fraction(b[0], b[1]), F(b[2])] for b in d['bounds']]
    out['fixed'] = [x == 'true' for x in d['fixed']]
    out['auxdata'] = [F(x) for x in d['auxdata']]
    out['aux_order'] = d['aux_order']
    out['poi_index'] = None if d['poi'] == -1 else d['poi']
    out['vars'] = {n: [F(x) for x in l] for n, l in d['vars']}
    out['factors'] = {n: [F(x) for x in l] for n, l in d['factors']}
    evs = []
    for e in t[-1]:
        assert e[0] == 'EvalOk'
        terms = e[4]
        if terms[0] == 'inl':
            tt = terms[1]
        else:
            tt = [('pois' if k == 0 else 'norm', [F(x) for x in vals]) for k, vals in terms[1]]
        evs.append(dict(expected=[F(x) for x in e[1]], by_sample=[[F(x) for x in r] for r in e[2]],
                        expected_aux=[F(x) for x in e[3]], terms=tt))
    out['evals'] = evs
    return out


def F(p):
    return Fraction(p[0], p[1])


# ------------------------------------------------------------------------------------------------
# the implementation side
def impl_build(spec, poi, st, batch_size=None, validate=True):
    import pyhf
    kw = dict(modifier_settings={'normsys': {'interpcode': st['normsys']}, 'histosys': {'interpcode': st['histosys']}})
    if st.get('clip_sample') is not None:
        kw['clip_sample_data'] = st['clip_sample']
    if st.get('clip_bin') is not None:
        kw['clip_bin_data'] = st['clip_bin']
    if poi is not None:
        kw['poi_name'] = poi
    if batch_size is not None:
        kw['batch_size'] = batch_size
    return pyhf.Model(spec, validate=validate, **kw)


def impl_config(model):
    cfg = model.config
    tl = None
    out = dict(
        channels=list(cfg.channels), samples=list(cfg.samples), modifiers=[list(m) for m in cfg.modifiers],
        nbins=[cfg.channel_nbins[c] for c in cfg.channels],
        slices=[[c, cfg.channel_slices[c].start, cfg.channel_slices[c].stop] for c in cfg.channels],
        par_order=list(cfg.par_order),
        par_slices=[[cfg.par_slice(n).start, cfg.par_slice(n).stop] for n in cfg.par_order],
        npars=cfg.npars, inits=list(cfg.suggested_init()), fixed=list(cfg.suggested_fixed()),
        auxdata=list(cfg.auxdata), aux_order=list(cfg.auxdata_order), poi_index=cfg.poi_index, poi_name=cfg.poi_name,
        par_names=list(cfg.par_names), nmaindata=cfg.nmaindata, nauxdata=cfg.nauxdata,
        parameters=list(cfg.parameters),
        ptypes=[('unconstrained' if not cfg.param_set(n).constrained else cfg.param_set(n).pdf_type) for n in cfg.par_order],
        scalar=[bool(cfg.param_set(n).is_scalar) for n in cfg.par_order],
        sigmas={n: list(cfg.param_set(n).sigmas) for n in cfg.par_order if hasattr(cfg.param_set(n), 'sigmas')},
        factors={n: list(cfg.param_set(n).factors) for n in cfg.par_order if hasattr(cfg.param_set(n), 'factors')},
    )
    try:
        out['bounds'] = [list(b) for b in cfg.suggested_bounds()]
    except Exception as e:      # lumi without bounds: only fails when asked
        out['bounds'] = 'error:' + core.exc_enum(e)
    return out


def tolist(x):
    import pyhf
    return pyhf.tensorlib.tolist(x)


def par_names_of(par_order, par_slices, scalar):
    out = []
    for n, (a, b), sc in zip(par_order, par_slices, scalar):
        out += [n] if sc else ['%s[%d]' % (n, i) for i in range(b - a)]
    return out


def diff_config(impl, mo, rtol=1e-9):
    """list of (observable, impl value, model value) where the two differ"""
    bad = []
    for k in ['channels', 'samples', 'modifiers', 'nbins', 'slices', 'par_order', 'par_slices', 'npars', 'fixed', 'aux_order',
              'poi_index', 'ptypes', 'scalar']:
        if impl[k] != mo[k]:
            bad.append((k, impl[k], mo[k]))
    for k in ['inits', 'auxdata']:
        if len(impl[k]) != len(mo[k]) or not all(core.close(m, i, rtol) for m, i in zip(mo[k], impl[k])):
            bad.append((k, impl[k], [float(x) for x in mo[k]]))
    if isinstance(impl['bounds'], list):
        fb = [x for b in impl['bounds'] for x in b]
        mb = [x for b in mo['bounds'] for x in b]
        if len(fb) != len(mb) or not all(core.close(m, i, rtol) for m, i in zip(mb, fb)):
            bad.append(('bounds', impl['bounds'], [[float(x) for x in b] for b in mo['bounds']]))
    if par_names_of(mo['par_order'], mo['par_slices'], mo['scalar']) != impl['par_names']:
        bad.append(('par_names', impl['par_names'], par_names_of(mo['par_order'], mo['par_slices'], mo['scalar'])))
    if sorted(mo['par_order']) != impl['parameters']:
        bad.append(('parameters', impl['parameters'], sorted(mo['par_order'])))
    if impl['nmaindata'] != sum(mo['nbins']) or impl['nauxdata'] != len(mo['auxdata']):
        bad.append(('ndata', [impl['nmaindata'], impl['nauxdata']], [sum(mo['nbins']), len(mo['auxdata'])]))
    # widths: sigma compared as sigma^2
    for n, sig in impl['sigmas'].items():
        mv = mo['vars'].get(n)
        if mv is None or len(mv) != len(sig) or not all(core.close(v, float(x) * float(x), 10 * rtol) for v, x in zip(mv, sig)):
            bad.append(('sigmas:' + n, [float(x) for x in sig], None if mv is None else [float(v) ** 0.5 for v in mv]))
    for n in mo['vars']:
        if n not in impl['sigmas']:
            bad.append(('sigmas:' + n, None, [float(v) ** 0.5 for v in mo['vars'][n]]))
    for n, fac in impl['factors'].items():
        mv = mo['factors'].get(n)
        if mv is None or len(mv) != len(fac) or not all(core.close(v, x, rtol) for v, x in zip(mv, fac)):
            bad.append(('factors:' + n, [float(x) for x in fac], None if mv is None else [float(v) for v in mv]))
    return bad


def diff_vec(name, impl, mo, rtol=1e-9, atol=1e-11):
    if len(impl) != len(mo) or not all(core.close(m, i, rtol, atol) for m, i in zip(mo, impl)):
        return [(name, [float(x) for x in impl], [float(x) for x in mo])]
    return []


GRID = [-3.0, -1.5, -1.0, -0.5, 0.0, 0.5, 1.0, 1.5, 3.0]


def gen_point(rng, spec, cfg, integer_alpha_for_normsys=True):
    """a parameter point: every component from the regime grid, breakpoints and neighbours, or a random dyadic"""
    normsys_names = {m['name'] for c in spec['channels'] for s in c['samples'] for m in s['modifiers'] if m['type'] == 'normsys'}
    pars = []
    for n, (a, b), pt in zip(cfg['par_order'], cfg['par_slices'], cfg['ptypes']):
        for _ in range(b - a):
            if n in normsys_names and integer_alpha_for_normsys:
                pars.append(float(rng.choice([-3, -2, -1, 0, 1, 2, 3])))
            elif pt == 'normal' and n not in ('lumi',) and not n.startswith('staterror'):
                r = rng.random()
                if r < 0.5:
                    pars.append(rng.choice(GRID))
                elif r < 0.7:
                    # just off a breakpoint (2^-12: exact arithmetic in Coq stays small; 1-ulp neighbours are C03's job)
                    x = rng.choice([-1.0, 1.0, 0.0])
                    pars.append(x + rng.choice([-1, 1]) * 2.0 ** -12)
                else:
                    pars.append(dy(rng, -4, 4, 0.125))
            else:
                pars.append(dy(rng, 0.0 if rng.random() < 0.1 else 0.25, 3.0, 0.125))
    return pars


def to_frac_list(v):
    return [F(x) for x in v]
