"""./check <Cxx> quick|thorough   |   ./check replay <file>"""
import importlib
import json
import sys
import traceback

from harness import core


def main(argv):
    if len(argv) >= 2 and argv[0] == 'replay':
        body = json.load(open(argv[1]))
        mod = importlib.import_module('harness.props.' + body['property'].lower())
        return mod.replay(body)
    if len(argv) != 2 or argv[1] not in ('quick', 'thorough'):
        print(__doc__)
        return 2
    pid, tier = argv
    ctx = core.Ctx(pid, tier)
    try:
        mod = importlib.import_module('harness.props.' + pid.lower())
        mod.run(ctx)
    except Exception:
        # a crash of the machinery itself is not a verdict about the code: exit 2, no VIOLATION line
        traceback.print_exc()
        ctx.notes.append('harness crashed: ' + traceback.format_exc()[-1500:])
        try:
            ctx.finish()
        except Exception:
            pass
        return 2
    return ctx.finish()


if __name__ == '__main__':
    sys.exit(main(sys.argv[1:]))
