"""C03 - fail-closed translator: python `ast` of the scalar reference interpolators
(`_slow_code*.summand/product`) and of the typed-in `A_inverse` literal of the vectorised code 4
-> Gallina definitions generic over `TNum` (coq/TNum.v).

Whitelisted subset (anything else raises facts.TieBroken):
  statements : local assignment, augmented assignment (+=, -=, *=), if/elif/else, `for i in range(c[, c])`
               with literal bounds (unrolled), a single trailing `return`
  expressions: names, int/float literals, + - * / and unary -, `a if c else b`, comparisons (also chained) in `if` tests,
               `and`/`or`/`not` in tests, math.pow(x, y) (literal non-negative integer y: repeated multiplication,
               otherwise the general power `tpow`), math.log, abs, list literals, subscripts with a literal
               index, `[e for x in <list>]`, `sum(e for x, y in zip(<list>, <list>))`, `self.<attr>` (becomes a
               parameter; __init__ must store the constructor argument of the same name unchanged)
The translation is a symbolic execution that emits one `let` per assignment, in source order."""
import ast
import hashlib

from harness import core, facts

TB = facts.TieBroken


class V:      # a value of the number type: a Coq term (string)
    def __init__(self, s):
        self.s = s


class I:      # python int known at translation time
    def __init__(self, n):
        self.n = n


class L:      # python list known at translation time
    def __init__(self, xs):
        self.xs = xs


def num(x):
    """coerce to a Coq term of type V T"""
    if isinstance(x, V):
        return x.s
    if isinstance(x, I):
        return '(nofZ T (%d))' % x.n
    raise TB('list used as a number')


def lit_float(f):
    n, d = float(f).as_integer_ratio()
    if d == 1:
        return V('(nofZ T (%d))' % n)
    return V('(@nofQ T (%d) %d)' % (n, d))


class Translator:
    def __init__(self, selfattrs=()):
        self.selfattrs = list(selfattrs)
        self.used_attrs = []
        self.counter = {}
        self.lines = []

    def fresh(self, base):
        base = ''.join(c if c.isalnum() or c == '_' else '_' for c in base)
        k = self.counter.get(base, 0)
        self.counter[base] = k + 1
        return 'v_%s' % base if k == 0 else 'v_%s_%d' % (base, k)

    # ---- expressions --------------------------------------------------------------------
    def expr(self, e, env):
        if isinstance(e, ast.Constant):
            if isinstance(e.value, bool):
                raise TB('boolean literal in arithmetic')
            if isinstance(e.value, int):
                return I(e.value)
            if isinstance(e.value, float):
                return lit_float(e.value)
            raise TB('literal %r' % (e.value,))
        if isinstance(e, ast.Name):
            if e.id not in env:
                raise TB('unknown name %s (line %d)' % (e.id, e.lineno))
            return env[e.id]
        if isinstance(e, ast.Attribute):
            if isinstance(e.value, ast.Name) and e.value.id == 'self' and e.attr in self.selfattrs:
                if e.attr not in self.used_attrs:
                    self.used_attrs.append(e.attr)
                return V('s_' + e.attr)
            raise TB('attribute %s (line %d)' % (ast.dump(e)[:60], e.lineno))
        if isinstance(e, ast.UnaryOp):
            x = self.expr(e.operand, env)
            if isinstance(e.op, ast.USub):
                if isinstance(x, I):
                    return I(-x.n)
                return V('(nopp T %s)' % num(x))
            if isinstance(e.op, ast.UAdd):
                return x
            raise TB('unary operator %s' % type(e.op).__name__)
        if isinstance(e, ast.BinOp):
            a, b = self.expr(e.left, env), self.expr(e.right, env)
            if isinstance(a, L) or isinstance(b, L):
                raise TB('list arithmetic (line %d)' % e.lineno)
            opn = type(e.op).__name__
            if isinstance(a, I) and isinstance(b, I) and opn in ('Add', 'Sub', 'Mult'):
                return I({'Add': a.n + b.n, 'Sub': a.n - b.n, 'Mult': a.n * b.n}[opn])
            f = {'Add': 'nadd', 'Sub': 'nsub', 'Mult': 'nmul', 'Div': 'ndiv'}.get(opn)
            if f is None:
                raise TB('binary operator %s (line %d)' % (opn, e.lineno))
            return V('(%s T %s %s)' % (f, num(a), num(b)))
        if isinstance(e, ast.IfExp):
            c = self.test(e.test, env)
            a, b = self.expr(e.body, env), self.expr(e.orelse, env)
            if isinstance(a, L) or isinstance(b, L):
                raise TB('conditional expression over lists (line %d)' % e.lineno)
            return V('(if %s then %s else %s)' % (c, num(a), num(b)))
        if isinstance(e, ast.Call):
            return self.call(e, env)
        if isinstance(e, ast.List):
            return L([self.expr(x, env) for x in e.elts])
        if isinstance(e, ast.Subscript):
            base = self.expr(e.value, env)
            idx = self.expr(e.slice, env)
            if not isinstance(base, L) or not isinstance(idx, I):
                raise TB('subscript needs a literal list and a literal index (line %d)' % e.lineno)
            if not (-len(base.xs) <= idx.n < len(base.xs)):
                raise TB('subscript out of range (line %d)' % e.lineno)
            return base.xs[idx.n]
        if isinstance(e, ast.ListComp):
            return L(self.comprehension(e, env))
        raise TB('expression %s (line %d)' % (type(e).__name__, getattr(e, 'lineno', 0)))

    def comprehension(self, e, env):
        if len(e.generators) != 1 or e.generators[0].ifs or e.generators[0].is_async:
            raise TB('comprehension shape (line %d)' % e.lineno)
        g = e.generators[0]
        out = []
        for binding in self.iterate(g.target, g.iter, env):
            env2 = dict(env)
            env2.update(binding)
            out.append(self.expr(e.elt, env2))
        return out

    def iterate(self, target, it, env):
        """list of {name: value} bindings for `for target in it`"""
        if isinstance(it, ast.Call) and isinstance(it.func, ast.Name) and it.func.id == 'zip' and not it.keywords:
            lists = [self.expr(a, env) for a in it.args]
            if not all(isinstance(x, L) for x in lists):
                raise TB('zip of non-lists')
            if len({len(x.xs) for x in lists}) != 1:
                raise TB('zip of lists of different length')      # python would truncate silently: refuse
            if not (isinstance(target, ast.Tuple) and len(target.elts) == len(lists)
                    and all(isinstance(t, ast.Name) for t in target.elts)):
                raise TB('zip target')
            return [{t.id: x.xs[k] for t, x in zip(target.elts, lists)} for k in range(len(lists[0].xs))]
        if isinstance(it, ast.Call) and isinstance(it.func, ast.Name) and it.func.id == 'range' and not it.keywords:
            args = [self.expr(a, env) for a in it.args]
            if not all(isinstance(a, I) for a in args) or not 1 <= len(args) <= 3:
                raise TB('range with non-literal bounds')
            if not isinstance(target, ast.Name):
                raise TB('range target')
            r = range(*[a.n for a in args])
            if len(r) > 64:
                raise TB('range too long to unroll')
            return [{target.id: I(k)} for k in r]
        v = self.expr(it, env)
        if isinstance(v, L) and isinstance(target, ast.Name):
            return [{target.id: x} for x in v.xs]
        raise TB('iteration over %s' % type(it).__name__)

    def call(self, e, env):
        f = e.func
        if e.keywords:
            raise TB('keyword arguments (line %d)' % e.lineno)
        name = None
        if isinstance(f, ast.Attribute) and isinstance(f.value, ast.Name) and f.value.id == 'math':
            name = 'math.' + f.attr
        elif isinstance(f, ast.Name):
            name = f.id
        if name == 'math.pow' and len(e.args) == 2:
            x, y = self.expr(e.args[0], env), self.expr(e.args[1], env)
            if isinstance(y, I):
                if y.n < 0:
                    raise TB('negative literal exponent')
                return V('(@npow T %s %d)' % (num(x), y.n))
            return V('(tpow T %s %s)' % (num(x), num(y)))
        if name == 'math.log' and len(e.args) == 1:
            return V('(tln T %s)' % num(self.expr(e.args[0], env)))
        if name == 'abs' and len(e.args) == 1:
            return V('(@nabs T %s)' % num(self.expr(e.args[0], env)))
        if name == 'sum' and len(e.args) == 1 and isinstance(e.args[0], (ast.GeneratorExp, ast.ListComp)):
            acc = '(nofZ T 0)'                      # python: sum starts from the int 0
            for x in self.comprehension(e.args[0], env):
                acc = '(nadd T %s %s)' % (acc, num(x))
            return V(acc)
        raise TB('call of %s (line %d)' % (name or ast.dump(f)[:40], e.lineno))

    def test(self, e, env):
        if isinstance(e, ast.Compare):
            terms = [self.expr(e.left, env)] + [self.expr(c, env) for c in e.comparators]
            parts = []
            for op, a, b in zip(e.ops, terms, terms[1:]):
                a, b = num(a), num(b)
                if isinstance(op, ast.Gt):
                    parts.append('(nltb T %s %s)' % (b, a))
                elif isinstance(op, ast.GtE):
                    parts.append('(nleb T %s %s)' % (b, a))
                elif isinstance(op, ast.Lt):
                    parts.append('(nltb T %s %s)' % (a, b))
                elif isinstance(op, ast.LtE):
                    parts.append('(nleb T %s %s)' % (a, b))
                else:
                    raise TB('comparison %s (line %d)' % (type(op).__name__, e.lineno))
            out = parts[0]
            for p in parts[1:]:
                out = '(andb %s %s)' % (out, p)
            return out
        if isinstance(e, ast.BoolOp):
            parts = [self.test(v, env) for v in e.values]
            f = 'andb' if isinstance(e.op, ast.And) else 'orb'
            out = parts[0]
            for p in parts[1:]:
                out = '(%s %s %s)' % (f, out, p)
            return out
        if isinstance(e, ast.UnaryOp) and isinstance(e.op, ast.Not):
            return '(negb %s)' % self.test(e.operand, env)
        raise TB('test %s (line %d)' % (type(e).__name__, e.lineno))

    # ---- statements ---------------------------------------------------------------------
    def bind(self, name, val, out):
        """let-bind a value (element-wise for lists); returns the value to store in env"""
        if isinstance(val, V):
            nm = self.fresh(name)
            out.append('let %s := %s in' % (nm, val.s))
            return V(nm)
        if isinstance(val, L):
            return L([self.bind('%s_%d' % (name, k), x, out) for k, x in enumerate(val.xs)])
        return val

    def block(self, stmts, env, out):
        """executes statements, appending `let` lines to out; returns ('ret', term) or ('env', env)"""
        env = dict(env)
        for k, s in enumerate(stmts):
            if isinstance(s, ast.Expr) and isinstance(s.value, ast.Constant) and isinstance(s.value.value, str):
                continue                                                   # docstring
            if isinstance(s, ast.Pass):
                continue
            if isinstance(s, ast.Assign):
                if len(s.targets) != 1 or not isinstance(s.targets[0], ast.Name):
                    raise TB('assignment target (line %d)' % s.lineno)
                env[s.targets[0].id] = self.bind(s.targets[0].id, self.expr(s.value, env), out)
            elif isinstance(s, ast.AugAssign):
                if not isinstance(s.target, ast.Name) or type(s.op).__name__ not in ('Add', 'Sub', 'Mult'):
                    raise TB('augmented assignment (line %d)' % s.lineno)
                b = ast.BinOp(left=ast.Name(id=s.target.id, ctx=ast.Load(), lineno=s.lineno), op=s.op, right=s.value, lineno=s.lineno)
                env[s.target.id] = self.bind(s.target.id, self.expr(b, env), out)
            elif isinstance(s, ast.For):
                if s.orelse:
                    raise TB('for-else')
                for binding in self.iterate(s.target, s.iter, env):
                    env.update(binding)
                    kind, r = self.block(s.body, env, out)
                    if kind == 'ret':
                        raise TB('return inside a loop')
                    env = r
            elif isinstance(s, ast.If):
                c = self.test(s.test, env)
                o1, o2 = [], []
                k1, r1 = self.block(s.body, env, o1)
                k2, r2 = self.block(s.orelse, env, o2)
                if k1 == 'ret' and k2 == 'ret':
                    if k != len(stmts) - 1:
                        raise TB('code after an if that always returns')
                    return 'ret', '(if %s then %s %s else %s %s)' % (c, ' '.join(o1), r1, ' '.join(o2), r2)
                if k1 == 'ret' or k2 == 'ret':
                    raise TB('if with a return in only one branch (line %d)' % s.lineno)
                merged = [n for n in r1 if n in r2 and (r1[n] is not env.get(n) or r2[n] is not env.get(n))]
                newenv = {n: v for n, v in env.items()}
                for n in list(newenv):
                    if n not in r1 or n not in r2:
                        del newenv[n]
                for n in merged:
                    if isinstance(r1[n], L) or isinstance(r2[n], L):
                        newenv.pop(n, None)        # lists assigned under a condition cannot be used afterwards
                        continue
                    nm = self.fresh(n)
                    out.append('let %s := (if %s then %s %s else %s %s) in' % (nm, c, ' '.join(o1), num(r1[n]), ' '.join(o2), num(r2[n])))
                    newenv[n] = V(nm)
                env = newenv
            elif isinstance(s, ast.Return):
                if k != len(stmts) - 1 or s.value is None:
                    raise TB('return placement (line %d)' % s.lineno)
                return 'ret', num(self.expr(s.value, env))
            else:
                raise TB('statement %s (line %d)' % (type(s).__name__, s.lineno))
        return 'env', env


def init_attrs(cls):
    """attributes stored unchanged from constructor arguments: {attr: default or None}"""
    init = facts.find_func(cls, '__init__')
    args = [a.arg for a in init.args.args]
    defaults = dict(zip(args[len(args) - len(init.args.defaults):], init.args.defaults))
    out = {}
    assigned = {}
    for n in ast.walk(init):
        if isinstance(n, (ast.Assign, ast.AugAssign)):
            tgts = n.targets if isinstance(n, ast.Assign) else [n.target]
            for t in tgts:
                if isinstance(t, ast.Attribute) and isinstance(t.value, ast.Name) and t.value.id == 'self':
                    assigned[t.attr] = assigned.get(t.attr, 0) + 1
                    if isinstance(n, ast.Assign) and isinstance(n.value, ast.Name) and n.value.id == t.attr and t.attr in args:
                        out[t.attr] = defaults.get(t.attr)
    return {a: d for a, d in out.items() if assigned.get(a) == 1}


def translate_method(relpath, clsname, method, coqname):
    tree, path = facts.parse(relpath)
    cls = facts.find_class(tree, clsname)
    fn = facts.find_func(cls, method)
    params = [a.arg for a in fn.args.args]
    if params[:1] != ['self'] or fn.args.vararg or fn.args.kwarg or fn.args.kwonlyargs or fn.args.defaults:
        raise TB('%s.%s: unexpected signature' % (clsname, method))
    params = params[1:]
    if params != ['down', 'nom', 'up', 'alpha']:
        raise TB('%s.%s: parameters are %r, expected (down, nom, up, alpha)' % (clsname, method, params))
    attrs = init_attrs(cls)
    tr = Translator(selfattrs=attrs)
    env = {p: V('p_' + p) for p in params}
    out = []
    kind, r = tr.block(fn.body, env, out)
    if kind != 'ret':
        raise TB('%s.%s does not end in a return' % (clsname, method))
    # the method must be what __call__ hands to the looper
    call = facts.find_func(cls, '__call__')
    uses = [n for n in ast.walk(call) if isinstance(n, ast.Attribute) and isinstance(n.value, ast.Name)
            and n.value.id == 'self' and n.attr == method]
    if len(uses) != 1:
        raise TB('%s.__call__ does not pass self.%s to the looper exactly once' % (clsname, method))
    src = ast.get_source_segment(open(path).read(), fn) or ''
    h = hashlib.sha256(src.encode()).hexdigest()[:16]
    sparams = ''.join(' (s_%s : V T)' % a for a in tr.used_attrs)
    text = '(* %s:%s.%s lines %d-%d sha256 %s *)\n' % (relpath, clsname, method, fn.lineno, fn.end_lineno, h)
    text += 'Definition %s (T : TNum)%s (p_down p_nom p_up p_alpha : V T) : V T :=\n  %s\n  %s.\n' % (
        coqname, sparams, '\n  '.join(out), r)
    defaults = {}
    for a in tr.used_attrs:
        d = attrs[a]
        if d is None or not (isinstance(d, ast.Constant) and isinstance(d.value, int) and not isinstance(d.value, bool)):
            raise TB('%s: constructor default of %s is not an integer literal' % (clsname, a))
        defaults[a] = d.value
        text += 'Definition %s_%s_default : Z := (%d)%%Z.\n' % (coqname, a, d.value)
    return text, dict(attrs=tr.used_attrs, defaults=defaults, lines=[fn.lineno, fn.end_lineno], sha=h)


def translate_looper():
    """check the shape of _slow_interpolator_looper: result[s][h][a][b] = func(histo[0][b], histo[1][b], histo[2][b], alpha)"""
    tree, path = facts.parse('interpolators/__init__.py')
    fn = facts.find_func(tree, '_slow_interpolator_looper')
    calls = [n for n in ast.walk(fn) if isinstance(n, ast.Call) and isinstance(n.func, ast.Name) and n.func.id == 'func']
    if len(calls) != 1 or [getattr(a, 'id', None) for a in calls[0].args] != ['down', 'nom', 'up', 'alpha']:
        raise TB('_slow_interpolator_looper: func is not called as func(down, nom, up, alpha)')
    zips = [n for n in ast.walk(fn) if isinstance(n, ast.For) and isinstance(n.iter, ast.Call)
            and isinstance(n.iter.func, ast.Name) and n.iter.func.id == 'zip']
    ok = False
    for z in zips:
        if isinstance(z.target, ast.Tuple) and [getattr(t, 'id', None) for t in z.target.elts] == ['down', 'nom', 'up']:
            idx = []
            for a in z.iter.args:
                if isinstance(a, ast.Subscript) and isinstance(a.value, ast.Name) and isinstance(a.slice, ast.Constant):
                    idx.append((a.value.id, a.slice.value))
            ok = idx == [('histo', 0), ('histo', 1), ('histo', 2)]
    if not ok:
        raise TB('_slow_interpolator_looper: (down, nom, up) are not zip(histo[0], histo[1], histo[2])')


def translate_A_inverse():
    """the typed-in inverse matrix of the vectorised code 4 (code4.__init__), as a function of alpha0"""
    tree, path = facts.parse('interpolators/code4.py')
    cls = facts.find_class(tree, 'code4')
    init = facts.find_func(cls, '__init__')
    args = [a.arg for a in init.args.args]
    if 'alpha0' not in args:
        raise TB('code4.__init__ has no alpha0 argument')
    defaults = dict(zip(args[len(args) - len(init.args.defaults):], init.args.defaults))
    d = defaults.get('alpha0')
    if not (isinstance(d, ast.Constant) and isinstance(d.value, int) and not isinstance(d.value, bool)):
        raise TB('code4.__init__: default of alpha0 is not an integer literal')
    found = [n for n in ast.walk(init) if isinstance(n, ast.Assign) and len(n.targets) == 1
             and isinstance(n.targets[0], ast.Name) and n.targets[0].id == 'A_inverse']
    if len(found) != 1:
        raise TB('code4.__init__: A_inverse is not assigned exactly once')
    val = found[0].value
    if not (isinstance(val, ast.Call) and isinstance(val.func, ast.Attribute) and val.func.attr == 'astensor'
            and len(val.args) == 1 and not val.keywords and isinstance(val.args[0], ast.List)):
        raise TB('code4.__init__: A_inverse is not astensor([[...]])')
    # alpha0 must not be rebound before use
    for n in ast.walk(init):
        if isinstance(n, (ast.Assign, ast.AugAssign)):
            for t in (n.targets if isinstance(n, ast.Assign) else [n.target]):
                if isinstance(t, ast.Name) and t.id == 'alpha0':
                    raise TB('code4.__init__ rebinds alpha0')
    tr = Translator()
    m = tr.expr(val.args[0], {'alpha0': V('s_alpha0')})
    if not (isinstance(m, L) and all(isinstance(r, L) and all(isinstance(x, (V, I)) for x in r.xs) for r in m.xs)):
        raise TB('A_inverse literal is not a matrix')
    rows = ['[' + '; '.join(num(x) for x in r.xs) + ']' for r in m.xs]
    text = '(* interpolators/code4.py:code4.__init__ A_inverse literal, lines %d-%d *)\n' % (found[0].lineno, found[0].end_lineno)
    text += 'Definition fast_code4_A_inverse (T : TNum) (s_alpha0 : V T) : list (list (V T)) :=\n  [' + ';\n   '.join(rows) + '].\n'
    text += 'Definition fast_code4_alpha0_default : Z := (%d)%%Z.\n' % d.value
    return text, dict(shape=[len(m.xs), len(m.xs[0].xs) if m.xs else 0], alpha0_default=d.value)


SLOW = [('0', 'code0.py', '_slow_code0', 'summand'), ('1', 'code1.py', '_slow_code1', 'product'),
        ('2', 'code2.py', '_slow_code2', 'summand'), ('4', 'code4.py', '_slow_code4', 'product'),
        ('4p', 'code4p.py', '_slow_code4p', 'summand')]

GEN_HEADER = ('From Coq Require Import ZArith Bool List.\nRequire Import PV.Num PV.TNum.\nImport ListNotations.\n'
              '(* GENERATED on every run by harness/props/c03_translate.py from /repo/src/pyhf/interpolators - do not edit *)\n')


def generate():
    """returns (coq text, info).  Raises TieBroken."""
    translate_looper()
    text = GEN_HEADER
    info = {}
    for code, fn, cls, meth in SLOW:
        t, i = translate_method('interpolators/' + fn, cls, meth, 'slow_code' + code)
        text += '\n' + t
        info['slow_code' + code] = i
    t, i = translate_A_inverse()
    text += '\n' + t
    info['fast_code4_A_inverse'] = i
    return text, info


def write(text):
    import os
    core.write_if_changed(os.path.join(core.COQ, 'gen', 'InterpGen.v'), text)
