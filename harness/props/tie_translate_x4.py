"""Fourth layer of the fail-closed symbolic translator (python `ast` -> Gallina text), on top of harness/props/tie_translate.py
(Exec / Exec2 / Exec3, which this module never changes): the constructs of the *effectful glue* of pyhf - pyhf/events.py,
pyhf/tensor/manager.py:set_backend, ToyCalculator.distributions, the bodies of the click commands of pyhf/cli/*.py.  Used by
harness/props/c11_tie.py, c14.py, c19_tie.py.  Class Exec4 adds to Exec3:

  * the WORLD: code whose meaning is a sequence of effects on state outside the function (the registry of callbacks, the backend slots,
    the pseudo-random stream, stdout / the file system) is translated as a state-passing function: the current world is a Coq term kept
    in the translation state under the key WORLD; an effectful call recognised by the subclass (`effect_stmt`, `call_ext` using
    `world` / `set_world`) replaces it by a new term, so that the ORDER of the effects is part of the generated text; a `for` loop whose
    body contains an expression statement carries the world through its fold;
  * `continue` inside a `for` body: the loop body is rewritten so that the statements a `continue` skips are guarded by the negated
    condition (`elim_continue`: the tail of the body is copied under both branches of the `if` holding the `continue`);
  * an expression that raises at translation time (`StaticRaise`, e.g. `.__func__` of a plain function) ends the path with that exception,
    so that the `try/except` of layer three continues it with the handler;
  * `with <expr> as name: body` through the hook `with_item` (what the context manager binds), body inlined;
  * f-strings over texts (`f"{event:s}::before"`) as `++` of string terms; `str.lower()`, `.decode("utf-8")` through hooks;
  * keyword dictionaries built locally: `dict(a=.., b=..)`, `{}` followed by `d["k"] = v` (a python-side dict of values, used for `**d`);
  * dict comprehensions `{k: v for k, v in ..}` / nested generators through the hook `dict_comp`;
  * the truth value of an optional (non-list) value is `is not None`; `bool(x)` of a boolean term is the term; `a | b` on booleans is orb;
  * calling a value (`arg()`, `func()(..)`, `new_optimizer(**conf)`) through the hook `call_value`.
Fail closed: everything not recognised raises facts.TieBroken."""
import ast
import copy

from harness.props import tie_translate as tt

TB = tt.TB
WORLD = '\x00world'


class StaticRaise(Exception):
    """the expression being translated raises this python exception on every input of the kind being translated"""

    def __init__(self, name):
        Exception.__init__(self, name)
        self.name = name


def contains_continue(stmts):
    """a `continue` belonging to this loop level (not to a nested loop)"""
    for s in stmts:
        if isinstance(s, ast.Continue):
            return True
        if isinstance(s, ast.If) and (contains_continue(s.body) or contains_continue(s.orelse)):
            return True
        if isinstance(s, (ast.Try, ast.With)):
            for n in ast.walk(s):
                if isinstance(n, ast.Continue):
                    raise TB('continue inside try/with (line %d)' % s.lineno)
    return False


def elim_continue(stmts, tail):
    """statement list equivalent to `stmts; tail` as the body of a loop, without `continue`"""
    if not stmts:
        return list(tail)
    s, rest = stmts[0], stmts[1:]
    if isinstance(s, ast.Continue):
        return []
    if isinstance(s, ast.If) and (contains_continue(s.body) or contains_continue(s.orelse)):
        after = elim_continue(rest, tail)
        n = ast.If(test=s.test, body=elim_continue(s.body, after) or [ast.Pass()], orelse=elim_continue(s.orelse, after))
        ast.copy_location(n, s)
        for p in n.body:
            if isinstance(p, ast.Pass) and not hasattr(p, 'lineno'):
                ast.copy_location(p, s)
        return [n]
    return [s] + elim_continue(rest, tail)


class Exec4(tt.Exec3):
    world_type = 'W'

    # ---- the world ---------------------------------------------------------------------------------------------------------
    def world(self, st, node=None):
        w = st.attrs.get(WORLD)
        if w is None:
            raise TB('an effect outside a world-passing translation%s' % (' (line %d)' % node.lineno if node is not None else ''))
        return w

    def set_world(self, st, term):
        st.attrs[WORLD] = tt.mk(term, self.world_type, 2)

    def effect(self, st, fmt, *args):
        """replace the world w by fmt % (w, *args)"""
        w = self.world(st)
        self.set_world(st, fmt % ((w.s,) + tuple(args)))

    # ---- hooks -------------------------------------------------------------------------------------------------------------
    def call_value(self, f, args, kwargs, node, st):
        raise TB('call of the value %r (line %d)' % (f, node.lineno))

    def with_item(self, item, st):
        """value bound by `with <item.context_expr> as ..`"""
        raise TB('with statement (line %d)' % item.context_expr.lineno)

    def dict_comp(self, e, st):
        raise TB('dict comprehension (line %d)' % e.lineno)

    def fstring_value(self, x, spec_s, node):
        """the text of a value formatted inside an f-string ({x} or {x:s})"""
        if not self.is_str(x):
            raise TB('f-string over %r (line %d)' % (x, node.lineno))
        return x

    def str_method(self, base, name, args, kwargs, node, st):
        raise TB('method .%s of the text %r (line %d)' % (name, base, node.lineno))

    # ---- expressions -------------------------------------------------------------------------------------------------------
    def expr(self, e, st):
        d = tt.dump(e)
        for pd, val in self.patterns:
            if pd == d:
                return val(st) if callable(val) else val
        if isinstance(e, ast.JoinedStr):
            parts = []
            for v in e.values:
                if isinstance(v, ast.Constant) and isinstance(v.value, str):
                    parts.append(tt.S(v.value))
                elif isinstance(v, ast.FormattedValue) and v.conversion == -1 and (v.format_spec is None or tt.dump(v.format_spec) == tt.dump(ast.parse("f'{x:s}'", mode='eval').body.values[0].format_spec)):
                    x = self.fstring_value(self.expr(v.value, st), v.format_spec is not None, e)
                    parts.append(x)
                else:
                    raise TB('f-string shape (line %d)' % e.lineno)
            if all(isinstance(p, tt.S) for p in parts):
                return tt.S(''.join(p.v for p in parts))
            parts = [p for p in parts if not (isinstance(p, tt.S) and p.v == '')]
            return tt.mk('(' + ' ++ '.join(self.strterm(p) for p in parts) + ')%string' if len(parts) > 1 else self.strterm(parts[0]), tt.STR, 2)
        if isinstance(e, ast.DictComp):
            return self.dict_comp(e, st)
        if isinstance(e, ast.BinOp) and isinstance(e.op, ast.BitOr):
            a, b = self.expr(e.left, st), self.expr(e.right, st)
            return self.boolop('Or', [a, b], e)
        return super().expr(e, st)

    def test(self, e, st):
        if isinstance(e, ast.BoolOp):
            # python evaluates left to right and stops at the first operand that decides: what follows it is not evaluated
            op = type(e.op).__name__
            parts = []
            for i, v in enumerate(e.values):
                p = self.test(v, st)
                if isinstance(p, tt.IsNone) and i + 1 < len(e.values) and p.neg == (op == 'And') and not self.pending:
                    # `x is not None and R` / `x is None or R`: R is evaluated where x is there (bound to the value inside the option)
                    var = 'x_' + (p.key[1] if p.key else 'some')
                    st2 = st.copy()
                    if p.key is not None:
                        (st2.attrs if p.key[0] == 'attr' else st2.env)[p.key[1]] = tt.mk(var, p.term.ty[1], tt.fresh_of(p.term))
                    rest = ast.BoolOp(op=e.op, values=e.values[i + 1:]) if len(e.values) - i - 1 > 1 else e.values[i + 1]
                    ast.copy_location(rest, e)
                    r = self.test(rest, st2)
                    if self.pending:
                        raise TB('raising call inside and/or (line %d)' % e.lineno)
                    if isinstance(r, tt.S) and not isinstance(r, tt.IsNone):
                        rs = 'true' if self.truth(r) else 'false'
                    else:
                        rs = self.boolterm(r)
                    other = 'false' if op == 'And' else 'true'
                    parts.append(tt.T('(match %s with None => %s | Some %s => %s end)' % (p.term.s, other, var, rs), tt.BOOL))
                    break
                parts.append(p)
                if isinstance(p, tt.S) and not isinstance(p, tt.IsNone) and self.truth(p) == (op == 'Or'):
                    break
            return self.boolop(op, parts, e)
        if not isinstance(e, (ast.Compare, ast.BoolOp)) and not (isinstance(e, ast.UnaryOp) and isinstance(e.op, ast.Not)):
            v = self.expr(e, st)
            if isinstance(v, tt.T) and isinstance(v.ty, tuple) and v.ty[0] == 'option' and not (isinstance(v.ty[1], tuple) and v.ty[1][0] == 'list'):
                return tt.IsNone(v, getattr(v, 'key', None), neg=True)            # truth of an optional object: it is there
            if self.is_str(v) and isinstance(v, tt.T):
                return tt.T('(negb (String.eqb %s ""%%string))' % v.s, tt.BOOL)      # truth of a text: non-empty
            if isinstance(v, tt.Dct):
                return tt.S(bool(v.items))
        return super().test(e, st)

    def call(self, e, st):
        # calling a value: the callee is itself the result of a call (`func()(..)`) or a local name bound to a term (`arg()`)
        if isinstance(e.func, ast.Call) or (isinstance(e.func, ast.Name) and isinstance(st.env.get(e.func.id), tt.T)):
            f = self.expr(e.func, st)
            args, kwargs = self.call_args(e, st)
            return self.call_value(f, args, kwargs, e, st)
        return super().call(e, st)

    def call_args(self, e, st):
        """positional and keyword arguments with *seq / **dict of python-side sequences / keyword dictionaries expanded"""
        args, kwargs = [], {}
        for a in e.args:
            if isinstance(a, ast.Starred):
                v = self.expr(a.value, st)
                if isinstance(v, tt.Ext) and v.tag == 'forwarded-args':
                    args.append(v)
                elif isinstance(v, (tt.Tup, tt.Lst)):
                    args += v.items
                else:
                    raise TB('*%r in a call (line %d)' % (v, e.lineno))
            else:
                args.append(self.expr(a, st))
        for k in e.keywords:
            v = self.expr(k.value, st)
            if k.arg is None:
                if isinstance(v, tt.Ext) and v.tag == 'forwarded-kwargs':
                    kwargs['**'] = v
                elif isinstance(v, tt.Dct):
                    for kk, vv in v.items.items():
                        if kk in kwargs:
                            raise TB('keyword %s given twice (line %d)' % (kk, e.lineno))
                        kwargs[kk] = vv
                elif isinstance(v, tt.T):
                    kwargs['**'] = v
                else:
                    raise TB('**%r in a call (line %d)' % (v, e.lineno))
            else:
                if k.arg in kwargs:
                    raise TB('keyword %s given twice (line %d)' % (k.arg, e.lineno))
                kwargs[k.arg] = v
        return args, kwargs

    def call_star(self, f, e, st):
        args, kwargs = self.call_args(e, st)
        if isinstance(f, tt.Ext):
            r = self.call_builtin(f, args, kwargs, e, st)
            if r is not None:
                return r
            return self.call_ext(f, args, kwargs, e, st)
        if isinstance(f, tt.T):
            return self.call_value(f, args, kwargs, e, st)
        raise TB('*args / **kwargs in the call of %r (line %d)' % (f, e.lineno))

    def call_builtin(self, f, args, kwargs, e, st):
        tag = f.tag
        if tag == 'dict' and not args and kwargs and '**' not in kwargs:
            return tt.Dct(kwargs)
        if tag == 'bool' and len(args) == 1 and not kwargs:
            v = args[0]
            if isinstance(v, tt.T) and v.ty == tt.BOOL:
                return v
            if isinstance(v, tt.S) and isinstance(v.v, bool):
                return v
            raise TB('bool(%r) (line %d)' % (v, e.lineno))
        return super().call_builtin(f, args, kwargs, e, st)

    def method(self, base, name, args, kwargs, node, st):
        if self.is_str(base) and isinstance(base, tt.T):
            return self.str_method(base, name, args, kwargs, node, st)
        return super().method(base, name, args, kwargs, node, st)

    # ---- statements --------------------------------------------------------------------------------------------------------
    def assign(self, target, val, st, node):
        # a keyword dictionary built locally: d = {} ; d['k'] = v
        if isinstance(target, ast.Subscript) and isinstance(target.value, ast.Name) and isinstance(st.env.get(target.value.id), tt.Dct) \
                and isinstance(target.slice, ast.Constant) and isinstance(target.slice.value, str):
            # (a Dct is a dict display / dict(k=v) of this function: private at its top level)
            cur = st.env[target.value.id]
            if getattr(cur, 'aliased', False):
                raise TB('item assignment on a dictionary bound to two names (line %d)' % node.lineno)
            new = tt.Dct(dict(cur.items, **{target.slice.value: val}))
            new.kwdict = True
            st.env[target.value.id] = new
            return
        if isinstance(target, ast.Name) and isinstance(val, tt.Ext):
            st.env[target.id] = val
            return
        super().assign(target, val, st, node)

    def block(self, stmts, st):
        stmts = list(stmts)
        while stmts:
            s = stmts.pop(0)
            try:
                r = self.stmt(s, st, stmts)
            except tt.UnboundLocal:
                return tt.Exc('UnboundLocalError', st)
            except StaticRaise as x:
                return tt.Exc(x.name, st)
            if r is None:
                continue
            if isinstance(r, tt.St):
                st = r
                continue
            return r
        return tt.Fall(st)

    def stmt(self, s, st, rest):
        if isinstance(s, ast.With):
            if len(s.items) != 1:
                raise TB('with statement with several items (line %d)' % s.lineno)
            item = s.items[0]
            self.pending = []
            v = self.with_item(item, st)
            if item.optional_vars is not None:
                if not isinstance(item.optional_vars, ast.Name):
                    raise TB('with .. as <pattern> (line %d)' % s.lineno)
                st.env[item.optional_vars.id] = v
            body = list(s.body)
            if self.pending:
                return self.wrap_pending(st, lambda: self.block(body + rest, st))
            rest[:0] = body
            return None
        if isinstance(s, (ast.Import, ast.ImportFrom)):
            return self.import_stmt(s, st)
        if isinstance(s, ast.Assert):
            return self.assert_stmt(s, st)
        if isinstance(s, ast.If) and not s.orelse and len(s.body) == 1 and isinstance(s.body[0], ast.If) and not s.body[0].orelse:
            # if a: (if b: B)   ==   if a and b: B      (python evaluates b only when a holds, in both)
            n = ast.If(test=ast.BoolOp(op=ast.And(), values=[s.test, s.body[0].test]), body=s.body[0].body, orelse=[])
            ast.copy_location(n, s)
            ast.copy_location(n.test, s)
            return self.stmt(n, st, rest)
        w0 = st.attrs.get(WORLD)
        r = super().stmt(s, st, rest)
        if isinstance(r, tt.St) and isinstance(s, ast.If) and w0 is not None:
            w1 = r.attrs.get(WORLD)
            if isinstance(w1, tt.T) and w1.s != w0.s and len(w1.s) > 40 and rest:
                # the world after an `if` whose branches both go on: named, so that the text stays linear in the number of statements
                var = self.fresh_var('w')
                tpl = '(let %s := %s in @@0@@)' % (var, w1.s)
                self.set_world(r, var)
                return tt.Br2(tpl, (self.block(rest, r),))
        return r

    def import_stmt(self, s, st):
        raise TB('import inside a function (line %d)' % s.lineno)

    def assert_stmt(self, s, st):
        raise TB('assert (line %d)' % s.lineno)

    # ---- loops -------------------------------------------------------------------------------------------------------------
    def has_effect_stmt(self, body):
        for b in body:
            for n in ast.walk(b):
                if isinstance(n, ast.Expr) and isinstance(n.value, ast.Call):
                    f = n.value.func
                    if isinstance(f, ast.Attribute) and f.attr in self.MUTATORS:
                        continue
                    return True
        return False

    def mutated_roots(self, body):
        out = super().mutated_roots(body)
        if self.has_effect_stmt(body) and ('attr', WORLD) not in out:
            out.append(('attr', WORLD))
        return out

    def for_stmt(self, s, st, rest):
        if contains_continue(s.body):
            n = ast.For(target=s.target, iter=s.iter, body=elim_continue(list(s.body), []) or [ast.Pass()], orelse=s.orelse)
            ast.copy_location(n, s)
            ast.fix_missing_locations(n)
            s = n
        for b in s.body:
            for x in ast.walk(b):
                if isinstance(x, ast.Break):
                    raise TB('break inside a loop (line %d)' % x.lineno)
        return super().for_stmt(s, st, rest)
