"""C17 - tie to the source: pyhf/patchset.py (Patch.__init__ / name / values / apply, PatchSet.__init__, __getitem__, verify, apply) and
pyhf/utils.py (digest) translated to coq/gen/PatchSetGen.v on every run (translator: harness/props/tie_translate.py, class Exec3; fail
closed).  The proofs that the translated definitions equal the hand model of coq/PatchSet.v are in coq/TiePatchSet.v; the theorems
C17_source_is_model_* in coq/props/C17.v."""
import ast
import os

from harness import core, facts
from harness.props import tie_translate as tt

GEN_NAME = 'PatchSetGen'
STR, NAT = tt.STR, tt.NAT
PVALS = tt.LIST('pval')
DIGESTS = tt.DICT(STR, STR)

GEN_HEADER = '''From Coq Require Import Bool Arith String List.
Require Import PV.Json PV.PatchSet.
Import ListNotations.
Local Open Scope list_scope.
(* GENERATED on every run by harness/props/c17_tie.py from $VERIF_REPO/src/pyhf/patchset.py and utils.py - do not edit.
   Reading of the python values (the trusted part of the translation):
   * a patch-set document arrives as its parts: metadata.labels (list string), metadata.digests (association list algorithm -> digest, in the
     order of the document), patches (list pspec: metadata.name, metadata.values, patch); schema validation and logging are not translated
     (the property is about schema-valid documents);
   * a Patch object is identified with its position in `patches` (the loop of __init__ constructs one per element, in order); the lookup
     table _patches_by_key is a `table` (insertion ordered; tmem / tlookup / tset are `in`, d[k] (None: KeyError), d[k] = v), a text key being
     KName, a tuple key KVals, any other hashable key KOther; a list is not hashable (a list used as key is refused by the translator); a
     stored Patch i is the entry EPatch i, anything else EBook (calling .apply on it: AttributeError);
   * utils.digest: json.dumps(obj, sort_keys=True, ensure_ascii=False).encode('utf8') is `canon obj` (without sort_keys: obj itself) - the text
     of the dump is not modelled, the dump is taken to be injective on canonical trees; getattr(hashlib, a) fails exactly when `known a` is false;
     hashlib.<a>(bytes).hexdigest() is the opaque `H a tree`;
   * jsonpatch.JsonPatch(ops).apply(doc, in_place=False) is the opaque `jpatch ops doc`, admitted only when ops is a private deep copy (applying
     a patch can write into its own operation values); Workspace(doc) is the opaque `mkws doc`;
   * exceptions are their classes (constructors of `exc`); errors of the opaque functions are passed on unchanged. *)
'''

PRELUDE = '''Inductive exc := InvalidPatchSet | InvalidPatchLookup | PatchSetVerificationError | PyValueError | PyAttributeError | PyKeyError | PyTypeError
                 | ExtError (n : nat).
Inductive result (A : Type) := Ok (a : A) | Err (e : exc).
Arguments Ok {A} a. Arguments Err {A} e.
Fixpoint tset (t : table) (k : key) (v : entry) : table :=                                        (* d[k] = v *)
  match t with [] => [(k, v)] | (k', e) :: r => if key_eqb k k' then (k', v) :: r else (k', e) :: tset r k v end.
Inductive pykey := PKStr (s : string) | PKTuple (l : list pval) | PKList (l : list pval) | PKOther (n : nat).     (* what a caller may pass as key *)
Definition dflt_pspec : pspec := {| ps_name := ""; ps_values := []; ps_ops := [] |}.
'''

EXC = {'InvalidPatchSet': 'InvalidPatchSet', 'InvalidPatchLookup': 'InvalidPatchLookup', 'PatchSetVerificationError': 'PatchSetVerificationError',
       'ValueError': 'PyValueError', 'AttributeError': 'PyAttributeError', 'KeyError': 'PyKeyError', 'TypeError': 'PyTypeError'}

# statements of PatchSet.__init__ that are outside the model (schema validation of the document, bookkeeping of the schema name / version)
SKIPPED = {"self.schema = config_kwargs.pop('schema', 'patchset.json')",
           "self._version = config_kwargs.pop('version', spec.get('version', None))",
           'schema.validate(spec, self.schema, version=self._version)'}


class TableType:
    """the python dict _patches_by_key"""

    def keyterm(self, x, k, node):
        if x.is_str(k):
            return '(KName %s)' % x.strterm(k)
        if isinstance(k, tt.T) and k.ty == tt.TUPLE('pval'):
            return '(KVals %s)' % k.s
        if isinstance(k, tt.T) and k.ty == 'pyother':
            return '(KOther %s)' % k.s
        if isinstance(k, tt.T) and k.ty == PVALS:
            raise tt.TB('a list is used as a key of the lookup table (line %d): unhashable' % node.lineno)
        raise tt.TB('key %r of the lookup table (line %d)' % (k, node.lineno))

    def mem(self, x, d, k, node):
        return '(tmem %s %s)' % (self.keyterm(x, k, node), d.s)

    def get(self, x, d, k, node):
        var = x.fresh_var('v')
        x.pending.append(('(tlookup %s %s)' % (self.keyterm(x, k, node), d.s), var, 'KeyError'))
        return tt.mk(var, 'entry', 0)

    def set(self, x, d, k, v, node):
        if not (isinstance(v, tt.Obj) and v.cls.name == 'Patch' and v.ident is not None):
            raise tt.TB('something else than a Patch of the loop is stored in the lookup table (line %d)' % node.lineno)
        return tt.mk('(tset %s %s (EPatch %s))' % (d.s, self.keyterm(x, k, node), v.ident.s), 'table', tt.fresh_of(d))


class PX(tt.Exec3):
    records = {'pspec': {'metadata': {'name': ('ps_name', STR), 'values': ('ps_values', PVALS)}, 'patch': ('ps_ops', tt.LIST('json'))}}
    rec_order = {'pspec': ['ps_name', 'ps_values', 'ps_ops']}
    rec_dflt = {'pspec': 'dflt_pspec'}
    rec_open = ('pspec',)
    dict_types = {'table': TableType()}
    exc_names = EXC

    def __init__(self, classes, heap=None):
        super().__init__(classes)
        self.heap = heap                      # the term of the list of patch documents (Patch i is built from its element i)

    def global_name(self, name, st):
        if name in self.classes:
            return tt.Ext('class:' + name)
        if name in ('len', 'tuple', 'list', 'isinstance', 'str', 'log', 'copy', 'jsonpatch', 'json', 'hashlib', 'getattr', 'utils', 'Workspace', 'exceptions', 'schema', 'super'):
            return tt.Ext(name)
        raise tt.TB('unknown name %s' % name)

    def skip_stmt(self, s, st):
        return ast.unparse(s) in SKIPPED

    def loop_indexed(self, s, st):
        return any(isinstance(n, ast.Call) and isinstance(n.func, ast.Name) and n.func.id == 'Patch' for b in s.body for n in ast.walk(b))

    # ---- Patch objects -------------------------------------------------------------------------------------------------------------------
    def construct(self, cls, args, kwargs, node, st):
        if cls.name != 'Patch' or len(args) != 1 or kwargs:
            raise tt.TB('construction of a %s (line %d)' % (cls.name, node.lineno))
        ident = st.env.get('\x00index')
        if ident is None:
            raise tt.TB('a Patch is constructed outside the loop over the patch documents (line %d)' % node.lineno)
        return self.patch_object(args[0], ident)

    def patch_object(self, spec, ident):
        cls = self.classes['Patch']
        init = facts.find_func(cls, '__init__')
        if [a.arg for a in init.args.args] != ['self', 'spec'] or init.args.vararg or init.args.kwarg or init.args.kwonlyargs:
            raise tt.TB('Patch.__init__: signature changed')
        saved, saved_cls, saved_loc = self.pending, self.cls, self.locals
        self.cls, self.locals = cls, tt.assigned_locals(init)
        try:
            o = self.block(init.body, tt.St(env={'spec': spec}))
        finally:
            self.pending, self.cls, self.locals = saved, saved_cls, saved_loc
        if not isinstance(o, tt.Fall):
            raise tt.TB('Patch.__init__ branches, returns or raises')
        return tt.Obj(cls, o.st.attrs, ident)

    def effect_stmt(self, e, st):
        # super().__init__(X) in Patch.__init__: jsonpatch.JsonPatch.__init__ stores its argument as self.patch
        if (isinstance(e, ast.Call) and ast.unparse(e.func) == 'super().__init__' and self.cls is not None and self.cls.name == 'Patch'
                and [ast.unparse(b) for b in self.cls.bases] == ['jsonpatch.JsonPatch'] and len(e.args) == 1 and not e.keywords):
            st.attrs['patch'] = self.expr(e.args[0], st)
            return True
        return False

    # ---- external names ------------------------------------------------------------------------------------------------------------------
    def attr_ext(self, base, attr, node, st):
        if isinstance(base, tt.Ext):
            if (base.tag, attr) in (('jsonpatch', 'JsonPatch'), ('json', 'dumps'), ('utils', 'digest')):
                return tt.Ext('gen:digest') if base.tag == 'utils' else tt.Ext(base.tag + '.' + attr)
            if base.tag == 'jsonpatch-object' and attr == 'apply':
                return tt.Ext('jsonpatch-apply', base.data)
            if base.tag == 'json-text' and attr == 'encode':
                return tt.Ext('json-text.encode', base.data)
            if base.tag == 'hash-object' and attr == 'hexdigest':
                return tt.Ext('hexdigest', base.data)
        return super().attr_ext(base, attr, node, st)

    def call_ext(self, f, args, kwargs, node, st):
        tag, ln = f.tag, node.lineno
        if tag == 'jsonpatch.JsonPatch' and len(args) == 1 and not kwargs:
            ops = args[0]
            if not (isinstance(ops, tt.T) and ops.ty == tt.LIST('json')):
                raise tt.TB('jsonpatch.JsonPatch(%r) (line %d)' % (ops, ln))
            if tt.fresh_of(ops) < 2:
                raise tt.TB('jsonpatch.JsonPatch is given the stored operations themselves, not a deep copy (line %d): applying the patch can write '
                            'into the values of its own operations, so a second application would differ' % ln)
            return tt.Ext('jsonpatch-object', ops)
        if tag == 'jsonpatch-apply':
            b = dict(zip(['obj'], args))
            b.update(kwargs)
            if set(b) - {'obj', 'in_place'} or 'obj' not in b or len(args) > 1:
                raise tt.TB('JsonPatch.apply arguments (line %d)' % ln)
            ip = b.get('in_place', tt.S(False))
            if not (isinstance(ip, tt.S) and ip.v is False):
                raise tt.TB('the document handed to JsonPatch.apply is patched in place (line %d): the caller\'s workspace would be modified' % ln)
            if not (isinstance(b['obj'], tt.T) and b['obj'].ty == 'json'):
                raise tt.TB('JsonPatch.apply on %r (line %d)' % (b['obj'], ln))
            return self.emit_call('(jpatch %s %s)' % (f.data.s, b['obj'].s), 'json', True, base='p')
        if tag == 'Workspace' and len(args) == 1 and not kwargs and isinstance(args[0], tt.T) and args[0].ty == 'json':
            return self.emit_call('(mkws %s)' % args[0].s, 'json', True, base='w')
        if tag == 'json.dumps' and len(args) == 1 and isinstance(args[0], tt.T) and args[0].ty == 'json':
            kw = dict(kwargs)
            sk = kw.pop('sort_keys', tt.S(False))
            ea = kw.pop('ensure_ascii', tt.S(True))
            if kw or not (isinstance(sk, tt.S) and isinstance(sk.v, bool)) or not (isinstance(ea, tt.S) and ea.v is False):
                raise tt.TB('json.dumps (line %d): options other than sort_keys=<constant>, ensure_ascii=False' % ln)
            return tt.Ext('json-text', tt.mk('(canon %s)' % args[0].s if sk.v else args[0].s, 'json', 2))
        if tag == 'json-text.encode' and len(args) == 1 and not kwargs and isinstance(args[0], tt.S) and str(args[0].v).lower().replace('-', '') == 'utf8':
            return tt.Ext('json-bytes', f.data)
        if tag == 'getattr' and len(args) == 2 and not kwargs and isinstance(args[0], tt.Ext) and args[0].tag == 'hashlib' and isinstance(args[1], tt.T) and args[1].ty == STR:
            var = self.fresh_var('h')
            self.pending.append(('(if known %s then Some tt else None)' % args[1].s, var, 'AttributeError'))
            return tt.Ext('hash-function', args[1])
        if tag == 'hash-function' and len(args) == 1 and not kwargs and isinstance(args[0], tt.Ext) and args[0].tag == 'json-bytes':
            return tt.Ext('hash-object', (f.data, args[0].data))
        if tag == 'hexdigest' and not args and not kwargs:
            alg, tree = f.data
            return tt.mk('(H %s %s)' % (alg.s, tree.s), STR, 2)
        raise tt.TB('call of %r (line %d)' % (f, ln))

    def call(self, e, st):
        # a local name bound to an external function value (hash_alg = getattr(hashlib, algorithm); hash_alg(..))
        if isinstance(e.func, ast.Name) and isinstance(st.env.get(e.func.id), tt.Ext) and st.env[e.func.id].tag == 'hash-function':
            if e.keywords or any(isinstance(a, ast.Starred) for a in e.args):
                raise tt.TB('call of the hash function (line %d)' % e.lineno)
            return self.call_ext(st.env[e.func.id], [self.expr(a, st) for a in e.args], {}, e, st)
        return super().call(e, st)

    def assign(self, target, val, st, node):
        if isinstance(val, tt.Dct) and not val.items and isinstance(target, ast.Attribute) and target.attr == '_patches_by_key':
            val = tt.mk('[]', 'table', 2)
        if isinstance(target, ast.Name) and isinstance(val, tt.Ext) and val.tag in ('json-bytes', 'json-text', 'hash-function'):
            st.env[target.id] = val
            return
        super().assign(target, val, st, node)

    def method_ext(self, base, name, args, kwargs, node, st):
        # <entry>.apply(spec): the entry is a Patch (EPatch i: built from patch document i) or something without .apply
        if isinstance(base, tt.T) and base.ty == 'entry' and self.heap is not None:
            var = self.fresh_var('i')
            self.pending.append(('tpl', '(match %s with EPatch %s => @@0@@ | EBook => (Err PyAttributeError) end)' % (base.s, var)))
            obj = self.patch_object(tt.mk('(nth %s %s dflt_pspec)' % (var, self.heap), 'pspec', 0), tt.T(var, NAT))
            m = self.class_member(obj.cls, name)
            if m is None or m[1]:
                raise tt.TB('Patch has no method %s of its own (line %d): the inherited jsonpatch.JsonPatch.%s would work on the stored '
                            'operations themselves' % (name, node.lineno, name))
            return self.call_method(obj, m[0], args, kwargs, node, st)
        raise tt.TB('method .%s of %r (line %d)' % (name, base, node.lineno))


# ------------------------------------------------------------------------------------------------------------------------------
def params_of(fn):
    a = fn.args
    if a.posonlyargs or a.vararg or a.kwonlyargs:
        raise tt.TB('%s: signature outside the translator' % fn.name)
    return [x.arg for x in a.args], (a.kwarg.arg if a.kwarg else None)


def generate():
    tree, path = facts.parse('patchset.py')
    utree, upath = facts.parse('utils.py')
    classes = {n.name: n for n in tree.body if isinstance(n, ast.ClassDef)}
    for c in ('Patch', 'PatchSet'):
        if c not in classes:
            raise tt.TB('class %s not found' % c)
    PS = classes['PatchSet']
    text, info = GEN_HEADER + PRELUDE + tt.PRELUDE3, {}
    hdr = lambda rel, fn, p: '\n' + tt.source_comment(rel, fn, p)

    def ex(cls=None, heap=None):
        x = PX(classes, heap)
        x.cls = cls
        return x

    # ---- utils.digest(obj, algorithm='sha256')
    fn = facts.find_func(utree, 'digest')
    if params_of(fn) != (['obj', 'algorithm'], None):
        raise tt.TB('digest: signature changed')
    x = ex()
    x.locals = tt.assigned_locals(fn)
    o = x.block(fn.body, tt.St(env={'obj': tt.mk('obj', 'json', 0), 'algorithm': tt.mk('algorithm', STR, 2)}))
    body, r = x.render_fn(o, STR)
    if not r:
        raise tt.TB('digest never raises: the check of the algorithm name is gone')
    text += hdr('utils.py', fn, upath) + ('Definition gen_digest (H : string -> json -> string) (known : string -> bool) (obj : json) (algorithm : string) : result string :=\n  %s.\n' % body)
    info['gen_digest'] = True

    def digest_handler(x, fn=fn):
        def h(bound, node, st):
            o_, a_ = bound['obj'], bound['algorithm']
            if not (isinstance(o_, tt.T) and o_.ty == 'json'):
                raise tt.TB('utils.digest of %r (line %d)' % (o_, node.lineno))
            return x.emit_call('(gen_digest H known %s %s)' % (o_.s, x.strterm(a_, node)), STR, True, base='d')
        return fn, h

    # ---- Patch.apply(self, obj, in_place=False) on its own (the stored operations as an argument)
    pa = x.class_member(classes['Patch'], 'apply')
    if pa is None or pa[1] or params_of(pa[0]) != (['self', 'obj', 'in_place'], None):
        raise tt.TB('Patch.apply(self, obj, in_place=False) not found: the inherited jsonpatch.JsonPatch.apply works on the stored operations themselves')
    x = ex(classes['Patch'])
    obj = tt.Obj(classes['Patch'], {'patch': tt.mk('ops', tt.LIST('json'), 0)}, None)
    v = x.call_method(obj, pa[0], [tt.mk('obj', 'json', 0)], {}, pa[0], tt.St())
    o = x.wrap_pending(tt.St(), lambda: tt.Ret(v, tt.St()))
    body, r = x.render_fn(o, 'json')
    text += hdr('patchset.py', pa[0], path) + ('Definition gen_patch_apply (jpatch : list json -> json -> result json) (ops : list json) (obj : json) : result json :=\n  %s.\n' % body)
    info['gen_patch_apply'] = True

    # ---- PatchSet.__init__(self, spec, **config_kwargs)
    fn = facts.find_func(PS, '__init__')
    if params_of(fn) != (['self', 'spec'], 'config_kwargs'):
        raise tt.TB('PatchSet.__init__: signature changed')
    meta = tt.View(None, {'labels': tt.mk('labels', tt.LIST(STR), 0), 'digests': tt.mk('digests', DIGESTS, 0)})
    spec = tt.View(None, {'metadata': meta, 'patches': tt.mk('patches', tt.LIST('pspec'), 0)})
    x = ex(PS)
    x.locals = tt.assigned_locals(fn)
    o = x.block(fn.body, tt.St(env={'spec': spec, 'config_kwargs': tt.Ext('config_kwargs')}))

    def fall_init(st):
        if st.attrs.get('_metadata') is not meta:
            raise tt.TB('PatchSet.__init__ does not store spec[\'metadata\'] as self._metadata')
        ps, bk = st.attrs.get('_patches'), st.attrs.get('_patches_by_key')
        if not (isinstance(ps, tt.T) and ps.ty == tt.LIST(NAT) and isinstance(bk, tt.T) and bk.ty == 'table'):
            raise tt.TB('PatchSet.__init__ does not leave the list of patches and the lookup table in self._patches / self._patches_by_key')
        return tt.T('(%s, %s)' % (ps.s, bk.s), tt.PROD(tt.LIST(NAT), 'table'))
    body, r = x.render_fn(o, None, fall_init)
    text += hdr('patchset.py', fn, path) + ('Definition gen_patchset_init (labels : list string) (patches : list pspec) : result (list nat * table) :=\n  %s.\n' % body)
    info['gen_patchset_init'] = True
    attrs = lambda: {'_metadata': meta, '_patches': tt.mk('(seq 0 (length patches))', tt.LIST(NAT), 0), '_patches_by_key': tt.mk('tbl', 'table', 0)}

    # ---- PatchSet.__getitem__(self, key): one definition per kind of key a caller can pass
    fn = facts.find_func(PS, '__getitem__')
    if params_of(fn) != (['self', 'key'], None):
        raise tt.TB('PatchSet.__getitem__: signature changed')
    text += hdr('patchset.py', fn, path)
    kinds = [('str', STR, 'string', 'PKStr'), ('tuple', tt.TUPLE('pval'), 'list pval', 'PKTuple'), ('list', PVALS, 'list pval', 'PKList'), ('other', 'pyother', 'nat', 'PKOther')]
    for kind, ty, cty, _ in kinds:
        x = ex(PS)
        x.locals = tt.assigned_locals(fn)
        o = x.block(fn.body, tt.St(env={'key': tt.mk('key', ty, 2)}, attrs=attrs()))
        body, r = x.render_fn(o, 'entry')
        text += 'Definition gen_getitem_%s (tbl : table) (key : %s) : result entry :=\n  %s.\n' % (kind, cty, body if r else '(Ok %s)' % body)
    text += ('Definition gen_getitem (tbl : table) (key : pykey) : result entry :=\n  match key with %s end.\n'
             % ' | '.join('%s k => gen_getitem_%s tbl k' % (c, k) for k, _, _, c in kinds))
    info['gen_getitem'] = True

    def getitem_handler(x, fn=fn):
        def h(bound, node, st):
            k = bound['key']
            if not (isinstance(k, tt.T) and k.ty == 'pykey'):
                raise tt.TB('self[..] with %r (line %d)' % (k, node.lineno))
            t = st.attrs.get('_patches_by_key')
            return x.emit_call('(gen_getitem %s %s)' % (t.s, k.s), 'entry', True, fresh=0, base='g')
        return fn, h

    # ---- PatchSet.verify(self, spec)
    vfn = facts.find_func(PS, 'verify')
    if params_of(vfn) != (['self', 'spec'], None):
        raise tt.TB('PatchSet.verify: signature changed')
    x = ex(PS)
    x.locals = tt.assigned_locals(vfn)
    x.gens['digest'] = digest_handler(x)
    o = x.block(vfn.body, tt.St(env={'spec': tt.mk('spec', 'json', 0)}, attrs=attrs()))
    body, r = x.render_fn(o, None, lambda st: tt.T('tt', tt.UNIT))
    if not r:
        raise tt.TB('verify never raises')
    text += hdr('patchset.py', vfn, path) + ('Definition gen_verify (H : string -> json -> string) (known : string -> bool) (digests : list (string * string)) (spec : json) : result unit :=\n  %s.\n' % body)
    info['gen_verify'] = True

    def verify_handler(x):
        def h(bound, node, st):
            s_ = bound['spec']
            if not (isinstance(s_, tt.T) and s_.ty == 'json'):
                raise tt.TB('self.verify(%r) (line %d)' % (s_, node.lineno))
            return x.emit_call('(gen_verify H known digests %s)' % s_.s, tt.UNIT, True, base='u')
        return vfn, h

    # ---- PatchSet.apply(self, spec, key)
    afn = facts.find_func(PS, 'apply')
    if params_of(afn) != (['self', 'spec', 'key'], None):
        raise tt.TB('PatchSet.apply: signature changed')
    x = ex(PS, heap='patches')
    x.locals = tt.assigned_locals(afn)
    x.gens['digest'] = digest_handler(x)
    x.gens[('PatchSet', 'verify')] = verify_handler(x)
    x.gens[('PatchSet', '__getitem__')] = getitem_handler(x)
    o = x.block(afn.body, tt.St(env={'spec': tt.mk('spec', 'json', 0), 'key': tt.mk('key', 'pykey', 2)}, attrs=attrs()))
    body, r = x.render_fn(o, 'json')
    text += hdr('patchset.py', afn, path) + ('Definition gen_apply (H : string -> json -> string) (known : string -> bool) (jpatch : list json -> json -> result json) (mkws : json -> result json)\n'
                                              '    (patches : list pspec) (digests : list (string * string)) (tbl : table) (spec : json) (key : pykey) : result json :=\n  %s.\n' % body)
    info['gen_apply'] = True
    return text, info


def extract(ctx):
    text, info = generate()
    core.write_if_changed(os.path.join(core.COQ, 'gen', GEN_NAME + '.v'), text)
    return dict(file='coq/gen/%s.v' % GEN_NAME, definitions=sorted(k for k in info if k.startswith('gen_')))
