"""C15 - inference is invariant under likelihood-preserving rewrites and configurations."""
import copy
import json
import logging
import math

from harness import core, engine

MS = {'normsys': {'interpcode': 'code4'}, 'histosys': {'interpcode': 'code4p'}}


# ------------------------------------------------------------------------------------------------
def gen_model(rng):
    """a small sensitive workspace: signal with POI mu, 1-2 backgrounds, every modifier type somewhere"""
    nch = rng.choice([1, 1, 2])
    chans = []
    obs = []
    extra_types = rng.sample(['normsys', 'histosys', 'staterror', 'shapesys', 'lumi', 'normfactor', 'shapefactor'], rng.choice([2, 3, 4]))
    has_lumi = False
    for ci in range(nch):
        nb = rng.choice([1, 2, 3])
        sig = [engine.dy(rng, 3, 12, 0.5) for _ in range(nb)]
        samples = [{'name': 'signal', 'data': sig, 'modifiers': [{'name': 'mu', 'type': 'normfactor', 'data': None}]}]
        if 'normsys' in extra_types and rng.random() < 0.5:
            samples[0]['modifiers'].append({'name': 'sig_theory', 'type': 'normsys', 'data': {'lo': 0.9, 'hi': 1.1}})
        for bi in range(rng.choice([1, 2])):
            bdata = [engine.dy(rng, 30, 90, 1.0) for _ in range(nb)]
            mods = []
            if 'normsys' in extra_types:
                mods.append({'name': 'bkg_norm%d' % bi, 'type': 'normsys', 'data': {'lo': engine.dy(rng, 0.8, 0.95, 0.05), 'hi': engine.dy(rng, 1.05, 1.2, 0.05)}})
            if 'histosys' in extra_types and rng.random() < 0.7:
                mods.append({'name': 'shape%d' % bi, 'type': 'histosys', 'data': {'lo_data': [d - engine.dy(rng, 1, 4, 0.5) for d in bdata], 'hi_data': [d + engine.dy(rng, 1, 4, 0.5) for d in bdata]}})
            if 'staterror' in extra_types:
                mods.append({'name': 'staterror_ch%d' % ci, 'type': 'staterror', 'data': [engine.dy(rng, 1, 4, 0.5) for _ in bdata]})
            if 'shapesys' in extra_types and bi == 0:
                mods.append({'name': 'uncorr_ch%d' % ci, 'type': 'shapesys', 'data': [engine.dy(rng, 2, 6, 0.5) for _ in bdata]})
            if 'lumi' in extra_types:
                mods.append({'name': 'lumi', 'type': 'lumi', 'data': None})
                has_lumi = True
            if 'normfactor' in extra_types and bi == 1:
                mods.append({'name': 'k_bkg', 'type': 'normfactor', 'data': None})
            if 'shapefactor' in extra_types and bi == 1 and nch == 1 and nb > 1:
                mods.append({'name': 'sf', 'type': 'shapefactor', 'data': None})
            samples.append({'name': 'bkg%d' % bi, 'data': bdata, 'modifiers': mods})
        chans.append({'name': 'ch%d' % ci, 'samples': samples})
        tot = [sum(s['data'][b] for s in samples[1:]) + 0.4 * sig[b] for b in range(nb)]
        obs.append({'name': 'ch%d' % ci, 'data': [float(max(0, round(t + rng.choice([-1, 0, 1]) * math.sqrt(t) * rng.random()))) for t in tot]})
    params = [{'name': 'mu', 'bounds': [[0.0, 10.0]], 'inits': [1.0]}]
    if has_lumi:
        params.append({'name': 'lumi', 'auxdata': [1.0], 'sigmas': [0.02], 'inits': [1.0], 'bounds': [[0.5, 1.5]]})
    return {'channels': chans, 'observations': obs, 'measurements': [{'name': 'm', 'config': {'poi': 'mu', 'parameters': params}}], 'version': '1.0.0'}


# ------------------------------------------------------------------------------------------------
# rewrites: each returns (new workspace, dict(mu_scale=..., nll_shift=...)) or None when not applicable
def rw_reorder(rng, ws):
    w = copy.deepcopy(ws)
    rng.shuffle(w['channels'])
    rng.shuffle(w['observations'])
    for c in w['channels']:
        rng.shuffle(c['samples'])
        for s in c['samples']:
            rng.shuffle(s['modifiers'])
    rng.shuffle(w['measurements'][0]['config']['parameters'])
    return w, {}


def rw_rename(rng, ws):
    w = copy.deepcopy(ws)
    cmap = {c['name']: 'zz_' + c['name'][::-1] if rng.random() < 0.5 else 'A' + c['name'] for c in w['channels']}
    names = sorted({m['name'] for c in w['channels'] for s in c['samples'] for m in s['modifiers']})
    mmap = {n: (n if n == 'lumi' else rng.choice(['a_', 'zz_', 'M']) + n) for n in names}
    smap = {s['name']: rng.choice(['x', 'zzz', 'B']) + s['name'] for c in w['channels'] for s in c['samples']}
    for c in w['channels']:
        c['name'] = cmap[c['name']]
        for s in c['samples']:
            s['name'] = smap[s['name']]
            for m in s['modifiers']:
                m['name'] = mmap[m['name']]
    for o in w['observations']:
        o['name'] = cmap[o['name']]
    cfg = w['measurements'][0]['config']
    cfg['poi'] = mmap[cfg['poi']]
    for p in cfg['parameters']:
        p['name'] = mmap.get(p['name'], p['name'])
    return w, {}


def rw_zero_sample(rng, ws):
    w = copy.deepcopy(ws)
    c = rng.choice(w['channels'])
    c['samples'].insert(rng.randrange(len(c['samples']) + 1), {'name': 'empty', 'data': [0.0] * len(c['samples'][0]['data']), 'modifiers': []})
    return w, {}


def rw_null_systematic(rng, ws):
    w = copy.deepcopy(ws)
    c = rng.choice(w['channels'])
    s = rng.choice(c['samples'])
    if rng.random() < 0.5:
        s['modifiers'].append({'name': 'null_norm', 'type': 'normsys', 'data': {'lo': 1.0, 'hi': 1.0}})
    else:
        s['modifiers'].append({'name': 'null_shape', 'type': 'histosys', 'data': {'lo_data': list(s['data']), 'hi_data': list(s['data'])}})
    return w, dict(nll_shift=math.log(2 * math.pi))     # one more unit Gaussian constraint at its maximum


def rw_split_channel(rng, ws):
    w = copy.deepcopy(ws)
    cands = [c for c in w['channels'] if len(c['samples'][0]['data']) >= 2 and not any(m['type'] == 'shapefactor' for s in c['samples'] for m in s['modifiers'])]
    if not cands:
        return None
    c = rng.choice(cands)
    nb = len(c['samples'][0]['data'])
    k = rng.randrange(1, nb)
    parts = []
    for tag, sl in (('_lo', slice(0, k)), ('_hi', slice(k, nb))):
        cc = copy.deepcopy(c)
        cc['name'] = c['name'] + tag
        for s in cc['samples']:
            s['data'] = s['data'][sl]
            for m in s['modifiers']:
                if m['type'] == 'histosys':
                    m['data'] = {'lo_data': m['data']['lo_data'][sl], 'hi_data': m['data']['hi_data'][sl]}
                elif m['type'] in ('staterror', 'shapesys'):
                    m['data'] = m['data'][sl]
                    m['name'] = m['name'] + tag
        parts.append(cc)
    w['channels'] = [x for x in w['channels'] if x['name'] != c['name']] + parts
    o = [x for x in w['observations'] if x['name'] == c['name']][0]
    w['observations'] = [x for x in w['observations'] if x['name'] != c['name']] + [
        {'name': c['name'] + '_lo', 'data': o['data'][:k]}, {'name': c['name'] + '_hi', 'data': o['data'][k:]}]
    return w, {}


def rw_merge_samples(rng, ws):
    """split one background sample into two samples carrying identical modifiers (the inverse of merging)"""
    w = copy.deepcopy(ws)
    cands = [(c, s) for c in w['channels'] for s in c['samples'] if s['name'].startswith('bkg')
             and all(m['type'] in ('normfactor', 'normsys', 'lumi', 'histosys') for m in s['modifiers'])]
    if not cands:
        return None
    c, s = rng.choice(cands)
    f = rng.choice([0.25, 0.5, 0.75])
    a, b = copy.deepcopy(s), copy.deepcopy(s)
    a['name'], b['name'] = s['name'] + '_part1', s['name'] + '_part2'
    for part, frac in ((a, f), (b, 1 - f)):
        part['data'] = [d * frac for d in s['data']]
        for m in part['modifiers']:
            if m['type'] == 'histosys':
                m['data'] = {'lo_data': [d * frac for d in m['data']['lo_data']], 'hi_data': [d * frac for d in m['data']['hi_data']]}
    # the same sample must be split the same way in every channel where it appears with histosys sharing: do it channel-locally only
    c['samples'] = [x for x in c['samples'] if x['name'] != s['name']] + [a, b]
    return w, {}


def rw_signal_rescale(rng, ws):
    w = copy.deepcopy(ws)
    poi = w['measurements'][0]['config']['poi']
    is_sig = lambda s: any(m['type'] == 'normfactor' and m['name'] == poi for m in s['modifiers'])
    if any(m['type'] in ('staterror', 'shapesys') for c in w['channels'] for s in c['samples'] if is_sig(s) for m in s['modifiers']):
        return None
    if not any(is_sig(s) for c in w['channels'] for s in c['samples']):
        return None
    k = rng.choice([0.5, 2.0, 4.0])
    for c in w['channels']:
        for s in c['samples']:
            if is_sig(s):
                s['data'] = [d * k for d in s['data']]
                for m in s['modifiers']:
                    if m['type'] == 'histosys':
                        m['data'] = {'lo_data': [d * k for d in m['data']['lo_data']], 'hi_data': [d * k for d in m['data']['hi_data']]}
    for p in w['measurements'][0]['config']['parameters']:
        if p['name'] == poi:
            lo, hi = p['bounds'][0]
            p['bounds'] = [[lo / k, hi / k]]
            p['inits'] = [p['inits'][0] / k]
    return w, dict(mu_scale=1.0 / k)


REWRITES = [('reorder', rw_reorder), ('rename', rw_rename), ('zero-sample', rw_zero_sample), ('null-systematic', rw_null_systematic),
            ('split-channel', rw_split_channel), ('split-identical-samples', rw_merge_samples), ('signal-rescale', rw_signal_rescale)]


# ------------------------------------------------------------------------------------------------
def infer(ws, mu_test, backend='numpy', optimizer='scipy', limit=False):
    import pyhf
    pyhf.set_backend(backend, optimizer, precision='64b')
    w = pyhf.Workspace(ws)
    m = w.model(modifier_settings=MS)
    data = w.data(m)
    out = {}
    best, twice_nll = pyhf.infer.mle.fit(data, m, return_fitted_val=True)
    out['twice_nll'] = float(twice_nll)
    out['muhat'] = float(pyhf.tensorlib.tolist(best)[m.config.poi_index])
    cls_obs, cls_exp = pyhf.infer.hypotest(mu_test, data, m, test_stat='qtilde', return_expected_set=True)
    out['cls_obs'] = float(cls_obs)
    out['cls_exp'] = [float(x) for x in cls_exp]
    init = m.config.suggested_init()
    bounds = m.config.suggested_bounds()
    fixed = m.config.suggested_fixed()
    out['qtilde'] = float(pyhf.infer.test_statistics.qmu_tilde(mu_test, data, m, init, bounds, fixed))
    if limit:
        import numpy as np
        hi = bounds[m.config.poi_index][1]
        scan = np.linspace(0.0, min(hi, 6.0 * max(mu_test, 0.2)), 13)
        obs_lim, exp_lims = pyhf.infer.intervals.upper_limits.upper_limit(data, m, scan, level=0.05)
        out['limit_obs'] = float(obs_lim)
        out['limit_exp'] = [float(x) for x in exp_lims]
    return out


def compare(base, new, eff, tol_cls=3e-4, tol_nll=2e-4, check_limit=False):
    bad = []
    shift = eff.get('nll_shift', 0.0)
    if abs((new['twice_nll'] - shift) - base['twice_nll']) > tol_nll * max(1.0, abs(base['twice_nll'])):
        bad.append('maximised likelihood: twice_nll %.8g vs %.8g (+%.4g expected)' % (new['twice_nll'], base['twice_nll'], shift))
    if abs(new['cls_obs'] - base['cls_obs']) > tol_cls + 2e-3 * base['cls_obs']:
        bad.append('CLs observed %.6g vs %.6g' % (new['cls_obs'], base['cls_obs']))
    if any(abs(a - b) > tol_cls + 2e-3 * b for a, b in zip(new['cls_exp'], base['cls_exp'])):
        bad.append('CLs expected %r vs %r' % (new['cls_exp'], base['cls_exp']))
    if abs(new['qtilde'] - base['qtilde']) > 5e-4 * max(1.0, base['qtilde']):
        bad.append('qtilde %.6g vs %.6g' % (new['qtilde'], base['qtilde']))
    sc = eff.get('mu_scale', 1.0)
    if abs(new['muhat'] - base['muhat'] * sc) > 5e-2 * abs(base['muhat'] * sc) + 3e-2 * max(sc, 1e-3):
        bad.append('fitted POI %.6g vs %.6g' % (new['muhat'], base['muhat'] * sc))
    if check_limit and 'limit_obs' in base and 'limit_obs' in new:
        if abs(new['limit_obs'] - base['limit_obs'] * sc) > 2e-2 * base['limit_obs'] * sc:
            bad.append('upper limit %.6g vs %.6g' % (new['limit_obs'], base['limit_obs'] * sc))
    return bad


def sensitive(r):
    return r['cls_exp'][2] < 0.9 and r['cls_obs'] == r['cls_obs']


def run(ctx):
    import pyhf
    logging.getLogger('pyhf').setLevel(logging.CRITICAL)
    rng = ctx.rng
    ok, txt = core.prove(ctx)
    tie = None if ok else 'proof obligations of props/C15.v no longer check: ' + txt[-1500:]
    nmodels = ctx.n(7, 60)
    configs = [('numpy', 'scipy')]
    extra = [('numpy', 'minuit'), ('jax', 'scipy'), ('pytorch', 'scipy'), ('tensorflow', 'scipy')]
    stats = dict(models=0, insensitive_skipped=0, rewrites={}, configs={}, compositions=0, limits=0, retries=0)
    sigs = set()
    evaluations = 0
    for k in range(nmodels):
        prng = core.random.Random(rng.randrange(1 << 30))
        ws = gen_model(prng)
        mu_test = prng.choice([0.8, 1.0, 1.5, 2.0])
        try:
            base = infer(ws, mu_test, limit=(k % 3 == 0))
        except Exception as e:
            ctx.notes.append('base model inference failed (%s); skipped' % core.exc_enum(e))
            continue
        if not sensitive(base):
            stats['insensitive_skipped'] += 1
            continue
        stats['models'] += 1
        # single rewrites and one composition
        plans = [[r] for r in REWRITES]
        comp = prng.sample(REWRITES, 3)
        plans.append(comp)
        if ctx.quick:
            plans = prng.sample(plans[:-1], 4) + [plans[-1]]
        for plan in plans:
            w2, eff = copy.deepcopy(ws), {}
            names = []
            for nm, f in plan:
                r = f(prng, w2)
                if r is None:
                    continue
                w2, e2 = r
                names.append(nm)
                eff['nll_shift'] = eff.get('nll_shift', 0.0) + e2.get('nll_shift', 0.0)
                eff['mu_scale'] = eff.get('mu_scale', 1.0) * e2.get('mu_scale', 1.0)
            if not names:
                continue
            label = '+'.join(names)
            stats['rewrites'][label if len(names) == 1 else 'composition'] = stats['rewrites'].get(label if len(names) == 1 else 'composition', 0) + 1
            stats['compositions'] += len(names) > 1
            try:
                new = infer(w2, mu_test * eff.get('mu_scale', 1.0), limit=('limit_obs' in base))
            except Exception as e:
                ctx.violation('rewrite-fails:%s:%s' % (label if len(names) == 1 else 'composition', core.exc_enum(e)),
                              'inference on the rewritten model (%s) fails: %s' % (label, str(e)[:200]),
                              dict(workspace=ws, rewritten=w2, rewrites=names, mu_test=mu_test))
                continue
            evaluations += 1
            stats['limits'] += 'limit_obs' in new
            bad = compare(base, new, eff, check_limit=True)
            if bad:
                # rule out an optimiser hiccup: repeat both with minuit
                stats['retries'] += 1
                try:
                    b2 = infer(ws, mu_test, optimizer='minuit')
                    n2 = infer(w2, mu_test * eff.get('mu_scale', 1.0), optimizer='minuit')
                    bad2 = compare(b2, n2, eff)
                except Exception as e:
                    bad2 = ['minuit retry failed: ' + core.exc_enum(e)]
                if bad2:
                    ctx.violation('not-invariant:' + (label if len(names) == 1 else 'composition:' + names[0]),
                                  'inference changes under the likelihood-preserving rewrite %s: %s' % (label, '; '.join(bad)[:300]),
                                  dict(workspace=ws, rewritten=w2, rewrites=names, mu_test=mu_test, base=base, new=new, minuit=bad2,
                                       theorem='C15_reorder_invariant / ..._invariant (Ref level) lifted through C01/C02'))
            sigs.add(label + json.dumps([[len(c['samples']), len(c['samples'][0]['data'])] for c in ws['channels']]) + str(k))
        # backend / optimiser agreement on the base model
        for be, opt in (extra[(k + ctx.seed) % len(extra):][:1] if ctx.quick else extra):
            try:
                other = infer(ws, mu_test, backend=be, optimizer=opt)
            except Exception as e:
                # a failing optimiser run is C05's business (fits on well-posed models); here it only removes the comparison
                stats['configs']['%s-%s:failed' % (be, opt)] = stats['configs'].get('%s-%s:failed' % (be, opt), 0) + 1
                ctx.notes.append('inference under %s/%s failed (%s): comparison skipped' % (be, opt, core.exc_enum(e)))
                continue
            evaluations += 1
            stats['configs']['%s-%s' % (be, opt)] = stats['configs'].get('%s-%s' % (be, opt), 0) + 1
            bad = compare(base, other, {}, tol_cls=5e-4, tol_nll=5e-4)
            if bad:
                ctx.violation('config-dependence:%s-%s' % (be, opt), 'inference differs between numpy/scipy and %s/%s: %s' % (be, opt, '; '.join(bad)[:300]),
                              dict(workspace=ws, mu_test=mu_test, base=base, other=other, backend=be, optimizer=opt))
    pyhf.set_backend('numpy', 'scipy')
    if tie and not ctx.violations:
        ctx.violation('tie-broken', tie[:300], dict(kind='tie', detail=tie, theorem='props/C15.v'), nofail=True)
    ctx.trusted += ['numerical optimisers (SLSQP/MIGRAD) agree only within fit tolerance: invariance of the NUMERICAL results is validated, '
                    'the theorems are about the likelihood (Ref level)']
    ctx.coverage.update(evaluations=evaluations, distinct_nontrivial=len(sigs), stats=stats,
                        rule='generated sensitive workspaces (median expected CLs < 0.9) with modifiers of every type; each of the seven rewrites '
                             'alone and a random composition of three; observables: maximised twice_nll (up to the constant of added constraint '
                             'terms), fitted POI, qtilde, CLs observed and five expected values, grid upper limits; covariant transformation for the '
                             'signal rescaling; one more backend/optimiser configuration per model in quick, all in thorough; a mismatch is '
                             'confirmed with minuit before it is reported',
                        samples=[dict(rewrites=[n for n, _ in REWRITES], tolerances='CLs 3e-4 abs + 0.2% rel, twice_nll 2e-4 rel')])


def replay(body):
    print(json.dumps(dict(base=infer(body['workspace'], body['mu_test']),
                          new=infer(body['rewritten'], body['mu_test']) if 'rewritten' in body else None), indent=1))
    return 0
