"""C15 - inference is invariant under likelihood-preserving rewrites and configurations.

Metamorphic check.  A generated, sensitive workspace is rewritten by every member of a catalogue of likelihood-preserving
rewrites (general forms: samples merged/split with DIFFERENT yields and uncertainties, channels cut at any set of bin positions,
renamings that change the sorted order, null systematics of each type, signal rescaling, fit configuration moved from the
measurement to caller arguments, and compositions); full inference is run on both and the API-level observables are compared
with the relation the property states (equal / covariant / shifted by the constant of added constraint terms)."""
import copy
import json
import logging
import math
import os

from harness import core, engine

MS = {'normsys': {'interpcode': 'code4'}, 'histosys': {'interpcode': 'code4p'}}
LOG2PI = math.log(2 * math.pi)
NORMFACTOR_DEFAULT = dict(bounds=[0.0, 10.0], init=1.0)          # pyhf's documented defaults of an unconfigured normfactor
PER_BIN = ('staterror', 'shapesys', 'shapefactor')
MERGEABLE = ('normfactor', 'normsys', 'lumi', 'histosys', 'staterror', 'shapefactor')     # shapesys is per sample by definition


# ------------------------------------------------------------------------------------------------
def gen_model(rng, info=None):
    """a small sensitive workspace: signal with POI mu, 1-3 backgrounds, every modifier type somewhere; backgrounds may carry
    identical modifier lists (mergeable), all-zero MC-stat uncertainties, empty bins that keep an uncertainty; parameters may be
    fixed in the measurement; the observation may show a deficit, no signal, or an excess"""
    nch = rng.choice([1, 1, 2])
    chans = []
    obs = []
    extra_types = rng.sample(['normsys', 'histosys', 'staterror', 'shapesys', 'lumi', 'normfactor', 'shapefactor'], rng.choice([2, 3, 4]))
    if 'staterror' not in extra_types and rng.random() < 0.5:
        extra_types.append('staterror')
    inject = rng.choice([0.0, 0.4, 0.4, 1.0, 2.5])
    twin = rng.random() < 0.5            # backgrounds of a channel carry identical modifier lists
    zero_unc = rng.random() < 0.3        # the last background's MC-stat uncertainties are all zero
    empty_bin = rng.random() < 0.3       # the last background has an empty bin (its uncertainty there stays)
    has_lumi = False
    for ci in range(nch):
        nb = rng.choice([1, 2, 3, 4])
        sig = [engine.dy(rng, 3, 12, 0.5) for _ in range(nb)]
        if nb >= 2 and rng.random() < 0.15:
            sig[rng.randrange(nb)] = 0.0
        samples = [{'name': 'signal', 'data': sig, 'modifiers': [{'name': 'mu', 'type': 'normfactor', 'data': None}]}]
        if 'normsys' in extra_types and rng.random() < 0.5:
            samples[0]['modifiers'].append({'name': 'sig_theory', 'type': 'normsys', 'data': {'lo': 0.9, 'hi': 1.1}})
        nbkg = rng.choice([2, 2, 3]) if twin else rng.choice([1, 2])
        with_histo = rng.random() < 0.7
        first_norm = None
        for bi in range(nbkg):
            tag = 0 if twin else bi
            last = nbkg >= 2 and bi == nbkg - 1
            bdata = [engine.dy(rng, 30, 90, 1.0) for _ in range(nb)]
            if empty_bin and last:
                bdata[rng.randrange(nb)] = 0.0
            mods = []
            if 'normsys' in extra_types:
                d = {'lo': engine.dy(rng, 0.8, 0.95, 0.05), 'hi': engine.dy(rng, 1.05, 1.2, 0.05)}
                if twin:
                    first_norm = first_norm or d
                    d = dict(first_norm)
                mods.append({'name': 'bkg_norm%d' % tag, 'type': 'normsys', 'data': d})
            if 'histosys' in extra_types and (with_histo if twin else rng.random() < 0.7):
                mods.append({'name': 'shape%d' % tag, 'type': 'histosys', 'data': {'lo_data': [max(0.0, d - engine.dy(rng, 1, 4, 0.5)) for d in bdata],
                                                                                   'hi_data': [d + engine.dy(rng, 1, 4, 0.5) for d in bdata]}})
            if 'staterror' in extra_types:
                unc = [engine.dy(rng, 1, 4, 0.5) for _ in bdata]
                if zero_unc and last:
                    unc = [0.0] * nb
                mods.append({'name': 'staterror_ch%d' % ci, 'type': 'staterror', 'data': unc})
            if 'shapesys' in extra_types and bi == 0 and not twin:
                mods.append({'name': 'uncorr_ch%d' % ci, 'type': 'shapesys', 'data': [engine.dy(rng, 2, 6, 0.5) for _ in bdata]})
            if 'lumi' in extra_types:
                mods.append({'name': 'lumi', 'type': 'lumi', 'data': None})
                has_lumi = True
            if 'normfactor' in extra_types and (twin or bi == 1):
                mods.append({'name': 'k_bkg', 'type': 'normfactor', 'data': None})
            if 'shapefactor' in extra_types and (twin or bi == 1) and nbkg >= 2 and nch == 1 and nb > 1:
                mods.append({'name': 'sf', 'type': 'shapefactor', 'data': None})
            samples.append({'name': 'bkg%d' % bi, 'data': bdata, 'modifiers': mods})
        chans.append({'name': 'ch%d' % ci, 'samples': samples})
        tot = [sum(s['data'][b] for s in samples[1:]) + inject * sig[b] for b in range(nb)]
        obs.append({'name': 'ch%d' % ci, 'data': [float(max(0, round(t + rng.choice([-1, 0, 1]) * math.sqrt(t) * rng.random()))) for t in tot]})
    poi_bounds = rng.choice([[0.0, 10.0], [0.0, 10.0], [0.0, 10.0], [0.0, 20.0], [0.0, 5.0], [-1.0, 10.0]])
    params = [{'name': 'mu', 'bounds': [list(poi_bounds)], 'inits': [1.0]}]
    if has_lumi:
        params.append({'name': 'lumi', 'auxdata': [1.0], 'sigmas': [0.02], 'inits': [1.0], 'bounds': [[0.5, 1.5]]})
    scalars = sorted({(m['name'], m['type']) for c in chans for s in c['samples'] for m in s['modifiers']
                      if (m['type'] == 'normsys' and m['name'].startswith('bkg_norm')) or m['name'] == 'k_bkg'})
    if scalars and rng.random() < 0.35:
        nm, ty = rng.choice(scalars)
        params.append({'name': nm, 'fixed': True, 'inits': [rng.choice([0.5, -0.5, 1.0]) if ty == 'normsys' else rng.choice([0.875, 1.125])]})
    if info is not None:
        info.update(inject=inject, twin=twin, zero_unc=zero_unc, empty_bin=empty_bin, types=sorted(extra_types), poi_bounds=poi_bounds)
    return {'channels': chans, 'observations': obs, 'measurements': [{'name': 'm', 'config': {'poi': 'mu', 'parameters': params}}], 'version': '1.0.0'}


def gen_case(rng, info=None):
    info = {} if info is None else info
    ws = gen_model(rng, info)
    mu_test = rng.choice([0.8, 1.0, 1.5, 2.0]) + (info['inject'] if rng.random() < 0.8 else 0.0)
    return ws, min(mu_test, info['poi_bounds'][1])


# ------------------------------------------------------------------------------------------------
# rewrites: f(rng, workspace, eff) -> (new workspace, new eff) or None when not applicable.
# eff describes how the observables transform and what the CALLER passes to the inference functions:
#   nll_shift : constant added to twice_nll by added constraint terms (None: constant not predicted, not compared)
#   mu_scale  : POI values (tested value, fitted value, limits) are multiplied by this
#   args      : None or dict(poi_bounds=[lo, hi], poi_init=x, fixed={parameter name: [values]}) passed as
#               init_pars / par_bounds / fixed_params by the caller (on top of the model's own suggestions)
#   muhat     : fitted POI of the original model (a hint for choosing scales; not an oracle)
def new_eff(muhat=None):
    return dict(nll_shift=0.0, mu_scale=1.0, args=None, muhat=muhat)


def _cfg(w):
    return w['measurements'][0]['config']


def _all_mod_names(w):
    return {m['name'] for c in w['channels'] for s in c['samples'] for m in s['modifiers']}


def rw_reorder(rng, ws, eff):
    w = copy.deepcopy(ws)
    rng.shuffle(w['channels'])
    rng.shuffle(w['observations'])
    for c in w['channels']:
        rng.shuffle(c['samples'])
        for s in c['samples']:
            rng.shuffle(s['modifiers'])
    rng.shuffle(_cfg(w)['parameters'])
    return w, eff


def _name_map(rng, names, keep=()):
    """an injective renaming; half of the time one that reverses the sorted order, otherwise prefixes that move names around
    (upper case, digits and '_' sort before lower case)"""
    names = sorted(names)
    if rng.random() < 0.5:
        width = len(str(len(names)))
        out = {n: 'r%0*d_%s' % (width, len(names) - 1 - i, n) for i, n in enumerate(names)}
    else:
        out = {n: rng.choice(['a_', 'zz_', 'M', 'Z9', '_', '0']) + n for n in names}
    for n in keep:
        if n in out:
            out[n] = n
    assert len(set(out.values())) == len(out)
    return out


def rw_rename(rng, ws, eff):
    w = copy.deepcopy(ws)
    eff = copy.deepcopy(eff)
    cmap = _name_map(rng, [c['name'] for c in w['channels']])
    mmap = _name_map(rng, _all_mod_names(w) | {p['name'] for p in _cfg(w)['parameters']}, keep=('lumi',))
    smap = _name_map(rng, {s['name'] for c in w['channels'] for s in c['samples']})
    for c in w['channels']:
        c['name'] = cmap[c['name']]
        for s in c['samples']:
            s['name'] = smap[s['name']]
            for m in s['modifiers']:
                m['name'] = mmap[m['name']]
    for o in w['observations']:
        o['name'] = cmap[o['name']]
    cfg = _cfg(w)
    cfg['poi'] = mmap[cfg['poi']]
    for p in cfg['parameters']:
        p['name'] = mmap.get(p['name'], p['name'])
    if eff['args'] and eff['args'].get('fixed'):
        eff['args']['fixed'] = {mmap[k]: v for k, v in eff['args']['fixed'].items()}
    return w, eff


def rw_zero_sample(rng, ws, eff):
    """a sample with zero yields: without modifiers, or carrying copies of modifiers that already exist in the channel (a factor
    times zero is zero; zero histosys variations; zero MC-stat uncertainties) so that no parameter is added"""
    w = copy.deepcopy(ws)
    c = rng.choice(w['channels'])
    nb = len(c['samples'][0]['data'])
    mods = []
    if rng.random() < 0.5:
        donor = rng.choice(c['samples'])
        for m in donor['modifiers']:
            if m['type'] in ('normfactor', 'normsys', 'lumi', 'shapefactor'):
                mods.append(copy.deepcopy(m))
            elif m['type'] == 'histosys':
                mods.append({'name': m['name'], 'type': 'histosys', 'data': {'lo_data': [0.0] * nb, 'hi_data': [0.0] * nb}})
            elif m['type'] == 'staterror':
                mods.append({'name': m['name'], 'type': 'staterror', 'data': [0.0] * nb})
    c['samples'].insert(rng.randrange(len(c['samples']) + 1), {'name': 'empty', 'data': [0.0] * nb, 'modifiers': mods})
    return w, eff


def rw_null_systematic(rng, ws, eff):
    """a systematic of each constrained type whose variations equal the nominal"""
    w = copy.deepcopy(ws)
    eff = copy.deepcopy(eff)
    c = rng.choice(w['channels'])
    s = rng.choice(c['samples'])
    nb = len(s['data'])
    used = _all_mod_names(w)
    kinds = ['normsys', 'histosys']
    if not any(m['type'] == 'staterror' for m in s['modifiers']):
        kinds.append('staterror')
    if not any(m['type'] == 'shapesys' for m in s['modifiers']):
        kinds.append('shapesys')
    if 'lumi' not in used and not any(p['name'] == 'lumi' for p in _cfg(w)['parameters']):
        kinds.append('lumi')
    kind = rng.choice(kinds)
    name = 'null_' + kind
    while name in used:
        name += 'x'
    shift = None
    if kind == 'normsys':
        s['modifiers'].append({'name': name, 'type': 'normsys', 'data': {'lo': 1.0, 'hi': 1.0}})
        shift = LOG2PI                                   # one more unit Gaussian constraint at its maximum
    elif kind == 'histosys':
        s['modifiers'].append({'name': name, 'type': 'histosys', 'data': {'lo_data': list(s['data']), 'hi_data': list(s['data'])}})
        shift = LOG2PI
    elif kind == 'staterror':
        s['modifiers'].append({'name': name, 'type': 'staterror', 'data': [0.0] * nb})      # zero width: the factors stay at one
    elif kind == 'shapesys':
        s['modifiers'].append({'name': name, 'type': 'shapesys', 'data': [0.0] * nb})
    else:
        sigma = rng.choice([0.02, 0.05])
        s['modifiers'].append({'name': 'lumi', 'type': 'lumi', 'data': None})
        _cfg(w)['parameters'].append({'name': 'lumi', 'auxdata': [1.0], 'sigmas': [sigma], 'inits': [1.0], 'bounds': [[0.5, 1.5]], 'fixed': True})
        shift = math.log(2 * math.pi * sigma * sigma)    # Gaussian of width sigma at its maximum
    # the normalisation pyhf gives to constraint terms of parameters that cannot move (zero width) is its own choice: the
    # property only asks for a constant, which the equality of the test statistics (differences of two maxima) checks
    eff['nll_shift'] = None if (shift is None or eff['nll_shift'] is None) else eff['nll_shift'] + shift
    eff['null_kind'] = kind
    return w, eff


def rw_split_channel(rng, ws, eff):
    """cut one channel into several channels at any non-empty set of bin positions; per-bin parameters are cut with it"""
    w = copy.deepcopy(ws)
    configured = {p['name'] for p in _cfg(w)['parameters']}
    cands = [c for c in w['channels'] if len(c['samples'][0]['data']) >= 2
             and not any(m['type'] in PER_BIN and m['name'] in configured for s in c['samples'] for m in s['modifiers'])]
    if not cands:
        return None
    c = rng.choice(cands)
    perbin = {m['name'] for s in c['samples'] for m in s['modifiers'] if m['type'] in PER_BIN}
    if any(m['name'] in perbin for c2 in w['channels'] if c2 is not c for s in c2['samples'] for m in s['modifiers']):
        return None                       # a per-bin parameter set shared with another channel
    nb = len(c['samples'][0]['data'])
    if rng.random() < 0.5:
        cuts = [rng.randrange(1, nb)]
    else:
        cuts = sorted(rng.sample(range(1, nb), rng.randrange(1, nb)))
    edges = [0] + cuts + [nb]
    parts = []
    newobs = []
    o = [x for x in w['observations'] if x['name'] == c['name']][0]
    for pi in range(len(edges) - 1):
        sl = slice(edges[pi], edges[pi + 1])
        tag = '_p%d' % pi
        cc = copy.deepcopy(c)
        cc['name'] = c['name'] + tag
        for s in cc['samples']:
            s['data'] = s['data'][sl]
            for m in s['modifiers']:
                if m['type'] == 'histosys':
                    m['data'] = {'lo_data': m['data']['lo_data'][sl], 'hi_data': m['data']['hi_data'][sl]}
                elif m['type'] in PER_BIN:
                    if m['data'] is not None:
                        m['data'] = m['data'][sl]
                    m['name'] = m['name'] + tag
        parts.append(cc)
        newobs.append({'name': cc['name'], 'data': o['data'][sl]})
    pos = rng.randrange(len(w['channels']))
    rest = [x for x in w['channels'] if x['name'] != c['name']]
    w['channels'] = rest[:pos] + parts + rest[pos:]
    w['observations'] = [x for x in w['observations'] if x['name'] != c['name']] + newobs
    return w, eff


def _mod_signature(s):
    return json.dumps(sorted((m['name'], m['type'], json.dumps(m['data'], sort_keys=True) if m['type'] == 'normsys' else '') for m in s['modifiers']))


def _weights(rng, n, pool, force_zero=None):
    """n non-negative weights summing to one, zeros allowed (not all zero)"""
    while True:
        w = [rng.choice(pool) for _ in range(n)]
        if force_zero is not None:
            w[force_zero] = 0
        if sum(w) > 0:
            return [x / sum(w) for x in w]


def rw_merge_samples(rng, ws, eff, direction=None):
    """merging samples that carry identical modifiers: yields added, histosys templates added, MC-stat uncertainties added in
    quadrature.  Either direction: merge an existing group of 2-3 such samples, or split one sample into 2-3 parts with
    different per-bin fractions (a part may be empty in a bin and keep an uncertainty there, or have no uncertainty at all)"""
    w = copy.deepcopy(ws)
    eff = copy.deepcopy(eff)
    groups, single = [], []
    for c in w['channels']:
        by = {}
        for s in c['samples']:
            if all(m['type'] in MERGEABLE for m in s['modifiers']):
                by.setdefault(_mod_signature(s), []).append(s)
                single.append((c, s))
        groups += [(c, g) for g in by.values() if len(g) >= 2]
    if direction is None:
        direction = 'merge' if (groups and (not single or rng.random() < 0.5)) else 'split'
    if direction == 'merge':
        if not groups:
            return None
        c, g = rng.choice(groups)
        if len(g) > 2 and rng.random() < 0.4:
            g = rng.sample(g, 2)
        nb = len(g[0]['data'])
        merged = {'name': g[0]['name'] + '_merged', 'data': [math.fsum(s['data'][b] for s in g) for b in range(nb)], 'modifiers': []}
        for m in g[0]['modifiers']:
            others = [[m2 for m2 in s['modifiers'] if m2['name'] == m['name'] and m2['type'] == m['type']][0] for s in g]
            mm = copy.deepcopy(m)
            if m['type'] == 'histosys':
                mm['data'] = {k: [math.fsum(o['data'][k][b] for o in others) for b in range(nb)] for k in ('lo_data', 'hi_data')}
            elif m['type'] == 'staterror':
                mm['data'] = [math.sqrt(math.fsum(o['data'][b] ** 2 for o in others)) for b in range(nb)]
            merged['modifiers'].append(mm)
        ids = {id(s) for s in g}
        pos = min(i for i, s in enumerate(c['samples']) if id(s) in ids)
        c['samples'] = [s for s in c['samples'] if id(s) not in ids]
        c['samples'].insert(min(pos, len(c['samples'])), merged)
        eff['merge'] = dict(direction='merge', n=len(g))
        return w, eff
    if not single:
        return None
    c, s = rng.choice(single)
    nb = len(s['data'])
    n = rng.choice([2, 2, 3])
    no_unc = rng.randrange(n) if rng.random() < 0.4 else None           # one part without any MC-stat uncertainty
    frac = [_weights(rng, n, [0, 1, 1, 2, 3, 5]) for _ in range(nb)]        # yields
    quad = [_weights(rng, n, [0, 1, 2, 4], force_zero=no_unc) for _ in range(nb)]   # shares of the squared uncertainty
    var = [_weights(rng, n, [0, 1, 1, 2]) for _ in range(nb)]               # shares of the histosys variations
    parts = []
    for j in range(n):
        p = {'name': '%s_part%d' % (s['name'], j + 1), 'data': [s['data'][b] * frac[b][j] for b in range(nb)], 'modifiers': []}
        for m in s['modifiers']:
            mm = copy.deepcopy(m)
            if m['type'] == 'histosys':
                mm['data'] = {k: [p['data'][b] + (m['data'][k][b] - s['data'][b]) * var[b][j] for b in range(nb)] for k in ('lo_data', 'hi_data')}
            elif m['type'] == 'staterror':
                mm['data'] = [m['data'][b] * math.sqrt(quad[b][j]) for b in range(nb)]
            p['modifiers'].append(mm)
        parts.append(p)
    pos = [i for i, x in enumerate(c['samples']) if x is s][0]
    c['samples'] = c['samples'][:pos] + parts + c['samples'][pos + 1:]
    eff['merge'] = dict(direction='split', n=n, part_without_uncertainty=no_unc is not None,
                        empty_bin_with_uncertainty=any(frac[b][j] == 0 and quad[b][j] > 0 for b in range(nb) for j in range(n))
                        and any(m['type'] == 'staterror' for m in s['modifiers']))
    return w, eff


def rw_split_samples(rng, ws, eff):
    return rw_merge_samples(rng, ws, eff, direction='split')


def _is_sig(s, poi):
    return any(m['type'] == 'normfactor' and m['name'] == poi for m in s['modifiers'])


def rw_signal_rescale(rng, ws, eff):
    """all yields of the signal times k; POI bounds and starting value divided by k (wherever they live: in the measurement
    or in the caller's arguments).  k is also chosen such that the best fit leaves the range an unconfigured POI would have"""
    w = copy.deepcopy(ws)
    eff = copy.deepcopy(eff)
    cfg = _cfg(w)
    poi = cfg['poi']
    sig = [s for c in w['channels'] for s in c['samples'] if _is_sig(s, poi)]
    if not sig or any(m['type'] in ('staterror', 'shapesys') for s in sig for m in s['modifiers']):
        return None
    ks = [0.5, 2.0, 4.0, 0.25]
    muhat = (eff.get('muhat') or 0.0) * eff['mu_scale']
    if muhat > 0.05 and rng.random() < 0.6:
        ks = [muhat / (NORMFACTOR_DEFAULT['bounds'][1] * r) for r in (1.25, 2.0, 4.0)]
    k = rng.choice(ks)
    for s in sig:
        s['data'] = [d * k for d in s['data']]
        for m in s['modifiers']:
            if m['type'] == 'histosys':
                m['data'] = {kk: [d * k for d in m['data'][kk]] for kk in ('lo_data', 'hi_data')}
    args = eff['args'] or {}
    entry = [p for p in cfg['parameters'] if p['name'] == poi]
    if not entry:
        entry = [{'name': poi}]
        cfg['parameters'].append(entry[0])
    p = entry[0]
    if 'poi_bounds' in args:
        args['poi_bounds'] = [x / k for x in args['poi_bounds']]
    else:
        lo, hi = p['bounds'][0] if 'bounds' in p else NORMFACTOR_DEFAULT['bounds']
        p['bounds'] = [[lo / k, hi / k]]
    if 'poi_init' in args:
        args['poi_init'] = args['poi_init'] / k
    else:
        p['inits'] = [(p['inits'][0] if 'inits' in p else NORMFACTOR_DEFAULT['init']) / k]
    eff['mu_scale'] = eff['mu_scale'] / k
    eff['k'] = eff.get('k', 1.0) * k
    return w, eff


def rw_config_to_args(rng, ws, eff):
    """the fit configuration of the measurement (POI range and starting value, fixed parameters and their values) is removed
    from the workspace and handed to the inference functions by the caller as par_bounds / init_pars / fixed_params"""
    w = copy.deepcopy(ws)
    eff = copy.deepcopy(eff)
    cfg = _cfg(w)
    args = eff['args'] or {}
    moved = False
    keep = []
    for p in cfg['parameters']:
        if p['name'] == cfg['poi']:
            if 'bounds' in p and 'poi_bounds' not in args:
                args['poi_bounds'] = list(p.pop('bounds')[0])
                moved = True
            if 'inits' in p and 'poi_init' not in args and not p.get('fixed'):
                args['poi_init'] = p.pop('inits')[0]
                moved = True
        elif p.get('fixed') and 'inits' in p and set(p) <= {'name', 'fixed', 'inits'}:
            args.setdefault('fixed', {})[p['name']] = list(p.pop('inits'))
            p.pop('fixed')
            moved = True
        if set(p) - {'name'}:
            keep.append(p)
    if not moved:
        return None
    cfg['parameters'] = keep
    eff['args'] = args
    return w, eff


REWRITES = [('reorder', rw_reorder), ('rename', rw_rename), ('zero-sample', rw_zero_sample), ('null-systematic', rw_null_systematic),
            ('split-channel', rw_split_channel), ('merge-samples', rw_merge_samples), ('split-samples', rw_split_samples),
            ('signal-rescale', rw_signal_rescale), ('config-to-arguments', rw_config_to_args)]
RW = dict(REWRITES)


def apply_plan(prng, ws, plan, muhat):
    w2, eff, names = copy.deepcopy(ws), new_eff(muhat), []
    for nm in plan:
        r = RW[nm](prng, w2, eff)
        if r is None:
            continue
        w2, eff = r
        names.append(nm)
    return w2, eff, names


# ------------------------------------------------------------------------------------------------
def set_backend(backend, optimizer, tight):
    import pyhf
    if tight:
        opt = (pyhf.optimize.scipy_optimizer(tolerance=1e-12, maxiter=200000) if optimizer == 'scipy'
               else pyhf.optimize.minuit_optimizer(tolerance=1e-4, maxiter=200000))
        pyhf.set_backend(backend, opt, precision='64b')
    else:
        pyhf.set_backend(backend, optimizer, precision='64b')


def infer(ws, mu_test, backend='numpy', optimizer='scipy', limit=False, args=None, tight=False):
    """every observable the property names, through the public API.  `args` (see new_eff) are the caller's arguments; when
    there are none the API defaults are used (hypotest/fit called without init_pars/par_bounds/fixed_params)"""
    import pyhf
    set_backend(backend, optimizer, tight)
    TS = pyhf.infer.test_statistics
    w = pyhf.Workspace(ws)
    m = w.model(modifier_settings=MS)
    data = w.data(m)
    pi = m.config.poi_index
    init, bounds, fixed = m.config.suggested_init(), m.config.suggested_bounds(), m.config.suggested_fixed()
    kw = {}
    if args:
        if 'poi_bounds' in args:
            bounds[pi] = (float(args['poi_bounds'][0]), float(args['poi_bounds'][1]))
        if 'poi_init' in args:
            init[pi] = float(args['poi_init'])
        for name, vals in (args.get('fixed') or {}).items():
            sl = m.config.par_slice(name)
            for j, i in enumerate(range(sl.start, sl.stop)):
                fixed[i] = True
                init[i] = float(vals[j])
        kw = dict(init_pars=init, par_bounds=bounds, fixed_params=fixed)
    tl = pyhf.tensorlib
    f = lambda x: float(tl.tolist(x)) if not isinstance(x, float) else x
    out = {}
    best, twice_nll = pyhf.infer.mle.fit(data, m, return_fitted_val=True, **kw)
    out['twice_nll'] = f(twice_nll)
    out['muhat'] = float(tl.tolist(best)[pi])
    ts = 'qtilde' if bounds[pi][0] == 0 else 'q'
    out['test_stat'] = ts
    cls_obs, tails, cls_exp = pyhf.infer.hypotest(mu_test, data, m, test_stat=ts, return_tail_probs=True, return_expected_set=True, **kw)
    out['cls_obs'] = f(cls_obs)
    out['clsb_obs'], out['clb_obs'] = f(tails[0]), f(tails[1])
    out['cls_exp'] = [f(x) for x in cls_exp]
    stat = TS.qmu_tilde if ts == 'qtilde' else TS.qmu
    out['q_obs'] = f(stat(mu_test, data, m, init, bounds, fixed))
    out['q0_obs'] = f(TS.q0(0.0, data, m, init, bounds, fixed))
    asimov_b = pyhf.infer.calculators.generate_asimov_data(0.0, data, m, init, bounds, fixed)
    out['q_asimov'] = f(stat(mu_test, asimov_b, m, init, bounds, fixed))
    asimov_s = pyhf.infer.calculators.generate_asimov_data(mu_test, data, m, init, bounds, fixed)
    out['q0_asimov'] = f(TS.q0(0.0, asimov_s, m, init, bounds, fixed))
    if limit:
        import numpy as np
        hi = bounds[pi][1]
        scan = np.linspace(0.0, min(hi, 6.0 * max(mu_test, 0.2 * hi / 10.0)), 11)
        obs_lim, exp_lims = pyhf.infer.intervals.upper_limits.upper_limit(data, m, scan, level=0.05, test_stat=ts, **kw)
        out['limit_obs'] = f(obs_lim)
        out['limit_exp'] = [f(x) for x in exp_lims]
    return out


def compare(base, new, eff, tol_cls=3e-4, tol_nll=2e-4, check_limit=False):
    """the relation the property states between the observables of the original and of the rewritten model"""
    bad = []
    shift = eff.get('nll_shift', 0.0)
    if shift is not None and abs((new['twice_nll'] - shift) - base['twice_nll']) > tol_nll * max(1.0, abs(base['twice_nll'])):
        bad.append('maximised likelihood: twice_nll %.8g vs %.8g (+%.4g expected)' % (new['twice_nll'], base['twice_nll'], shift))
    for key, label in (('cls_obs', 'CLs observed'), ('clsb_obs', 'CLs+b observed'), ('clb_obs', 'CLb observed')):
        if key in base and key in new and not abs(new[key] - base[key]) <= tol_cls + 2e-3 * base[key]:
            bad.append('%s %.6g vs %.6g' % (label, new[key], base[key]))
    if not all(abs(a - b) <= tol_cls + 2e-3 * b for a, b in zip(new['cls_exp'], base['cls_exp'])):
        bad.append('CLs expected %r vs %r' % (new['cls_exp'], base['cls_exp']))
    for key, label in (('q_obs', 'test statistic (observed)'), ('q_asimov', 'test statistic (Asimov)'),
                       ('q0_obs', 'q0 (observed)'), ('q0_asimov', 'q0 (Asimov)')):
        if key in base and key in new and not abs(new[key] - base[key]) <= 5e-4 * max(1.0, base[key]):
            bad.append('%s %.6g vs %.6g' % (label if 'q0' in key else base.get('test_stat', 'q') + ' ' + label, new[key], base[key]))
    sc = eff.get('mu_scale', 1.0)
    if not abs(new['muhat'] - base['muhat'] * sc) <= 5e-2 * abs(base['muhat'] * sc) + 3e-2 * max(sc, 1e-3):
        bad.append('fitted POI %.6g vs %.6g' % (new['muhat'], base['muhat'] * sc))
    if check_limit and 'limit_obs' in base and 'limit_obs' in new:
        if not abs(new['limit_obs'] - base['limit_obs'] * sc) <= 2e-2 * base['limit_obs'] * sc:
            bad.append('upper limit %.6g vs %.6g' % (new['limit_obs'], base['limit_obs'] * sc))
        if not all(abs(a - b * sc) <= 2e-2 * b * sc for a, b in zip(new['limit_exp'], base['limit_exp'])):
            bad.append('expected upper limits %r vs %r (x %.6g)' % (new['limit_exp'], base['limit_exp'], sc))
    return bad


def sensitive(r):
    return r['cls_exp'][2] < 0.9 and r['cls_obs'] == r['cls_obs']


def check_pair(ws, w2, mu_test, eff, base=None, backend='numpy', optimizer='scipy', limit=False):
    """returns (status, detail): status in ok / violated / error; a mismatch is confirmed with tightly converged fits of both
    optimisers before it is reported (the numerical optimisers agree within their tolerance only)"""
    detail = {}
    mu2 = mu_test * eff.get('mu_scale', 1.0)
    if base is None:
        base = infer(ws, mu_test, backend, optimizer, limit=limit)
    detail['base'] = base
    try:
        new = infer(w2, mu2, backend, optimizer, limit='limit_obs' in base, args=eff.get('args'))
    except Exception as e:
        detail['error'] = '%s: %s' % (core.exc_enum(e), str(e)[:200])
        detail['exc'] = core.exc_enum(e)
        return 'error', detail
    detail['new'] = new
    bad = compare(base, new, eff, check_limit=True)
    if not bad:
        return 'ok', detail
    detail['first'] = bad
    confirmed = []
    ran = 0
    for opt in ('scipy', 'minuit'):
        try:
            b2 = infer(ws, mu_test, backend, opt, limit='limit_obs' in base, tight=True)
            n2 = infer(w2, mu2, backend, opt, limit='limit_obs' in base, args=eff.get('args'), tight=True)
        except Exception as e:
            detail.setdefault('retry_failed', []).append('%s: %s' % (opt, core.exc_enum(e)))
            continue
        ran += 1
        bad2 = compare(b2, n2, eff, check_limit=True)
        detail['retry_' + opt] = dict(base=b2, new=n2, mismatch=bad2)
        if not bad2:
            return 'ok-after-retry', detail
        confirmed = confirmed or bad2
    if ran == 0:
        return 'ok-after-retry', detail          # nothing could be confirmed: an optimiser matter (C05), not an invariance verdict
    detail['confirmed'] = confirmed
    return 'violated', detail


# ------------------------------------------------------------------------------------------------
def plans_for(prng, quick):
    singles = [[n] for n, _ in REWRITES]
    comps = [['signal-rescale', 'config-to-arguments'], ['split-samples', prng.choice(['merge-samples', 'split-samples'])],
             [n for n, _ in prng.sample(REWRITES, 3)]]
    if not quick:
        comps += [['config-to-arguments', 'signal-rescale', 'rename'], [n for n, _ in prng.sample(REWRITES, 4)],
                  ['merge-samples', 'split-channel', 'reorder']]
    return singles + comps


def base_job(job):
    """stage 1 (worker process): generate the model of this seed and run the full inference on it.  Plain data only."""
    import time
    t0 = time.time()
    logging.getLogger('pyhf').setLevel(logging.CRITICAL)
    info = {}
    ws, mu_test = gen_case(core.random.Random(job['seed']), info)
    res = dict(k=job['k'], info=info, notes=[], status='ok', mu_test=mu_test)
    try:
        base = infer(ws, mu_test, job['backend'], job['optimizer'], limit=job['limit'])
    except Exception as e:
        res['status'] = 'base-failed'
        res['notes'].append('base model inference failed (%s: %s); skipped' % (core.exc_enum(e), str(e)[:120]))
        return res
    res['base'] = base
    res['wall'] = round(time.time() - t0, 1)
    if not sensitive(base):
        res['status'] = 'insensitive'
    return res


def features_of(eff, detail):
    feats = []
    if eff.get('merge'):
        feats += ['merge:%s' % eff['merge']['direction']] + [kk for kk in ('part_without_uncertainty', 'empty_bin_with_uncertainty') if eff['merge'].get(kk)]
    if eff.get('args'):
        feats.append('caller-arguments')
        lo, hi = NORMFACTOR_DEFAULT['bounds']
        if 'new' in detail and not (lo <= detail['new']['muhat'] <= hi):
            feats.append('best-fit-outside-default-bounds')
        if eff['args'].get('fixed'):
            feats.append('fixed-by-caller')
    if eff.get('null_kind'):
        feats.append('null:' + eff['null_kind'])
    return feats


def plan_job(job):
    """stage 2 (worker process): one rewrite plan applied to the model of this seed, inference on the rewritten model, comparison
    with the stage-1 result.  Plain data only."""
    import time
    t0 = time.time()
    logging.getLogger('pyhf').setLevel(logging.CRITICAL)
    backend, optimizer, base, k = job['backend'], job['optimizer'], job['base'], job['k']
    ws, mu_test = gen_case(core.random.Random(job['seed']))
    prng = core.random.Random(job['seed'] * 131 + job['pi'])
    w2, eff, names = apply_plan(prng, ws, job['plan'], base['muhat'])
    res = dict(k=k, names=names, fail=None, features=[], limit=False, retry=False)
    if not names:
        return res
    label = names[0] if len(names) == 1 else 'composition'
    res['label'] = label
    status, detail = check_pair(ws, w2, mu_test, eff, base=base, backend=backend, optimizer=optimizer)
    res['limit'] = 'limit_obs' in detail.get('new', {})
    res['retry'] = 'first' in detail
    res['features'] = features_of(eff, detail)
    res['sig'] = '+'.join(names) + json.dumps([[len(c['samples']), len(c['samples'][0]['data'])] for c in ws['channels']]) + str(k)
    eff_out = {kk: eff[kk] for kk in ('nll_shift', 'mu_scale', 'args') if kk in eff}
    if status == 'error':
        res['fail'] = dict(signature='rewrite-fails:%s:%s' % (label, detail['exc']),
                           what='inference on the rewritten model (%s) fails: %s' % ('+'.join(names), detail['error']),
                           replay=dict(workspace=ws, rewritten=w2, rewrites=names, mu_test=mu_test, eff=eff_out, backend=backend, optimizer=optimizer,
                                       observed=detail['error'], expected=dict(relation='equal to the original model up to eff (mu_scale, nll_shift)', original=base)))
    elif status == 'violated':
        res['fail'] = dict(signature='not-invariant:' + (label if len(names) == 1 else 'composition:' + names[0]),
                           what='inference changes under the likelihood-preserving rewrite %s: %s' % ('+'.join(names), '; '.join(detail['first'])[:300]),
                           replay=dict(workspace=ws, rewritten=w2, rewrites=names, mu_test=mu_test, eff=eff_out, backend=backend, optimizer=optimizer,
                                       observed=detail['new'], expected=dict(relation='equal to the original model up to eff (mu_scale, nll_shift)', original=detail['base']),
                                       confirmed_with_tight_fits=detail['confirmed'],
                                       theorem='C15_*_invariant (Ref level) lifted through C01/C02'))
    res['wall'] = round(time.time() - t0, 1)
    return res


def model_job(job):
    """both stages for one model in this process (used by tests and by replay of a generated case)"""
    b = base_job(dict(job, limit=job.get('limit', job['k'] % 4 == 0)))
    out = dict(base=b, plans=[])
    if b['status'] == 'ok':
        for pi, plan in enumerate(plans_for(core.random.Random(job['seed'] ^ 0x5bd1e995), job['quick'])):
            out['plans'].append(plan_job(dict(job, pi=pi, plan=plan, base=b['base'])))
    return out


def load_corpus():
    d = os.path.join(core.VERIF, 'corpus', 'C15')
    out = []
    if os.path.isdir(d):
        for fn in sorted(os.listdir(d)):
            if fn.endswith('.json'):
                body = json.load(open(os.path.join(d, fn)))
                for c in body.get('cases', []):
                    out.append((fn, c))
    return out


def report(ctx, fails):
    """one violation per signature: the smallest failing instance"""
    by = {}
    for f in fails:
        by.setdefault(f['signature'], []).append(f)
    for sig in sorted(by):
        f = min(by[sig], key=lambda x: len(json.dumps(x['replay']['rewritten'])))
        f['replay']['n_failing_cases'] = len(by[sig])
        ctx.violation(sig, f['what'], f['replay'])


def run(ctx):
    import concurrent.futures
    import multiprocessing
    import pyhf
    logging.getLogger('pyhf').setLevel(logging.CRITICAL)
    rng = ctx.rng
    ok, txt = core.prove(ctx)
    tie = None if ok else 'proof obligations of props/C15.v no longer check: ' + txt[-1500:]
    nmodels = ctx.n(12, 60)
    primary = [('numpy', 'scipy')] if ctx.quick else [('numpy', 'scipy'), ('numpy', 'minuit'), ('jax', 'scipy'), ('pytorch', 'minuit')]
    extra = [('numpy', 'minuit'), ('jax', 'scipy'), ('pytorch', 'scipy'), ('tensorflow', 'scipy')]
    stats = dict(models=0, insensitive_skipped=0, rewrites={}, features={}, configs={}, primary_configs={}, limits=0, retries=0, corpus=0,
                 generator=dict(twin=0, zero_unc=0, empty_bin=0, excess=0, deficit=0, poi_bounds={}), slowest_s=0.0)
    fails = []
    evaluations = 0
    sigs = set()

    # ---- generated models, stage 1 in worker processes: the original models ----
    jobs = []
    for k in range(nmodels):
        be, opt = primary[k % len(primary)]
        jobs.append(dict(seed=rng.randrange(1 << 30), k=k, quick=ctx.quick, backend=be, optimizer=opt, limit=(k % 4 == 0)))
    workers = max(2, min(8, core.NCPU // 2))
    pool = concurrent.futures.ProcessPoolExecutor(max_workers=workers, mp_context=multiprocessing.get_context('spawn'))
    base_futures = [pool.submit(base_job, j) for j in jobs]

    # ---- meanwhile: corpus first (minimised past failures) ----
    for fn, c in load_corpus():
        eff = dict(new_eff(), **c.get('eff', {}))
        status, detail = check_pair(c['workspace'], c['rewritten'], c['mu_test'], eff, limit=bool(c.get('limit')))
        evaluations += 1
        stats['corpus'] += 1
        label = c.get('label', 'corpus')
        rp = dict(workspace=c['workspace'], rewritten=c['rewritten'], rewrites=c.get('rewrites', [label]), mu_test=c['mu_test'], eff=c.get('eff', {}), corpus=fn,
                  expected=dict(relation='equal to the original model up to eff (mu_scale, nll_shift)', original=detail['base']))
        if status == 'error':
            fails.append(dict(signature='rewrite-fails:%s:%s' % (label, detail['exc']), what='inference on the rewritten model (%s, corpus %s) fails: %s' % (label, fn, detail['error']),
                              replay=dict(rp, observed=detail['error'])))
        elif status == 'violated':
            fails.append(dict(signature='not-invariant:' + label,
                              what='inference changes under the likelihood-preserving rewrite %s (corpus %s: %s): %s' % (label, fn, c.get('comment', ''), '; '.join(detail['first'])[:300]),
                              replay=dict(rp, observed=detail['new'], confirmed_with_tight_fits=detail['confirmed'], theorem='C15_*_invariant (Ref level) lifted through C01/C02')))
    ctx.log('%d corpus cases' % stats['corpus'])

    # ---- stage 2 in worker processes: every plan of every sensitive model ----
    bases = {}
    plan_futures = []
    for fu in base_futures:
        r = fu.result()
        ctx.notes += r['notes']
        if r['status'] == 'insensitive':
            stats['insensitive_skipped'] += 1
        if r['status'] != 'ok':
            continue
        j = jobs[r['k']]
        bases[r['k']] = r
        stats['models'] += 1
        key = '%s-%s' % (j['backend'], j['optimizer'])
        stats['primary_configs'][key] = stats['primary_configs'].get(key, 0) + 1
        g = stats['generator']
        g['twin'] += r['info']['twin']
        g['zero_unc'] += r['info']['zero_unc']
        g['empty_bin'] += r['info']['empty_bin']
        g['excess'] += r['base']['muhat'] > 1.5
        g['deficit'] += r['base']['muhat'] < 0.01
        g['poi_bounds'][str(r['info']['poi_bounds'])] = g['poi_bounds'].get(str(r['info']['poi_bounds']), 0) + 1
        stats['slowest_s'] = max(stats['slowest_s'], r['wall'])
        for pi, plan in enumerate(plans_for(core.random.Random(j['seed'] ^ 0x5bd1e995), ctx.quick)):
            plan_futures.append(pool.submit(plan_job, dict(j, pi=pi, plan=plan, base=r['base'])))
    ctx.log('%d sensitive models, %d rewrite plans submitted' % (stats['models'], len(plan_futures)))

    # ---- meanwhile: backend/optimiser agreement on the original models, in this process ----
    agree_models = []
    for k in sorted(bases):
        j = jobs[k]
        ws, mu_test = gen_case(core.random.Random(j['seed']))
        agree_models.append((ws, mu_test))
        base = bases[k]['base']
        if (j['backend'], j['optimizer']) != ('numpy', 'scipy'):
            try:
                base = infer(ws, mu_test)
            except Exception as e:
                ctx.notes.append('inference under numpy/scipy failed (%s): comparison skipped' % core.exc_enum(e))
                continue
        for be, opt in (extra[(k + ctx.seed) % len(extra):][:1] if ctx.quick else extra):
            key = '%s-%s' % (be, opt)
            try:
                other = infer(ws, mu_test, backend=be, optimizer=opt)
            except Exception as e:
                # a failing optimiser run is C05's business (fits on well-posed models); here it only removes the comparison
                stats['configs'][key + ':failed'] = stats['configs'].get(key + ':failed', 0) + 1
                ctx.notes.append('inference under %s/%s failed (%s: %s): comparison skipped' % (be, opt, core.exc_enum(e), str(e)[:100]))
                continue
            evaluations += 1
            stats['configs'][key] = stats['configs'].get(key, 0) + 1
            bad = compare(base, other, {}, tol_cls=5e-4, tol_nll=5e-4)
            if bad:
                # rule out an optimiser hiccup: both sides again with tightly converged fits
                try:
                    bad = compare(infer(ws, mu_test, tight=True), infer(ws, mu_test, backend=be, optimizer=opt, tight=True), {}, tol_cls=5e-4, tol_nll=5e-4)
                except Exception as e:
                    ctx.notes.append('tight refit under %s/%s failed (%s): comparison skipped' % (be, opt, core.exc_enum(e)))
                    bad = []
            if bad:
                fails.append(dict(signature='config-dependence:' + key, what='inference differs between numpy/scipy and %s/%s: %s' % (be, opt, '; '.join(bad)[:300]),
                                  replay=dict(workspace=ws, rewritten=ws, mu_test=mu_test, observed=other, expected=dict(relation='equal', original=base), backend=be, optimizer=opt)))
    ctx.log('backend/optimiser agreement done: %r' % stats['configs'])
    # the two optimisers, each asked for a tight tolerance through its constructor (the only way to configure the fits behind hypotest /
    # upper_limit), must agree far better than at their default tolerances: twice_nll minimum to 2e-6 absolute, CLs to 2e-5 relative.
    # A single model may hit an optimiser hiccup (C05's known findings): reported only when most models disagree.
    tight_bad, tight_n = [], 0
    for k, (ws, mu_test) in enumerate(agree_models[: ctx.n(3, 8)]):
        try:
            a, b = infer(ws, mu_test, 'numpy', 'scipy', tight=True), infer(ws, mu_test, 'numpy', 'minuit', tight=True)
        except Exception as e:
            ctx.notes.append('tight scipy/minuit comparison skipped (%s)' % core.exc_enum(e))
            continue
        tight_n += 1
        evaluations += 1
        d_nll = abs(a['twice_nll'] - b['twice_nll'])
        d_cls = abs(a['CLs_obs'] - b['CLs_obs']) / max(abs(a['CLs_obs']), 1e-300) if 'CLs_obs' in a and 'CLs_obs' in b else 0.0
        if d_nll > 2e-6 or d_cls > 2e-5:
            tight_bad.append(dict(workspace=ws, mu_test=mu_test, scipy=a, minuit=b, d_twice_nll=d_nll, d_cls_rel=d_cls))
    stats['tight_optimiser_pairs'] = tight_n
    if tight_n >= 2 and len(tight_bad) * 2 > tight_n:
        w0 = min(tight_bad, key=lambda t: len(json.dumps(t['workspace'])))
        fails.append(dict(signature='optimisers-disagree-at-tight-tolerance',
                          what='scipy_optimizer(tolerance=1e-12) and minuit_optimizer(tolerance=1e-4) disagree on %d of %d models: e.g. twice_nll %r vs %r, CLs %r vs %r'
                               % (len(tight_bad), tight_n, w0['scipy']['twice_nll'], w0['minuit']['twice_nll'], w0['scipy'].get('CLs_obs'), w0['minuit'].get('CLs_obs')),
                          replay=dict(workspace=w0['workspace'], rewritten=w0['workspace'], mu_test=w0['mu_test'], observed=w0['minuit'],
                                      expected=dict(relation='equal', original=w0['scipy']), backend='numpy', optimizer='minuit(tight) vs scipy(tight)')))
    ctx.log('tight optimiser agreement: %d pairs, %d beyond 2e-6 / 2e-5' % (tight_n, len(tight_bad)))
    for fu in plan_futures:
        r = fu.result()
        if not r['names']:
            continue
        evaluations += 1
        stats['rewrites'][r['label']] = stats['rewrites'].get(r['label'], 0) + 1
        for ft in r['features']:
            stats['features'][ft] = stats['features'].get(ft, 0) + 1
        stats['limits'] += r['limit']
        stats['retries'] += r['retry']
        stats['slowest_s'] = max(stats['slowest_s'], r.get('wall', 0.0))
        sigs.add(r['sig'])
        if r['fail']:
            fails.append(r['fail'])
    pool.shutdown()
    ctx.log('%d models, %d rewritten models compared' % (stats['models'], len(sigs)))
    pyhf.set_backend('numpy', 'scipy')
    report(ctx, fails)
    if tie and not ctx.violations:
        ctx.violation('tie-broken', tie[:300], dict(kind='tie', detail=tie, theorem='props/C15.v'), nofail=True)
    ctx.trusted += ['numerical optimisers (SLSQP/MIGRAD) agree only within fit tolerance: invariance of the NUMERICAL results is validated, '
                    'the theorems are about the likelihood (Ref level)']
    ctx.coverage.update(evaluations=evaluations, distinct_nontrivial=len(sigs), stats=stats,
                        rule='generated sensitive workspaces (median expected CLs < 0.9; deficit / no signal / excess in the data; modifiers of every type; '
                             'backgrounds with identical modifier lists, all-zero MC-stat uncertainties, empty bins keeping an uncertainty; parameters fixed in '
                             'the measurement; POI ranges other than the default). Each rewrite of the catalogue alone (reorder, order-changing rename, zero '
                             'sample with or without modifiers, null systematic of each constrained type, channel cut at any set of bin positions, samples '
                             'merged or split 2-3 ways with different yields/uncertainties, signal rescaling with k also chosen to push the best fit out of the '
                             'default POI range, fit configuration moved to caller arguments init_pars/par_bounds/fixed_params) and compositions. Observables: '
                             'maximised twice_nll (up to the constant of added constraint terms), fitted POI, q/qtilde and q0 on observed and Asimov data, CLs, '
                             'CLs+b, CLb observed, five expected CLs, grid upper limits (observed and expected); covariant transformation under signal rescaling; '
                             'one more backend/optimiser configuration per model in quick, all in thorough (where the rewrites also run under four '
                             'backend x optimiser pairs); a mismatch is confirmed with tightly converged scipy and minuit fits before it is reported',
                        samples=[dict(rewrites=[n for n, _ in REWRITES], tolerances='CLs 3e-4 abs + 0.2% rel, twice_nll 2e-4 rel, test statistics 5e-4, limits 2%')])


def replay(body):
    if body.get('kind') == 'tie':
        print(body.get('detail'))
        return 0
    logging.getLogger('pyhf').setLevel(logging.CRITICAL)
    eff = dict(new_eff(), **body.get('eff', {}))
    be, opt = body.get('backend', 'numpy'), body.get('optimizer', 'scipy')
    if 'rewritten' not in body or body.get('signature', '').startswith('config-dependence'):
        base = infer(body['workspace'], body['mu_test'])
        new = infer(body['workspace'], body['mu_test'], backend=be, optimizer=opt)
    else:
        base = infer(body['workspace'], body['mu_test'], be, opt, limit=True)
        try:
            new = infer(body['rewritten'], body['mu_test'] * eff['mu_scale'], be, opt, limit=True, args=eff.get('args'))
        except Exception as e:
            print(json.dumps(dict(original=base, rewritten_raises='%s: %s' % (core.exc_enum(e), str(e)[:300])), indent=1))
            return 0
    print(json.dumps(dict(original=base, rewritten=new, eff=eff, expected='rewritten = original up to eff (POI values x mu_scale, twice_nll + nll_shift)',
                          mismatch=compare(base, new, eff, check_limit=True)), indent=1))
    return 0
