"""Fourth layer of the fail-closed symbolic translator (python `ast` -> Gallina), on top of harness/props/tie_translate.py (which is not
changed): the constructs of pyhf/writexml.py, pyhf/readxml.py and pyhf/compat.py (C18).  Class Exec5 adds to Exec3:

  * text: an f-string whose fields are texts without conversion / format specification is the concatenation (`+s+`); one with a format
    specification (f"{x:g}") has no value (Ext('fstring')) - using it as a value is refused; `sep.join(l)` is `join sep l`;
    `s.startswith('lit')` is `starts_with "lit" s`; the truth value of a text is `nonempty s`, of a list `lnonempty l`;
    `filter(f, l)` is `filter (fun x => <truth of f x>) l`; `next((x for x in l if c), None)` is `find_first (fun x => c) l` (an option);
  * records built by constructor application with explicit parameters (`rec_ctor`), so that the records of a model that is generic in
    the number type can be built and read (`m_name N x`);
  * keys that a document may lack (`opt_keys`): d.get(k, x) is `match proj d with Some y => y | None => x end`; d[k] fails when the key is
    absent (`match proj d with None => Err .. | Some y => ..`), the error constructor being given per key by the property module;
  * python failures that are not `raise` statements: l[0] on an empty list (`match l with [] => Err .. | x :: _ => ..`), `a / b` on python
    numbers with b = 0 (`if neqb b 0 then Err .. else ..`); the error constructors are named by the property module (`implicit_err`);
  * python dicts with literal keys that are not documents of the model (XML attribute dicts): d[k] = v, del d[k], d.get(k, x), **d;
  * `str(x)` / `float(x)` on a number or text of the model: the value itself (the XML text layer is outside the model);
  * values of a sum type of the model (`split_types`): the first statement that looks at the tag / at the fields of such a value is executed
    once per constructor (`match x with C1 a b => .. | C2 .. => .. end`), the value being a python-side object of known shape in each case;
  * a two-element list display of numbers where the model has a pair (bounds) is the pair.
Nothing here changes the meaning of a construct of the first three layers; what they refuse and this layer does not accept is still refused."""
import ast

from harness.props import tie_translate as tt

TB = tt.TB
STR, NAT, BOOL, NUM = tt.STR, tt.NAT, tt.BOOL, tt.NUM
T, S, Lst, Tup, Dct, Ext, Rec, Method, mk = tt.T, tt.S, tt.Lst, tt.Tup, tt.Dct, tt.Ext, tt.Rec, tt.Method, tt.mk

PRELUDE5 = '''(* helpers of the translator (harness/props/tie_translate_x5.py): the reading of python constructs.  `res`, `err` are those of PV.Xml *)
Notation Ok := (@inl _ _) (only parsing).
Notation Err := (@inr _ _) (only parsing).
Fixpoint foldM {X S : Type} (f : S -> X -> res S) (l : list X) (s : S) : res S :=          (* `for x in l:` whose body may raise *)
  match l with [] => Ok s | x :: r => match f s x with Ok s' => foldM f r s' | Err e => Err e end end.
Fixpoint find_first {X} (p : X -> bool) (l : list X) : option X :=       (* first iteration of a `for` whose `if` fires; next((x for x in l if p), None) *)
  match l with [] => None | a :: t => if p a then Some a else find_first p t end.
Definition lnonempty {A} (l : list A) : bool := match l with [] => false | _ => true end.            (* truth value of a list *)
Definition mem_str (s : string) (l : list string) : bool := existsb (String.eqb s) l.                (* s in l *)
Definition starts_with (p s : string) : bool := match strip_prefix p s with Some _ => true | None => false end.    (* s.startswith(p) *)
'''


class NeedSplit(Exception):
    """raised by an access that needs to know the constructor of a value of a sum type"""

    def __init__(self, val):
        Exception.__init__(self, 'case split')
        self.val = val


class Cont:
    """outcome of a path of a loop body that ends in `continue`: the iteration ends there with the state st"""

    def __init__(self, st):
        self.st = st


class PyElem:
    """python-side object with a tag, an attribute dict (Dct), a text and children: an XML element that has no Coq term of its own"""

    def __init__(self, tag, attrib, text=None, children=None):
        self.tag, self.attrib, self.text, self.children = tag, attrib, text, list(children or [])

    def __repr__(self):
        return 'PyElem(%s)' % (self.tag,)


class Exec5(tt.Exec3):
    rec_ctor = {}            # record type -> constructor applied to its parameters ('@mkMod N'); rec_order lists the projections ('m_name N')
    opt_keys = {}            # record type -> {key: error constructor of d[key] on a document without the key}
    implicit_err = {}        # 'index' / 'zerodiv' -> error constructor
    split_types = {}         # type name -> (scrutinee format, [(constructor pattern with %s for fresh variables, [variable bases], builder(vars) -> value)])
    log_calls = ()           # names of functions whose call writes to the implicit log (state st.attrs[LOG])
    LOG = '\x00log'

    # ---- terms ------------------------------------------------------------------------------------------------------------------------------
    def rec_term(self, r):
        if r.rtype not in self.rec_ctor:
            return super().rec_term(r)
        sch = {p: ty for p, ty in self.flat_schema(self.records[r.rtype]).values()}
        parts = []
        for p in self.rec_order[r.rtype]:
            if p in r.fields:
                v = self.as_typed(r.fields[p], sch[p]) if p in sch else self.as_term(r.fields[p])
                parts.append(v.s)
            else:
                if r.base is None:
                    raise TB('field %s of a %s is not given' % (p, r.rtype))
                parts.append('(%s %s)' % (p, r.base.s))
        return mk('(%s %s)' % (self.rec_ctor[r.rtype], ' '.join(parts)), r.rtype, r.fresh)

    def dict_display_term(self, d):
        """hook: the Coq term of a python dict display that is a document of the model (None: not one)"""
        return None

    def as_term(self, v):
        if isinstance(v, Dct):
            t = self.dict_display_term(v)
            if t is not None:
                return t
        if isinstance(v, S) and v.v is None:
            raise TB('None has no Coq term of its own')
        return super().as_term(v)

    def as_typed(self, v, ty):
        if isinstance(v, S) and v.v is None and isinstance(ty, tuple) and ty[0] == 'option':
            return mk('None', ty, 2)
        if ty == tt.PROD(NUM, NUM) and isinstance(v, (Lst, Tup)) and len(v.items) == 2:
            return mk('(%s, %s)' % (self.num(v.items[0]), self.num(v.items[1])), ty, 2)
        if isinstance(ty, tuple) and ty[0] == 'list' and isinstance(v, Lst) and v.items:
            ts = [self.as_typed(x, ty[1]) for x in v.items]
            return mk('[' + '; '.join(t.s for t in ts) + ']', ty, 1)
        if ty == NUM and tt.is_static_num(v):
            return mk(tt.numlit(v.v), NUM, 2)
        if isinstance(ty, tuple) and ty[0] == 'option' and not (isinstance(v, T) and isinstance(v.ty, tuple) and v.ty[0] == 'option'):
            t = self.as_typed(v, ty[1])              # a value where the model has an optional one
            return mk('(Some %s)' % t.s, ty, tt.fresh_of(t))
        return super().as_typed(v, ty)

    def fmt_value(self, x):
        """hook: the text of a non-text value in an f-string field without format specification (None: no reading)"""
        return None

    def strcat(self, parts):
        parts = [p for p in parts if not (isinstance(p, S) and p.v == '')]
        if not parts:
            return S('')
        if all(isinstance(p, S) for p in parts):
            return S(''.join(p.v for p in parts))
        if len(parts) == 1:
            return parts[0]
        return mk('(' + ' +s+ '.join(self.strterm(p) for p in parts) + ')', STR, 2)

    # ---- expressions --------------------------------------------------------------------------------------------------------------------------
    def expr(self, e, st):
        d = tt.dump(e)
        for pd, val in self.patterns:
            if pd == d:
                return val(st) if callable(val) else val
        if isinstance(e, ast.JoinedStr):
            parts = []
            for v in e.values:
                if isinstance(v, ast.Constant) and isinstance(v.value, str):
                    parts.append(S(v.value))
                elif isinstance(v, ast.FormattedValue) and v.conversion == -1 and v.format_spec is None:
                    try:
                        x = self.expr(v.value, st)
                    except NeedSplit:
                        raise
                    except TB:
                        return Ext('fstring')
                    if not self.is_str(x):
                        x = self.fmt_value(x)
                        if x is None:
                            return Ext('fstring')
                    parts.append(x)
                else:
                    return Ext('fstring')           # a conversion / format specification: the text layer, no value in the model
            return self.strcat(parts)
        if isinstance(e, ast.BoolOp) and all(isinstance(v, (ast.Name, ast.Constant)) for v in e.values):
            vals = [self.expr(v, st) for v in e.values]
            if all(isinstance(v, S) for v in vals):                # python's value of `a or b` / `a and b` on constants
                out = vals[0]
                for v in vals[1:]:
                    if isinstance(e.op, ast.Or):
                        out = out if self.truth(out) else v
                    else:
                        out = v if self.truth(out) else out
                return out
        if isinstance(e, ast.Attribute) and not (isinstance(e.value, ast.Name) and e.value.id == 'self' and 'self' not in st.env):
            base = self.expr(e.value, st)
            r = self.attr5(base, e.attr, e, st)
            if r is not None:
                return r
            if self.is_str(base):
                return Method(base, e.attr)
            if isinstance(base, (T, tt.View, Rec, Lst, Dct)) and not self.is_obj(base):
                return Method(base, e.attr)
            return self.attr_ext(base, e.attr, e, st)
        return super().expr(e, st)

    def attr5(self, base, attr, node, st):
        """hook: attributes of the values of this layer (None: not one)"""
        if isinstance(base, PyElem):
            if attr == 'tag':
                return base.tag
            if attr == 'attrib':
                return base.attrib
            if attr == 'text':
                if base.text is None:
                    return S(None)
                return base.text
            return Method(base, attr)
        if isinstance(base, T) and base.ty in self.split_types:
            raise NeedSplit(base)
        return None

    def subscript(self, base, idx, node):
        if isinstance(base, T) and base.ty in self.split_types and not (isinstance(idx, S) and isinstance(idx.v, str) and idx.v in self.records.get(base.ty, {})):
            raise NeedSplit(base)
        if isinstance(idx, S) and isinstance(idx.v, str) and isinstance(base, T) and base.ty in self.opt_keys and idx.v in self.opt_keys[base.ty]:
            e = self.records[base.ty][idx.v]
            var = self.fresh_var(idx.v)
            self.pending.append(('(%s %s)' % (e[0], base.s), var, '@' + self.opt_keys[base.ty][idx.v]))
            out = mk(var, e[1][1], tt.fresh_of(base))
            out.from_key = idx.v
            return out
        if isinstance(idx, S) and isinstance(idx.v, int) and not isinstance(idx.v, bool) and idx.v == 0 and tt.is_seq(base) and base.ty[0] == 'list' \
                and 'index' in self.implicit_err:
            var = self.fresh_var('h')
            err = self.implicit_err.get(('index', getattr(base, 'from_key', None)), self.implicit_err['index'])
            self.pending.append(('tpl', '(match %s with [] => (Err %s) | %s :: _ => @@0@@ end)' % (base.s, err, var)))
            return mk(var, base.ty[1], tt.fresh_of(base))
        if isinstance(base, Dct) and isinstance(idx, S) and isinstance(idx.v, str) and idx.v not in base.items:
            raise TB('key %r is not in the dict (line %d)' % (idx.v, node.lineno))
        return super().subscript(base, idx, node)

    def binop(self, op, a, b, node):
        if op == 'Div' and 'zerodiv' in self.implicit_err and isinstance(b, T) and b.ty == NUM:
            x, y = self.num(a, node), b.s
            self.pending.append(('tpl', '(if neqb N %s (n0 N) then (Err %s) else @@0@@)' % (y, self.implicit_err['zerodiv'])))
            return T('(ndiv N %s %s)' % (x, y), NUM)
        return super().binop(op, a, b, node)

    def test(self, e, st):
        if isinstance(e, (ast.Compare, ast.BoolOp)) or (isinstance(e, ast.UnaryOp) and isinstance(e.op, ast.Not)):
            if isinstance(e, ast.BoolOp):
                vals = [self.test(v, st) for v in e.values]
                return self.boolop(type(e.op).__name__, vals, e)
            if isinstance(e, ast.UnaryOp):
                return self.not_(self.test(e.operand, st))
            return super().test(e, st)
        v = self.expr(e, st)
        return self.truth_of(v, e)

    def truth_of(self, v, node):
        if isinstance(v, T) and v.ty == STR:
            if getattr(v, 'nonempty', False):
                return S(True)
            return T('(nonempty %s)' % v.s, BOOL)
        if tt.is_seq(v) or (isinstance(v, T) and isinstance(v.ty, tuple) and v.ty[0] == 'dict'):
            return T('(lnonempty %s)' % v.s, BOOL)
        if isinstance(v, (Lst, Dct, Tup)):
            return S(bool(v.items))
        if isinstance(v, PyElem):
            return S(True)
        if isinstance(v, (S, tt.IsNone)) or (isinstance(v, T) and v.ty == BOOL) or isinstance(v, tt.Vec):
            return v
        if isinstance(v, T) and isinstance(v.ty, tuple) and v.ty[0] == 'option' and v.ty[1] not in (STR,) and not tt.is_seq(mk('', v.ty[1])):
            return tt.IsNone(v, getattr(v, 'key', None), neg=True)         # truth of an optional object: `is not None`
        raise TB('test on %r (line %d)' % (v, getattr(node, 'lineno', 0)))

    def compare1(self, op, a, b, node):
        opn = type(op).__name__
        if opn in ('Is', 'IsNot') and isinstance(a, (PyElem, Dct, Rec)) and isinstance(b, S) and b.v is None:
            return S(opn == 'IsNot')
        if opn in ('Eq', 'NotEq'):
            for x, y in ((a, b), (b, a)):
                if isinstance(x, T) and x.ty == STR and getattr(x, 'nonempty', False) and isinstance(y, S) and y.v == '':
                    return S(opn == 'NotEq')
        return super().compare1(op, a, b, node)

    # ---- calls --------------------------------------------------------------------------------------------------------------------------------
    def call_builtin(self, f, args, kwargs, e, st):
        tag = f.tag
        if tag in ('str', 'float') and len(args) == 1 and not kwargs:
            x = args[0]
            if isinstance(x, T) and x.ty in (NUM, STR):
                return x
            if tag == 'str' and isinstance(x, S) and isinstance(x.v, bool):
                return S(str(x.v))
            if tt.is_static_num(x):
                return x
            if tag == 'str' and isinstance(x, S) and isinstance(x.v, str):
                return x
            if isinstance(x, Ext):
                return Ext('text-of', x)
            raise TB('%s(%r) (line %d)' % (tag, x, e.lineno))
        if tag == 'any' and len(args) == 1 and not kwargs and isinstance(args[0], T) and args[0].ty == tt.LIST(BOOL):
            return T('(existsb (fun b => b) %s)' % args[0].s, BOOL)
        if tag == 'filter' and len(args) == 2 and not kwargs and isinstance(args[0], tt.Fun) and len(args[0].params) == 1:
            l = args[1]
            if isinstance(l, Lst):
                l = self.as_term(l)
            if not tt.is_seq(l):
                raise TB('filter over %r (line %d)' % (l, e.lineno))
            var = self.fresh_var('f')
            c = self.truth_of(self.call_fun(args[0], [mk(var, l.ty[1], 0)], {}, st, e), e)
            if isinstance(c, S):
                raise TB('filter decided at translation time (line %d)' % e.lineno)
            return mk('(filter (fun %s => %s) %s)' % (var, self.boolterm(c), l.s), tt.LIST(l.ty[1]), 1)
        return super().call_builtin(f, args, kwargs, e, st)

    def call(self, e, st):
        # next((x for x in l if c), None)
        if isinstance(e.func, ast.Name) and e.func.id == 'next' and 'next' not in st.env and len(e.args) == 2 and not e.keywords \
                and isinstance(e.args[0], ast.GeneratorExp) and isinstance(e.args[1], ast.Constant) and e.args[1].value is None:
            g = e.args[0]
            if len(g.generators) != 1 or g.generators[0].is_async or not isinstance(g.generators[0].target, ast.Name) or not isinstance(g.elt, ast.Name) \
                    or g.elt.id != g.generators[0].target.id or len(g.generators[0].ifs) != 1:
                raise TB('next(..) shape (line %d)' % e.lineno)
            it = self.iter_term(self.expr(g.generators[0].iter, st), e)
            var = 'x_' + g.elt.id
            st2 = st.copy()
            st2.env[g.elt.id] = mk(var, it.ty[1], 0)
            c = self.test(g.generators[0].ifs[0], st2)
            if isinstance(c, (S, tt.IsNone, tt.Vec)):
                raise TB('next(..): test (line %d)' % e.lineno)
            return mk('(find_first (fun %s => %s) %s)' % (var, self.boolterm(c), it.s), tt.OPTION(it.ty[1]), 0)
        return super().call(e, st)

    def method(self, base, name, args, kwargs, node, st):
        if isinstance(base, Dct) and name == 'get' and 1 <= len(args) <= 2 and not kwargs and isinstance(args[0], S) and isinstance(args[0].v, str):
            if args[0].v in base.items:
                return base.items[args[0].v]
            return args[1] if len(args) == 2 else S(None)
        if isinstance(base, Dct) and name == 'get' and len(args) == 2 and not kwargs and isinstance(args[0], T) and args[0].ty == STR \
                and all(self.is_str(v) for v in base.items.values()) and self.is_str(args[1]):
            # a table with literal keys looked up by a text of the model: the first key equal to it, in the order of the display
            out = self.strterm(args[1])
            for k, v in reversed(list(base.items.items())):
                out = '(if String.eqb %s %s then %s else %s)' % (args[0].s, tt.coq_string(k), self.strterm(v), out)
            return mk(out, STR, 2)
        if isinstance(base, T) and base.ty in self.opt_keys and name == 'get' and len(args) == 2 and not kwargs and isinstance(args[0], S) \
                and args[0].v in self.opt_keys[base.ty]:
            e = self.records[base.ty][args[0].v]
            inner = e[1][1]
            d = self.as_typed(args[1], inner)
            out = mk('(match %s %s with Some y => y | None => %s end)' % (e[0], base.s, d.s), inner, 0)
            out.from_key = args[0].v
            return out
        if isinstance(base, S) and isinstance(base.v, str) and name in ('strip', 'lower', 'upper') and all(isinstance(a, S) and isinstance(a.v, str) for a in args) and not kwargs:
            return S(getattr(base.v, name)(*[a.v for a in args]))
        if self.is_str(base):
            if name == 'join' and len(args) == 1 and not kwargs and isinstance(base, S):
                l = args[0]
                if isinstance(l, Lst) and l.items:
                    l = self.list_term(l)
                if tt.is_seq(l) and l.ty[1] == STR:
                    out = mk('(join %s %s)' % (tt.coq_string(base.v), l.s), STR, 2)
                    out.joined = (base.v, l)
                    return out
                raise TB('%r.join(%r) (line %d)' % (base.v, l, node.lineno))
            if name == 'startswith' and len(args) == 1 and not kwargs and isinstance(args[0], S) and isinstance(args[0].v, str):
                if isinstance(base, S):
                    return S(base.v.startswith(args[0].v))
                return T('(starts_with %s %s)' % (tt.coq_string(args[0].v), base.s), BOOL)
        return super().method(base, name, args, kwargs, node, st)

    # ---- statements ---------------------------------------------------------------------------------------------------------------------------
    def assign(self, target, val, st, node):
        if isinstance(target, ast.Subscript) and isinstance(target.value, ast.Name) and isinstance(st.env.get(target.value.id), Dct):
            d = st.env[target.value.id]
            k = self.expr(target.slice, st)
            if isinstance(k, S) and isinstance(k.v, str) and not self.is_model_dict(d):
                new = Dct(d.items)
                new.items[k.v] = val
                st.env[target.value.id] = new
                return
        if isinstance(target, ast.Attribute) and isinstance(target.value, ast.Name) and isinstance(st.env.get(target.value.id), PyElem) and target.attr == 'text':
            old = st.env[target.value.id]
            st.env[target.value.id] = PyElem(old.tag, old.attrib, val, old.children)
            return
        if isinstance(target, ast.Name) and isinstance(val, PyElem):
            st.env[target.id] = val
            return
        if isinstance(target, ast.Name) and isinstance(val, Dct) and self.is_model_dict(val):
            val = self.as_term(val)                  # a dict display that is a document of the model: its term from here on
        super().assign(target, val, st, node)

    def is_model_dict(self, d):
        """hook: a dict display that is a document of the model (item assignment goes through the record machinery)"""
        return False

    def mutated_roots(self, body):
        out = super().mutated_roots(body)
        if self.log_calls and any(isinstance(n, ast.Call) and isinstance(n.func, ast.Name) and n.func.id in self.log_calls for s in body for n in ast.walk(s)):
            if ('attr', self.LOG) not in out:
                out.append(('attr', self.LOG))
        return out

    def split(self, val, s, st, rest):
        fmt, cases = self.split_types[val.ty]
        names = [k for k, v in st.env.items() if v is val]
        anames = [k for k, v in st.attrs.items() if v is val]
        if not names and not anames:
            raise TB('a value of the sum type %s is looked at without being bound to a name (line %d)' % (val.ty, s.lineno))
        outs, pats = [], []
        for pat, bases, build in cases:
            vs = [self.fresh_var(b) for b in bases]
            st2 = st.copy()
            obj = build(self, vs, val)
            for k in names:
                st2.env[k] = obj
            for k in anames:
                st2.attrs[k] = obj
            pats.append(pat % tuple(vs))
            outs.append(self.block([s] + list(rest), st2))
        tpl = '(match %s with %s end)' % (fmt % val.s, ' | '.join('%s => @@%d@@' % (p, i) for i, p in enumerate(pats)))
        del rest[:]
        return tt.Br2(tpl, outs)

    def stmt(self, s, st, rest):
        if isinstance(s, ast.Delete):
            for t in s.targets:
                if isinstance(t, ast.Subscript) and isinstance(t.value, ast.Name) and isinstance(st.env.get(t.value.id), Dct):
                    k = self.expr(t.slice, st)
                    d = st.env[t.value.id]
                    if isinstance(k, S) and isinstance(k.v, str) and k.v in d.items and not self.is_model_dict(d):
                        new = Dct(d.items)
                        del new.items[k.v]
                        st.env[t.value.id] = new
                        continue
                raise TB('del statement (line %d)' % s.lineno)
            return None
        if self.skip_stmt(s, st):
            return None
        if isinstance(s, ast.Continue):
            if not getattr(self, 'in_loop', 0):
                raise TB('continue outside a loop the translator follows (line %d)' % s.lineno)
            return Cont(st)
        saved_env, saved_attrs, saved_warns, saved_rest, nv = dict(st.env), dict(st.attrs), list(st.warns), list(rest), self.nvar
        try:
            if isinstance(s, ast.If) and isinstance(s.test, ast.BoolOp) and len(s.test.values) >= 2:
                # `a or b` / `a and b` with a known at translation time: python does not evaluate b when a decides
                sp, self.pending = self.pending, []
                first = self.test(s.test.values[0], st)
                had, self.pending = bool(self.pending), sp
                if isinstance(first, S) and not had:
                    t, is_or = self.truth(first), isinstance(s.test.op, ast.Or)
                    if t == is_or:
                        rest[:0] = list(s.body if t else s.orelse)
                        return None
                    vals = s.test.values[1:]
                    n = ast.If(test=vals[0] if len(vals) == 1 else ast.BoolOp(op=s.test.op, values=vals), body=s.body, orelse=s.orelse)
                    ast.copy_location(n, s)
                    if len(vals) > 1:
                        ast.copy_location(n.test, s)
                    rest.insert(0, n)
                    return None
                if isinstance(first, tt.IsNone) and not had:
                    # a test on an optional value first: the other operands are evaluated where python evaluates them (the value being there or not)
                    vals = s.test.values[1:]
                    inner = ast.If(test=vals[0] if len(vals) == 1 else ast.BoolOp(op=s.test.op, values=vals), body=s.body, orelse=s.orelse)
                    if isinstance(s.test.op, ast.Or):
                        outer = ast.If(test=s.test.values[0], body=s.body, orelse=[inner])
                    else:
                        outer = ast.If(test=s.test.values[0], body=[inner], orelse=s.orelse)
                    for n in (inner, outer):
                        ast.copy_location(n, s)
                    if len(vals) > 1:
                        ast.copy_location(inner.test, s)
                    rest.insert(0, outer)
                    self.nvar = nv
                    return None
                self.nvar = nv
            if isinstance(s, ast.If) and not (isinstance(s.test, ast.BoolOp) and isinstance(s.test.op, ast.Or)):
                # `if x is None` / `if not x` on an optional value: as the second layer, with a variable of its own for the value (a name that is
                # assigned twice would otherwise give two nested binders of one name)
                sp, self.pending = self.pending, []
                c = self.test(s.test, st)
                had, self.pending = bool(self.pending), sp
                if isinstance(c, tt.IsNone) and not had:
                    st_none, st_some = st.copy(), st.copy()
                    var = self.fresh_var('some')
                    if c.key is not None:
                        kind, k = c.key
                        var = self.fresh_var(k)
                        inner = mk(var, c.term.ty[1], tt.fresh_of(c.term))
                        if kind == 'attr':
                            st_some.attrs[k], st_none.attrs[k] = inner, S(None)
                        else:
                            st_some.env[k], st_none.env[k] = inner, S(None)
                    b_none, b_some = (s.body, s.orelse) if not c.neg else (s.orelse, s.body)
                    o_none = self.cont(self.block(b_none, st_none), rest)
                    o_some = self.cont(self.block(b_some, st_some), rest)
                    return tt.Branch('opt', c.term.s, (o_none, o_some), var)
                self.nvar = nv
            return super().stmt(s, st, rest)
        except NeedSplit as ns:
            st.env, st.attrs, st.warns = saved_env, saved_attrs, saved_warns
            rest[:] = saved_rest
            self.pending = []
            return self.split(ns.val, s, st, rest)

    def fold_loop(self, s, st, rest, roots, tnames):
        self.in_loop = getattr(self, 'in_loop', 0) + 1
        try:
            return super().fold_loop(s, st, rest, roots, tnames)
        finally:
            self.in_loop -= 1

    def is_log_call(self, b):
        return isinstance(b, ast.Expr) and isinstance(b.value, ast.Call) and isinstance(b.value.func, ast.Attribute) \
            and isinstance(b.value.func.value, ast.Name) and b.value.func.value.id == 'log' and b.value.func.attr in ('warning', 'info', 'debug')

    def for_stmt(self, s, st, rest):
        if not s.orelse and s.body and all(self.is_log_call(b) for b in s.body) and 'log' not in st.env:
            return None                                        # a loop that only logs
        if isinstance(s.target, ast.Name) and not s.orelse and not getattr(s, 'hoisted5', False):
            saved, nv = self.pending, self.nvar
            self.pending = []
            try:
                itv = self.expr(s.iter, st)
                had = bool(self.pending)
            finally:
                self.pending, self.nvar = saved, nv
            if isinstance(itv, Lst) and len(itv.items) == 1 and isinstance(itv.items[0], PyElem) and not had:
                if any(isinstance(n, (ast.Break, ast.Continue)) for b in s.body for n in ast.walk(b)):
                    raise TB('break / continue in a loop (line %d)' % s.lineno)
                st.env[s.target.id] = itv.items[0]               # a python-side list of one element: the body once
                rest[:0] = list(s.body)
                return None
        # a sequence whose evaluation can fail (l[0]['k']) is evaluated before the loop: `tmp = <sequence>; for x in tmp:`
        if not getattr(s, 'hoisted5', False):
            saved, nv = self.pending, self.nvar
            self.pending = []
            try:
                self.expr(s.iter, st)
                had = bool(self.pending)
            finally:
                self.pending, self.nvar = saved, nv
            if had:
                name = '\x00iter%d' % s.lineno
                a = ast.Assign(targets=[ast.Name(id=name, ctx=ast.Store())], value=s.iter)
                f = ast.For(target=s.target, iter=ast.Name(id=name, ctx=ast.Load()), body=s.body, orelse=s.orelse)
                for n in (a, f, a.targets[0], f.iter):
                    ast.copy_location(n, s)
                f.hoisted5 = True
                rest[:0] = [a, f]
                return None
        return super().for_stmt(s, st, rest)

    def expr_stmt(self, e, st):
        # logging is not an observable of the models of this layer
        if isinstance(e, ast.Call) and isinstance(e.func, ast.Attribute) and isinstance(e.func.value, ast.Name) and e.func.value.id == 'log' \
                and e.func.attr in ('warning', 'info', 'debug') and 'log' not in st.env and isinstance(self.global_name('log', st), Ext):
            return
        super().expr_stmt(e, st)

    # ---- rendering ------------------------------------------------------------------------------------------------------------------------------
    def render5(self, o, ty, with_log=False, always_res=True, fall=None):
        """(Coq term, raises): every leaf is `Ok value` / `Ok (value, log)` / `Err e` (plain value when nothing raises and not always_res)"""
        r = self.raises(o) or always_res

        def leaf(l):
            if isinstance(l, tt.Exc):
                return '(Err %s)' % self.exc_term(l.name)
            if isinstance(l, tt.Fall):
                if fall is None:
                    raise TB('a path ends without a return')
                v = fall(l.st)
            else:
                v = l.val
            t = self.as_typed(v, ty).s if ty is not None else self.as_term(v).s
            if with_log:
                t = '(%s, %s)' % (t, l.st.attrs[self.LOG].s)
            return '(Ok %s)' % t if r else t
        return tt.render2(o, leaf), r
