"""C07 - asymptotic p-values follow the formulae of arXiv:1007.1727.

Model: coq/Asympt.v (transcription of AsymptoticTestStatDistribution and of the asymptotic part of
AsymptoticCalculator), run at the rational instance through coq/AsymptRun.v.  The harness makes chosen
(q, qA) reach the calculator by replacing the *test-statistic function* it looks up (no repo hook) and wraps
the backend's normal_cdf (class level) to record the arguments it is called with.
Pass 1 evaluates the model with Phi := identity, which yields the exact arguments the cdf must be called
with; pass 2 evaluates it with Phi := the finite table {argument -> backend's own cdf at that argument} and
the results are compared with what pyhf returned."""
import json
import math
import os
from fractions import Fraction

from harness import core, facts

KINDS = ['q', 'qtilde', 'q0']
BASES = ['normal', 'clipped_normal']
KCOQ = {'q': 'KQ', 'qtilde': 'KQtilde', 'q0': 'KQ0'}
BCOQ = {'normal': 'BNormal', 'clipped_normal': 'BClipped'}
NS = [2, 1, 0, -1, -2]
TAIL_LIMIT = 37.0      # the property: "arguments below about 37 standard deviations"
RTOL = 1e-9

HEADER = '''From Coq Require Import ZArith QArith Qcanon List.
Require Import PV.Num PV.Run PV.Asympt PV.AsymptRun.
Import ListNotations.
Definition idq (x : Qc) := x.
Definition miss := mkq (-1) 1.
'''


# ---------------------------------------------------------------------------------------
# tie to the source: the formula/decision methods of pyhf/infer/calculators.py translated to coq/gen/AsymptGen.v on every run
GEN_PARAMS = '(N : Num) (Phi : V N -> V N) (sqrt : V N -> V N)'
GEN_ARGS = 'N Phi sqrt'
GEN_HEADER = ('From Coq Require Import ZArith Bool List.\nRequire Import PV.Num PV.Asympt.\nImport ListNotations.\nLocal Open Scope list_scope.\n'
              '(* GENERATED on every run by harness/props/c07.py:extract from $VERIF_REPO/src/pyhf/infer/calculators.py - do not edit.\n'
              '   Phi is tensorlib.normal_cdf, sqrt is tensorlib.sqrt; a distribution object is a `dist` (shift, cutoff; cutoff None =\n'
              '   float("-inf")); nan is None; self.test_stat / self.calc_base_dist are the enumerations tkind / basedist (the method is\n'
              '   translated once per value); RuntimeError / ValueError are ENeedTeststat / EUnknownBase. *)\n')
EXC_CON = {'RuntimeError': 'ENeedTeststat', 'ValueError': 'EUnknownBase'}
OTHER_BASE = '\0any other string'
ENVATTRS = ['data', 'pdf', 'init_pars', 'par_bounds', 'fixed_params']


def coqty(ty):
    from harness.props import tie_translate as tt
    if ty == tt.NUM:
        return 'V N'
    if ty == tt.OPTNUM:
        return 'option (V N)'
    if ty == 'dist':
        return 'dist N'
    if isinstance(ty, tuple) and ty[0] == 'list':
        return 'list (%s)' % coqty(ty[1])
    if isinstance(ty, tuple) and ty[0] == 'prod':
        return '(%s * %s)' % (coqty(ty[1]), coqty(ty[2]))
    raise tt.TB('no Coq type for %r' % (ty,))


def _tie_exec(dist_cls, calc_cls, selfattrs, facts_out):
    from harness import facts
    from harness.props import tie_translate as tt
    dist_init = facts.find_func(dist_cls, '__init__')
    OPT3 = tt.PROD(tt.OPTNUM, tt.OPTNUM, tt.OPTNUM)

    class X(tt.Exec):
        def global_name(self, name, st):
            if name in ('get_backend', 'float', 'utils', 'generate_asimov_data', 'HypoTestFitResults'):
                return tt.Ext(name)
            if name == dist_cls.name:
                return tt.Ext('ctor:dist')
            raise tt.TB('unknown name %s' % name)

        def self_attr(self, attr, node, st):
            if attr in selfattrs:
                return selfattrs[attr]
            if attr in ENVATTRS:
                return tt.Ext('self.' + attr)
            if attr == 'pvalues':
                return tt.Ext('selfmethod', attr)
            raise tt.TB('self.%s (line %d)' % (attr, node.lineno))

        def attr_ext(self, base, attr, node, st):
            if isinstance(base, tt.Ext) and base.tag == 'tensorlib':
                return tt.Ext('tensorlib.' + attr)
            if isinstance(base, tt.Ext) and base.tag == 'utils' and attr == 'get_test_stat':
                return tt.Ext('utils.get_test_stat')
            if isinstance(base, tt.T) and base.ty == 'dist' and attr in ('pvalue', 'expected_value', 'cdf'):
                return tt.Ext('distmethod', (base.s, attr))
            raise tt.TB('attribute .%s of %r (line %d)' % (attr, base, node.lineno))

        def env_forwarded(self, vals, what, node):
            if [getattr(v, 'tag', None) for v in vals] != ['self.' + a for a in ENVATTRS[1:]]:
                raise tt.TB('%s (line %d): (pdf, init_pars, par_bounds, fixed_params) of the calculator are not forwarded in order' % (what, node.lineno))

        def call_ext(self, f, args, kwargs, node, st):
            tag = f.tag
            if tag in ('tensorlib.normal_cdf', 'tensorlib.sqrt') and len(args) == 1 and not kwargs:
                return tt.T('(%s %s)' % ('Phi' if tag.endswith('cdf') else 'sqrt', self.num(args[0], node)), tt.NUM)
            if tag == 'ctor:dist':
                bound, params, extra = tt.bind_call(dist_init, args, kwargs, skip_self=True, what='constructor of the distribution')
                cut = bound.get('cutoff', tt.S(float('-inf')))
                if set(bound) - {'shift', 'cutoff'} or 'shift' not in bound:
                    raise tt.TB('constructor of the distribution (line %d): arguments' % node.lineno)
                if isinstance(cut, tt.S) and cut.v == float('-inf'):
                    cs = 'None'
                else:
                    cs = '(Some %s)' % self.num(cut, node)
                return tt.T('(mkDist %s %s)' % (self.num(bound['shift'], node), cs), 'dist')
            if tag == 'distmethod' and len(args) == 1 and not kwargs:
                d, m = f.data
                return tt.T('(gen_%s %s %s %s)' % (m, GEN_ARGS, d, self.num(args[0], node)), tt.OPTNUM if m == 'pvalue' else tt.NUM)
            if tag == 'selfmethod' and f.data == 'pvalues':
                bound, params, extra = tt.bind_call(facts.find_func(calc_cls, 'pvalues'), args, kwargs, skip_self=True, what='self.pvalues')
                if len(bound) != 3 or [getattr(bound[p], 'ty', None) for p in params] != [tt.NUM, 'dist', 'dist']:
                    raise tt.TB('self.pvalues (line %d): arguments' % node.lineno)
                return tt.T('(gen_pvalues %s %s)' % (GEN_ARGS, ' '.join(bound[p].s for p in params)), OPT3)
            if tag == 'utils.get_test_stat' and len(args) == 1 and not kwargs and args[0] is selfattrs.get('test_stat'):
                return tt.Ext('teststat_func')
            if tag == 'teststat_func':
                if (len(args) != 6 or list(kwargs) != ['return_fitted_pars'] or not (isinstance(kwargs['return_fitted_pars'], tt.S) and kwargs['return_fitted_pars'].v is True)
                        or getattr(args[0], 'tag', None) != 'poi_test'):
                    raise tt.TB('call of the test-statistic function (line %d): arguments' % node.lineno)
                self.env_forwarded(args[2:], 'call of the test-statistic function', node)
                which = {'self.data': 'qmu_v', 'asimov_data': 'qmuA_v'}.get(getattr(args[1], 'tag', None))
                if which is None:
                    raise tt.TB('call of the test-statistic function (line %d): data is neither self.data nor the Asimov data' % node.lineno)
                return tt.Tup([tt.T(which, tt.NUM), tt.Tup([tt.Ext('fitted'), tt.Ext('fitted')])])
            if tag == 'generate_asimov_data':
                if (len(args) != 6 or list(kwargs) != ['return_fitted_pars'] or not (isinstance(kwargs['return_fitted_pars'], tt.S) and kwargs['return_fitted_pars'].v is True)
                        or getattr(args[1], 'tag', None) != 'self.data' or not tt.is_static_num(args[0])):
                    raise tt.TB('call of generate_asimov_data (line %d): arguments' % node.lineno)
                self.env_forwarded(args[2:], 'call of generate_asimov_data', node)
                facts_out['asimov_mu'] = args[0].v
                return tt.Tup([tt.Ext('asimov_data'), tt.Ext('fitted')])
            if tag == 'HypoTestFitResults' and not args and all(getattr(v, 'tag', None) == 'fitted' for v in kwargs.values()):
                return tt.Ext('fitresults')
            raise tt.TB('call of %r (line %d)' % (f, node.lineno))
    return X()


def generate():
    """returns (Coq text of gen/AsymptGen.v, info).  Raises facts.TieBroken."""
    import ast
    from harness import facts
    from harness.props import tie_translate as tt
    rel = 'infer/calculators.py'
    tree, path = facts.parse(rel)
    dist_cls = facts.find_class(tree, 'AsymptoticTestStatDistribution')
    calc_cls = facts.find_class(tree, 'AsymptoticCalculator')
    dinit = tt.check_init_stores(dist_cls, ['shift', 'cutoff'])
    dd = tt.defaults_of(dinit)
    if list(dd) != ['cutoff'] or tt.dump(dd['cutoff']) != tt.pattern('float("-inf")'):
        raise tt.TB('AsymptoticTestStatDistribution.__init__: the default of cutoff is not float("-inf")')
    cinit = tt.check_init_stores(calc_cls, ['test_stat', 'calc_base_dist'])
    inits = [n for n in ast.walk(cinit) if isinstance(n, ast.Assign) and any(isinstance(t, ast.Attribute) and isinstance(t.value, ast.Name) and t.value.id == 'self' and t.attr == 'sqrtqmuA_v' for t in n.targets)]
    if len(inits) != 1 or not (isinstance(inits[0].value, ast.Constant) and inits[0].value.value is None):
        raise tt.TB('AsymptoticCalculator.__init__ does not initialise self.sqrtqmuA_v to None exactly once')
    text = GEN_HEADER
    info = {}
    NUM, OPTNUM = tt.NUM, tt.OPTNUM

    def method(cls, name, params):
        fn = facts.find_func(cls, name)
        if [a.arg for a in fn.args.args] != ['self'] + params or fn.args.vararg or fn.args.kwarg or fn.args.kwonlyargs or fn.args.defaults:
            raise tt.TB('%s.%s: parameters are not (self, %s)' % (cls.name, name, ', '.join(params)))
        return fn

    def emit(fn, gname, params, rty, body):
        nonlocal text
        text += '\n' + tt.source_comment(rel, fn, path)
        text += 'Definition %s %s %s : %s :=\n  %s.\n' % (gname, GEN_PARAMS, params, rty, body)
        info[gname] = len(body)

    # ---- AsymptoticTestStatDistribution: one translation per kind of cutoff (float("-inf") / a number)
    for name, pname, rty in (('cdf', 'value', NUM), ('pvalue', 'value', OPTNUM), ('expected_value', 'nsigma', NUM)):
        fn = method(dist_cls, name, [pname])
        alts = []
        for cut in (tt.S(float('-inf')), tt.T('c', NUM)):
            x = _tie_exec(dist_cls, calc_cls, {'shift': tt.T('(shift d)', NUM), 'cutoff': cut}, {})
            o = tt.only_ret(x.block(fn.body, tt.St(env={pname: tt.T(pname, NUM)})), name)
            if o.st.warns or o.st.attrs:
                raise tt.TB('%s has side effects' % name)
            alts.append(x.optnum(o.val) if rty == OPTNUM else x.num(o.val))
        emit(fn, 'gen_' + name, '(d : dist N) (%s : V N)' % pname, coqty(rty),
             '(match cutoff d with None => %s | Some c => %s end)' % tuple(alts))

    # ---- AsymptoticCalculator.distributions: one translation per base distribution
    fn = method(calc_cls, 'distributions', ['poi_test'])
    alts = []
    for base in ('normal', 'clipped_normal', OTHER_BASE):
        attrs = {'calc_base_dist': tt.S(base), 'sqrtqmuA_v': tt.T('sqrtqmuA_v', tt.OPTION(NUM), key=('attr', 'sqrtqmuA_v'))}
        x = _tie_exec(dist_cls, calc_cls, attrs, {})
        o = x.block(fn.body, tt.St(env={'poi_test': tt.Ext('poi_test')}))

        def leaf(l):
            if isinstance(l, tt.Exc):
                if l.name not in EXC_CON:
                    raise tt.TB('distributions raises %s' % l.name)
                return '(inl %s)' % EXC_CON[l.name]
            if isinstance(l, tt.Ret) and isinstance(l.val, tt.Tup) and [getattr(v, 'ty', None) for v in l.val.items] == ['dist', 'dist']:
                if l.st.warns or [k for k in l.st.attrs if k != 'sqrtqmuA_v']:
                    raise tt.TB('distributions has side effects')
                return '(inr (%s, %s))' % (l.val.items[0].s, l.val.items[1].s)
            raise tt.TB('distributions does not return two distributions')
        alts.append(tt.render(o, leaf))
    emit(fn, 'gen_distributions', '(sqrtqmuA_v : option (V N)) (b : basedist)', 'cerr + (dist N * dist N)',
         '(match b with BNormal => %s | BClipped => %s | BOther => %s end)' % tuple(alts))

    # ---- AsymptoticCalculator.teststatistic: the arithmetic after the fits, one translation per test statistic
    fn = method(calc_cls, 'teststatistic', ['poi_test'])
    alts, amu = [], []
    for k in KINDS:
        fx = {}
        x = _tie_exec(dist_cls, calc_cls, {'test_stat': tt.S(k)}, fx)
        o = tt.only_ret(x.block(fn.body, tt.St(env={'poi_test': tt.Ext('poi_test')})), 'teststatistic')
        if o.st.warns or sorted(o.st.attrs) != ['fitted_pars', 'sqrtqmuA_v']:
            raise tt.TB('teststatistic: attributes assigned are %r, expected sqrtqmuA_v and fitted_pars' % sorted(o.st.attrs))
        alts.append('(%s, %s)' % (x.num(o.val), x.num(o.st.attrs['sqrtqmuA_v'])))
        if 'asimov_mu' not in fx:
            raise tt.TB('teststatistic does not call generate_asimov_data')
        amu.append(tt.numlit(fx['asimov_mu']))
    emit(fn, 'gen_teststatistic', '(k : tkind) (qmu_v qmuA_v : V N)', '(V N * V N)',
         '(match k with KQ => %s | KQtilde => %s | KQ0 => %s end)' % tuple(alts))
    text += '(* the POI value at which the Asimov data are generated (first argument of generate_asimov_data) *)\n'
    text += 'Definition gen_asimov_mu %s (k : tkind) : V N :=\n  (match k with KQ => %s | KQtilde => %s | KQ0 => %s end).\n' % ((GEN_PARAMS,) + tuple(amu))
    info['gen_asimov_mu'] = amu
    # the two local functions of the qtilde branch
    for lname in ('_true_case', '_false_case'):
        locs = [n for n in ast.walk(fn) if isinstance(n, ast.FunctionDef) and n.name == lname]
        if len(locs) != 1:
            raise tt.TB('teststatistic: local function %s not found exactly once' % lname)
        x = _tie_exec(dist_cls, calc_cls, {'sqrtqmuA_v': tt.T('sA', NUM)}, {})
        o = tt.only_ret(x.block([locs[0]] + [ast.Return(value=ast.Call(func=ast.Name(id=lname, ctx=ast.Load()), args=[], keywords=[], lineno=locs[0].lineno),
                                                        lineno=locs[0].lineno)],
                                tt.St(env={'sqrtqmu_v': tt.T('s', NUM), 'tensorlib': tt.Ext('tensorlib')})), lname)
        emit(locs[0], 'gen' + lname, '(s sA : V N)', 'V N', x.num(o.val))

    # ---- pvalues / expected_pvalues
    fn = method(calc_cls, 'pvalues', ['teststat', 'sig_plus_bkg_distribution', 'bkg_only_distribution'])
    x = _tie_exec(dist_cls, calc_cls, {}, {})
    env = {'teststat': tt.T('teststat', NUM), 'sig_plus_bkg_distribution': tt.T('sb', 'dist'), 'bkg_only_distribution': tt.T('b', 'dist')}
    o = tt.only_ret(x.block(fn.body, tt.St(env=env)), 'pvalues')
    if o.st.warns or o.st.attrs or not (isinstance(o.val, tt.Tup) and len(o.val.items) == 3):
        raise tt.TB('pvalues does not return a triple without side effects')
    emit(fn, 'gen_pvalues', '(teststat : V N) (sb b : dist N)', '(option (V N) * option (V N) * option (V N))',
         '(%s, %s, %s)' % tuple(x.optnum(v) for v in o.val.items))
    fn = method(calc_cls, 'expected_pvalues', ['sig_plus_bkg_distribution', 'bkg_only_distribution'])
    x = _tie_exec(dist_cls, calc_cls, {}, {})
    env = {'sig_plus_bkg_distribution': tt.T('sb', 'dist'), 'bkg_only_distribution': tt.T('b', 'dist')}
    o = tt.only_ret(x.block(fn.body, tt.St(env=env)), 'expected_pvalues')
    if o.st.warns or o.st.attrs or not (isinstance(o.val, tt.T) and o.val.ty == tt.LIST(tt.LIST(OPTNUM))):
        raise tt.TB('expected_pvalues does not return the three bands')
    emit(fn, 'gen_expected_pvalues', '(sb b : dist N)', 'list (list (option (V N)))', o.val.s)
    return text, info


def extract(ctx):
    text, info = generate()
    core.write_if_changed(os.path.join(core.COQ, 'gen', 'AsymptGen.v'), text)
    return dict(file='coq/gen/AsymptGen.v', definitions=sorted(info))


# ---------------------------------------------------------------------------------------
# implementation driver
def fl(tb, x):
    v = tb.tolist(x) if not isinstance(x, (int, float)) else x
    while isinstance(v, list):
        assert len(v) == 1, 'unexpected non-scalar %r' % (v,)
        v = v[0]
    v = float(v)
    return None if v != v else v          # nan -> None


class Impl:
    """pyhf on one backend with the test-statistic function and generate_asimov_data replaced, normal_cdf recorded."""

    def __init__(self, backend):
        import pyhf
        self.backend = backend
        pyhf.set_backend(backend)
        self.pyhf = pyhf
        self.tb, _ = pyhf.get_backend()
        self.model = pyhf.simplemodels.uncorrelated_background([5.0], [50.0], [7.0])
        self.obs = [1234.5] + [float(x) for x in self.model.config.auxdata]
        self.asimov = [55.0] + [float(x) for x in self.model.config.auxdata]
        self.q = self.qA = None
        self.calls = []
        self.cdf_args = []
        self.saved = []

    def _patch(self, obj, name, new):
        if hasattr(obj, name):
            self.saved.append((obj, name, getattr(obj, name)))
            setattr(obj, name, new)
            return True
        return False

    def __enter__(self):
        import pyhf.infer.utils as U
        import pyhf.infer.calculators as C
        tb = self.tb

        def stat(mu, data, pdf, init_pars, par_bounds, fixed_params, return_fitted_pars=False):
            vals = [float(x) for x in (data if isinstance(data, (list, tuple)) else tb.tolist(data))]
            is_obs = vals == self.obs
            self.calls.append('obs' if is_obs else 'asimov')
            v = tb.astensor(self.q if is_obs else self.qA)
            pars = tb.astensor(self.model.config.suggested_init())
            return (v, (pars, pars)) if return_fitted_pars else v

        orig_get = U.get_test_stat

        def fake_get(name):
            orig_get(name)         # unknown names keep raising InvalidTestStatistic
            return stat
        self._patch(U, 'get_test_stat', fake_get)
        self._patch(C, 'get_test_stat', fake_get)

        def fake_asimov(asimov_mu, data, pdf, init_pars, par_bounds, fixed_params, return_fitted_pars=False):
            a = tb.astensor(self.asimov)
            return (a, tb.astensor(self.model.config.suggested_init())) if return_fitted_pars else a
        self._patch(C, 'generate_asimov_data', fake_asimov)

        cls = type(tb)
        orig_cdf = cls.normal_cdf
        rec = self.cdf_args

        def wrapped(this, x, *a, **k):
            try:
                rec.append(fl(tb, x))
            except Exception:
                rec.append('unreadable')
            return orig_cdf(this, x, *a, **k)
        self._patch(cls, 'normal_cdf', wrapped)
        self.orig_cdf = lambda x: orig_cdf(tb, tb.astensor(x))
        return self

    def __exit__(self, *a):
        for obj, name, old in reversed(self.saved):
            setattr(obj, name, old)
        self.saved = []

    def cdf(self, x):
        """the backend's own cdf, unrecorded"""
        return fl(self.tb, self.orig_cdf(float(x)))

    def run_case(self, c):
        from pyhf.infer.calculators import AsymptoticCalculator
        tb = self.tb
        kind, base = c['kind'], c['base']
        self.q, self.qA = c['q'], c['qA']
        self.calls[:] = []
        out = {}
        calc = AsymptoticCalculator(list(self.obs), self.model, test_stat=kind, calc_base_dist=base)
        ts = calc.teststatistic(1.0)
        out['stub_calls'] = list(self.calls)
        sb, b = calc.distributions(1.0)
        out['teststat'] = fl(tb, ts)
        out['sqrtqmuA'] = fl(tb, calc.sqrtqmuA_v)
        self.cdf_args[:] = []
        pv = calc.pvalues(ts, sb, b)
        out['pvalues'] = [fl(tb, x) for x in pv]
        out['args_obs'] = list(self.cdf_args)
        self.cdf_args[:] = []
        ep = calc.expected_pvalues(sb, b)
        out['expected'] = [[fl(tb, x) for x in band] for band in ep]
        out['args_exp'] = list(self.cdf_args)
        # the distribution objects themselves
        out['dist_pvalue'] = [fl(tb, sb.pvalue(ts)), fl(tb, b.pvalue(ts))]
        out['dist_expected_value'] = [fl(tb, b.expected_value(n)) for n in NS]
        r = self.pyhf.infer.hypotest(1.0, list(self.obs), self.model, test_stat=kind, calc_base_dist=base,
                                     return_tail_probs=True, return_expected_set=True)
        out['hypotest'] = [fl(tb, r[0]), [fl(tb, x) for x in r[1]], [fl(tb, x) for x in r[2]]]
        return out

    def run_reuse(self, seq):
        """ONE calculator object (per statistic/base) asked about a sequence of tested values: the stubbed statistic returns the
        (q, qA) of the current step, so every answer must equal what a fresh calculator gives for that step alone"""
        from pyhf.infer.calculators import AsymptoticCalculator
        tb = self.tb
        calcs = {}
        outs = []
        for step, c in enumerate(seq):
            key = (c['kind'], c['base'])
            if key not in calcs:
                calcs[key] = AsymptoticCalculator(list(self.obs), self.model, test_stat=c['kind'], calc_base_dist=c['base'])
            calc = calcs[key]
            self.q, self.qA = c['q'], c['qA']
            poi = 0.25 + 0.5 * step
            try:
                ts = calc.teststatistic(poi)
                sb, b = calc.distributions(poi)
                pv = calc.pvalues(ts, sb, b)
                ep = calc.expected_pvalues(sb, b)
                outs.append(dict(teststat=fl(tb, ts), sqrtqmuA=fl(tb, calc.sqrtqmuA_v), pvalues=[fl(tb, x) for x in pv],
                                 expected=[[fl(tb, x) for x in band] for band in ep]))
            except Exception as e:
                outs.append(dict(exception=core.exc_enum(e), msg=str(e)[:200]))
        return outs

    def run_dist(self, d):
        from pyhf.infer.calculators import AsymptoticTestStatDistribution
        tb = self.tb
        dist = AsymptoticTestStatDistribution(d['shift']) if d['cutoff'] is None else AsymptoticTestStatDistribution(d['shift'], d['cutoff'])
        self.cdf_args[:] = []
        return dict(pvalue=fl(tb, dist.pvalue(tb.astensor(d['v']))), cdf=fl(tb, dist.cdf(tb.astensor(d['v']))),
                    expected_value=fl(tb, dist.expected_value(d['n'])), args=list(self.cdf_args))

    def run_errors(self):
        from pyhf.infer.calculators import AsymptoticCalculator
        out = {}
        calc = AsymptoticCalculator(list(self.obs), self.model, test_stat='q')
        try:
            calc.distributions(1.0)
            out['before_teststat'] = 'ok'
        except Exception as e:
            out['before_teststat'] = core.exc_enum(e)
        self.q, self.qA = 1.0, 4.0
        calc = AsymptoticCalculator(list(self.obs), self.model, test_stat='q', calc_base_dist='lognormal')
        try:
            calc.teststatistic(1.0)
            calc.distributions(1.0)
            out['unknown_base'] = 'ok'
        except Exception as e:
            out['unknown_base'] = core.exc_enum(e)
        return out


# ---------------------------------------------------------------------------------------
# cases
def branch_of(c):
    if c['kind'] != 'qtilde':
        return '-'
    return 'low' if math.sqrt(c['q']) <= math.sqrt(c['qA']) else 'high'


def ref_args(c):
    """arguments x of Phi(-x) by the formulae of the property statement (floats; used for filtering/regimes)"""
    q, qA = c['q'], c['qA']
    s, sA = math.sqrt(q), math.sqrt(qA)
    if c['kind'] == 'qtilde' and q > qA:
        return (q + qA) / (2 * sA), (q - qA) / (2 * sA), sA
    return s, s - sA, sA


def representable(c):
    a_sb, a_b, sA = ref_args(c)
    return max(a_sb, a_b, 2 + sA) <= TAIL_LIMIT


def gen_pairs(rng, n_random):
    """(q, qA, regime) with q >= 0, qA > 0"""
    out = []
    e = lambda s, sA, r: out.append((float(s) * float(s), float(sA) * float(sA), r))
    for sA in [2.0 ** -10, 0.125, 1.0, 2.5, 6.0]:
        e(0.0, sA, 'q=0')
    for s in [0.0, 2.0 ** -10, 2.0 ** -9, 0.125, 0.25]:
        e(s, 2.0 ** -10, 'tiny-qA')
    for s in [0.125, 1.0, 3.25, 7.0, 20.0]:
        e(s, s, 'seam')
    for s, sA in [(30.0, 2.0), (36.5, 30.0), (12.0, 5.0), (9.0, 0.5), (16.0, 8.0), (8.5, 1.0), (25.0, 25.5), (35.0, 34.0)]:
        e(s, sA, 'large')
    for _ in range(n_random):
        s = rng.randrange(0, 96) / 8.0
        sA = rng.randrange(1, 96) / 8.0
        e(s, sA, 'dyadic')
    # float neighbours of the seam and generic non-square floats (sqrt through a checked oracle)
    for qA in [2.7, 0.3, 13.37, 1e-6, 99.99] + [rng.uniform(0.01, 60.0) for _ in range(max(2, n_random // 4))]:
        out.append((qA, qA, 'seam-float'))
        out.append((math.nextafter(qA, math.inf), qA, 'seam+1ulp'))
        out.append((math.nextafter(qA, -math.inf), qA, 'seam-1ulp'))
        out.append((qA * (1 + 2.0 ** -30), qA, 'seam+eps'))
    for _ in range(n_random):
        out.append((rng.uniform(0.0, 150.0), rng.uniform(0.05, 150.0), 'float'))
    return out


def gen_cases(rng, n_random, corpus):
    cases = []
    seen = set()
    for c in corpus:
        c = dict(c)
        c.setdefault('regime', 'corpus')
        cases.append(c)
    for q, qA, regime in gen_pairs(rng, n_random):
        for kind in KINDS:
            for base in BASES:
                cases.append(dict(kind=kind, base=base, q=q, qA=qA, regime=regime))
    out = []
    for c in cases:
        key = (c['kind'], c['base'], c['q'], c['qA'])
        if key in seen:
            continue
        seen.add(key)
        c['representable'] = representable(c)
        out.append(c)
    return out


def gen_dists(rng, n):
    out = []
    for i in range(n):
        shift = rng.choice([0.0, -rng.randrange(0, 40) / 8.0, rng.randrange(-16, 16) / 4.0])
        cutoff = rng.choice([None, shift, -rng.randrange(0, 40) / 8.0, rng.randrange(-16, 16) / 4.0])
        v = rng.randrange(-40, 80) / 8.0
        if cutoff is not None and rng.random() < 0.3:
            v = cutoff + rng.choice([0.0, 0.125, -0.125])
        nn = rng.choice([2, 1, 0, -1, -2, 0.5, -1.5])
        if cutoff is not None and rng.random() < 0.3:
            nn = cutoff - shift
        out.append(dict(shift=shift, cutoff=cutoff, v=v, n=nn))
    return out


# ---------------------------------------------------------------------------------------
# model evaluation inside Coq
def sqrt_tab(c):
    """oracle entries for non-square inputs: python's correctly rounded sqrt; certified in Coq by squaring"""
    ent = []
    for x in (c['q'], c['qA']):
        f = core.frac(x)
        rn, rd = math.isqrt(f.numerator), math.isqrt(f.denominator)
        if rn * rn == f.numerator and rd * rd == f.denominator:
            continue
        ent.append('(%s, %s)' % (core.q(x), core.q(math.sqrt(x))))
    return '[' + '; '.join(dict.fromkeys(ent)) + ']'


def case_expr(c, phi):
    st = sqrt_tab(c)
    return '(sqrt_tab_ok (mkq 1 1125899906842624) %s, run_one %s %s (sqrt_model %s) %s %s %s)' % (
        st, KCOQ[c['kind']], BCOQ[c['base']], st, phi, core.q(c['q']), core.q(c['qA']))


def band_key(c):
    return (c['base'], c['qA'])


def band_expr(key, phi):
    base, qA = key
    st = sqrt_tab(dict(q=0.0, qA=qA))
    return '(sqrt_tab_ok (mkq 1 1125899906842624) %s, run_band %s (sqrt_model %s) %s %s)' % (st, BCOQ[base], st, phi, core.q(qA))


def balanced_eval(ctx, name, exprs, per=6):
    """coq_eval with the expressions dealt round-robin over <= NCPU shards (expensive far-tail cases are neighbours in the list)"""
    n = len(exprs)
    if n == 0:
        return []
    nsh = max(1, min(core.NCPU, (n + per - 1) // per))
    order = sorted(range(n), key=lambda i: (i % nsh, i))
    shard = (n + nsh - 1) // nsh
    # make every shard exactly `shard` long except the last ones: pad by ordering only
    res = core.coq_eval(ctx, name, HEADER, [exprs[i] for i in order], shard=shard)
    out = [None] * n
    for i, r in zip(order, res):
        out[i] = r
    return out


def dist_expr(d, phi):
    cut = 'None' if d['cutoff'] is None else '(Some %s)' % core.q(d['cutoff'])
    return 'run_dist %s %s %s %s %s' % (phi, core.q(d['shift']), cut, core.q(d['v']), core.q(d['n']))


def oqv(v):
    """Some (n, d) | None  ->  Fraction | None"""
    if v == 'None':
        return None
    assert isinstance(v, tuple) and v[0] == 'Some', v
    return core.to_frac(v[1])


def decode_case(res):
    v = core.parse_qc(res)
    ok, (tsA, obs) = v[0], v[1]
    assert ok in ('true', 'false')
    ts, sA = core.to_frac(tsA[0]), core.to_frac(tsA[1])
    assert obs[0] == 'inr', obs
    return dict(sqrt_ok=(ok == 'true'), teststat=ts, sqrtqmuA=sA, pvalues=[oqv(x) for x in obs[1]])


def decode_band(res):
    v = core.parse_qc(res)
    ok, exp = v[0], v[1]
    assert ok in ('true', 'false') and exp[0] == 'inr', v
    return dict(sqrt_ok=(ok == 'true'), expected=[[oqv(x) for x in band] for band in exp[1]])


def decode_dist(res):
    v = core.parse_qc(res)
    return dict(pvalue=oqv(v[0]), cdf=core.to_frac(v[1]), expected_value=core.to_frac(v[2]))


def phi_table(args, cdf):
    ent = []
    for a in dict.fromkeys(args):
        if a is None:
            continue
        val = cdf(float(a))
        ent.append('(%s, %s)' % (core.q(a), core.q(val)))
    return '(tab [%s] miss)' % '; '.join(ent)


def same(model, impl, rtol=RTOL):
    """model: Fraction or None (nan); impl: float or None (nan)"""
    if model is None or impl is None:
        return model is None and impl is None
    if impl in (float('inf'), float('-inf')):
        return False                    # the model's values are finite
    return core.close(model, impl, rtol, 0.0)


def arg_same(model, impl, scale):
    if impl is None or isinstance(impl, str) or impl != impl or impl in (float('inf'), float('-inf')):
        return False                    # (diagnostic only) a non-finite argument handed to the cdf never equals the model's
    if Fraction(float(model)) == model:
        if core.frac(impl) == model:
            return True
    return abs(model - core.frac(impl)) <= Fraction(1e-14) * max(1, scale)


# ---------------------------------------------------------------------------------------
# the property's own formulae, independent oracle (mpmath, 30 digits)
def mp_reference(c):
    import mpmath
    mp = mpmath.mp
    mp.dps = 30
    q, qA = mpmath.mpf(c['q']), mpmath.mpf(c['qA'])
    s, sA = mpmath.sqrt(q), mpmath.sqrt(qA)
    if c['kind'] == 'qtilde' and q > qA:
        a_sb, a_b = (q + qA) / (2 * sA), (q - qA) / (2 * sA)
    else:
        a_sb, a_b = s, s - sA
    clsb, clb = mpmath.ncdf(-a_sb), mpmath.ncdf(-a_b)
    exp = [[], [], []]
    for n in NS:
        x = mpmath.mpf(n)
        if c['base'] == 'clipped_normal' and x < -sA:
            x = -sA
        e_sb, e_b = mpmath.ncdf(-x - sA), mpmath.ncdf(-x)
        exp[0].append(e_sb)
        exp[1].append(e_b)
        exp[2].append(e_sb / e_b)
    return dict(pvalues=[clsb, clb, clsb / clb], expected=exp)


def mp_close(ref, impl, rtol=1e-7):
    if impl is None:
        return False
    return abs(ref - impl) <= rtol * abs(ref)


def observables(c, out):
    """name -> impl value, for every gating observable of one case"""
    obs = {}
    for nm, v in zip(['CLsb', 'CLb', 'CLs'], out['pvalues']):
        obs['pvalues.' + nm] = v
    for nm, band in zip(['CLsb', 'CLb', 'CLs'], out['expected']):
        for i, v in enumerate(band):
            obs['expected.%s[%d]' % (nm, i)] = v
    obs['dist.sb.pvalue'] = out['dist_pvalue'][0]
    obs['dist.b.pvalue'] = out['dist_pvalue'][1]
    h = out['hypotest']
    obs['hypotest.obs'] = h[0]
    for i, v in enumerate(h[1]):
        obs['hypotest.tail[%d]' % i] = v
    for i, v in enumerate(h[2]):
        obs['hypotest.band[%d]' % i] = v
    return obs


def expected_observables(c, pv, exp):
    """same names -> expected value, from a (pvalues, expected) pair of the model or of the reference"""
    obs = {}
    for nm, v in zip(['CLsb', 'CLb', 'CLs'], pv):
        obs['pvalues.' + nm] = v
    for nm, band in zip(['CLsb', 'CLb', 'CLs'], exp):
        for i, v in enumerate(band):
            obs['expected.%s[%d]' % (nm, i)] = v
    obs['dist.sb.pvalue'] = pv[0]
    obs['dist.b.pvalue'] = pv[1]
    if c['kind'] == 'q0':
        obs['hypotest.obs'] = pv[0]
        obs['hypotest.tail[0]'] = pv[1]
        band = exp[0]
    else:
        obs['hypotest.obs'] = pv[2]
        obs['hypotest.tail[0]'] = pv[0]
        obs['hypotest.tail[1]'] = pv[1]
        band = exp[2]
    for i, v in enumerate(band):
        obs['hypotest.band[%d]' % i] = v
    return obs


def group_of(name):
    if name.startswith('pvalues.'):
        return name.split('.')[1]
    if name.startswith('expected.'):
        return 'exp_' + name.split('.')[1].split('[')[0]
    if name.startswith('dist.'):
        return 'dist_pvalue'
    return 'hypotest_' + name.split('.')[1].split('[')[0]


def invariants(c, out):
    """the 'consequently' part of the statement, evaluated on what pyhf returned; returns list of (signature, text)"""
    bad = []
    pv = out['pvalues']
    if None in pv:
        bad.append(('observed-nan', 'an observed p-value is nan: %r' % (pv,)))
    else:
        clsb, clb, cls = pv
        if not (0 <= clsb <= clb <= 1):
            bad.append(('ordering:CLsb<=CLb', 'not 0 <= CLsb <= CLb <= 1: %r' % (pv,)))
        if clb > 0 and not (0 <= cls <= 1):
            bad.append(('ordering:CLs', 'CLs outside [0,1]: %r' % (pv,)))
    for nm, band in zip(['CLsb', 'CLb', 'CLs'], out['expected']):
        if None in band:
            bad.append(('expected-nan', 'expected %s band contains nan: %r' % (nm, band)))
        elif any(band[i] > band[i + 1] * (1 + 1e-12) for i in range(4)):
            bad.append(('band-not-monotone:' + nm, 'expected %s band is not non-decreasing from -2 to +2 sigma: %r' % (nm, band)))
    if c['base'] == 'clipped_normal':
        sA = math.sqrt(c['qA'])
        for n, x in zip(NS, out['dist_expected_value']):
            if x is None or x + sA < -1e-12 * max(1, sA):
                bad.append(('clipped-negative-stat', 'clipped base: expected value %r at N=%d lies below -sqrt(qA)=%r' % (x, n, -sA)))
    return bad


# ---------------------------------------------------------------------------------------
def load_corpus():
    d = os.path.join(core.VERIF, 'corpus', 'C07')
    out = []
    if os.path.isdir(d):
        for fn in sorted(os.listdir(d)):
            if fn.endswith('.json'):
                body = json.load(open(os.path.join(d, fn)))
                for c in body.get('cases', [body.get('case')] if body.get('case') else []):
                    out.append(dict(kind=c['kind'], base=c['base'], q=float.fromhex(c['q']) if isinstance(c['q'], str) else float(c['q']),
                                    qA=float.fromhex(c['qA']) if isinstance(c['qA'], str) else float(c['qA']), regime='corpus'))
    return out


def backends_for(ctx):
    others = ['jax', 'pytorch', 'tensorflow']
    if ctx.quick:
        return ['numpy', others[ctx.seed % 2]]      # tensorflow's import alone costs ~20 s: thorough only
    return ['numpy'] + others


def simplicity(c):
    f1, f2 = core.frac(c['q']), core.frac(c['qA'])
    return (f1.denominator.bit_length() + f2.denominator.bit_length() + f1.numerator.bit_length() + f2.numerator.bit_length(),
            c['base'] != 'normal')


def run(ctx):
    rng = ctx.rng
    tie = None
    try:
        ctx.coverage['translated_from_source'] = extract(ctx)
    except facts.TieBroken as e:
        tie = 'translation of pyhf/infer/calculators.py to Gallina failed (harness/props/c07.py:extract): %s' % e
    if tie is None:
        ok, txt = core.prove(ctx)
        if not ok:
            why = ('the functions translated from the source no longer coincide with the hand model (coq/TieAsympt.v, C07_source_is_model_*): '
                   if ('Tie' in txt or 'source_is_model' in txt or 'Gen.v' in txt) else 'proof obligations of props/C07.v no longer check: ')
            tie = why + txt[-1200:]
    rc, mout, _ = core.coq_make(['AsymptRun.vo'])
    if rc != 0:
        tie = tie or ('coq/AsymptRun.v does not build: ' + mout[-800:])
    model_ok = rc == 0          # the hand model is run for the correspondence even when a tie theorem no longer checks
    ctx.trusted += ['harness/props/c07.py:extract + harness/props/tie_translate.py (python ast -> Gallina for AsymptoticTestStatDistribution.cdf/pvalue/'
                    'expected_value, AsymptoticCalculator.distributions/teststatistic (arithmetic after the fits)/pvalues/expected_pvalues; fail closed): '
                    'C07_source_is_model_* prove the translated definitions equal to the hand model']
    ctx.trusted += ['harness/props/c07.py: replacement of the test-statistic function looked up by the calculator (chosen q, qA reach the '
                    'calculator), class-level recording wrapper around tensorlib.normal_cdf',
                    'the numeric normal cdf of each backend is taken as is (its accuracy is property C04): results are compared against '
                    'the backend\'s own cdf at the model\'s arguments',
                    'sqrt of non-square inputs: python math.sqrt as proposer, every entry certified inside Coq by squaring (sqrt_tab_ok, 2^-50)',
                    'the Gaussian integral is proved (coq/Gauss.v: gauss_integral, gauss_total; F+G = PI/4 argument in Coquelicot): '
                    'C07_ordering_normal_unconditional / C07_band_monotone_normal_unconditional / positivity / Mills bound / log-concavity of the '
                    'concrete cdf NPhi carry no premise; only the standard real-number axioms remain']
    ctx.assumptions += ['IEEE rounding is covered by the comparison tolerance (1e-9 relative on p-values); nan/overflow are not modelled '
                        'beyond nan = value below the cutoff', 'tails beyond 37 sigma are excluded, as in the property statement']

    cases = gen_cases(rng, ctx.n(8, 120), load_corpus())
    dists = gen_dists(rng, ctx.n(40, 400))
    backends = backends_for(ctx)
    bkeys = list(dict.fromkeys(band_key(c) for c in cases if c['representable']))
    ctx.log('%d calculator cases (%d distinct expected bands), %d distribution cases, backends %s' % (len(cases), len(bkeys), len(dists), backends))

    # ---- pass 1: the model with Phi := identity gives the arguments the cdf must receive ----
    margs = mbands = mdargs = None
    if model_ok:
        try:
            e1, e2, e3 = [case_expr(c, 'idq') for c in cases], [band_expr(k, 'idq') for k in bkeys], [dist_expr(d, 'idq') for d in dists]
            res = balanced_eval(ctx, 'args', e1 + e2 + e3, per=60)
            margs = [decode_case(r) for r in res[:len(e1)]]
            mbands = dict(zip(bkeys, [decode_band(r) for r in res[len(e1):len(e1) + len(e2)]]))
            mdargs = [decode_dist(r) for r in res[len(e1) + len(e2):]]
        except (core.CoqEvalError, AssertionError) as e:
            margs = None
            tie = tie or ('model evaluation failed: %s' % str(e)[-800:])
    if margs is not None:
        bad_sqrt = [c for c, m in zip(cases, margs) if not m['sqrt_ok']] + [k for k in bkeys if not mbands[k]['sqrt_ok']]
        if bad_sqrt:
            raise RuntimeError('sqrt oracle entry rejected by Coq for %r' % (bad_sqrt[0],))
    ctx.log('arguments computed by the model')

    failures = {}        # (group, kind, branch) -> list of (case, backend, name, impl, expected, concrete?)
    inv_fail = {}
    stats = dict(regimes={}, kinds={}, bases={}, branches={}, unrepresentable_skipped=0, arg_lists_compared=0,
                 arg_lists_identical=0, observables_compared=0, far_tail_cases=0, stub_unreached=0, cases_per_backend={})
    sigs = set()
    evaluations = 0
    samples = []
    err_results = {}
    for bi, be in enumerate(backends):
        # quick: the second backend sees every third (q, qA) pair
        pairs = list(dict.fromkeys((c['q'], c['qA']) for c in cases))
        keep = set(pairs) if (bi == 0 or not ctx.quick) else set(pairs[(ctx.seed + bi) % 3::3])
        sel = [i for i, c in enumerate(cases) if c['representable'] and (c['q'], c['qA']) in keep]
        stats['unrepresentable_skipped'] = sum(1 for c in cases if not c['representable'])
        stats['cases_per_backend'][be] = len(sel)
        outs = {}
        models = mb2 = dmodels = None
        with Impl(be) as impl:
            for i in sel:
                try:
                    outs[i] = impl.run_case(cases[i])
                except Exception as e:       # an exception on a valid input is itself an observable
                    outs[i] = dict(exception=core.exc_enum(e), msg=str(e)[:200])
            douts = [impl.run_dist(d) for d in dists]
            err_results[be] = impl.run_errors()
            # one calculator object reused over a sequence of tested values (answers are functions of the current (q, qA))
            rsel = [i for i in sel if 'exception' not in outs[i] and cases[i]['q'] > 0][: ctx.n(24, 120)]
            rng2 = __import__('random').Random(ctx.seed * 7919 + bi)
            rng2.shuffle(rsel)
            routs = impl.run_reuse([cases[i] for i in rsel])
            stats['reuse_steps'] = stats.get('reuse_steps', 0) + len(rsel)
            for step, (i, ro) in enumerate(zip(rsel, routs)):
                fresh = outs[i]
                if 'exception' in ro:
                    inv_fail.setdefault('reuse-raises:' + cases[i]['kind'], []).append(
                        (cases[i], be, 'step %d of a sequence on ONE calculator object raises %s (%s); a fresh calculator answers' % (step, ro['exception'], ro['msg']), ro))
                    continue
                flat = lambda o: [o['teststat'], o['sqrtqmuA']] + list(o['pvalues']) + [x for band in o['expected'] for x in band]
                fa, fb = flat(ro), flat(fresh)
                if any((x is None) != (y is None) or (x is not None and abs(x - y) > 1e-12 * max(1.0, abs(y))) for x, y in zip(fa, fb)):
                    prev = [dict(kind=cases[k]['kind'], base=cases[k]['base'], q=cases[k]['q'], qA=cases[k]['qA']) for k in rsel[:step]
                            if (cases[k]['kind'], cases[k]['base']) == (cases[i]['kind'], cases[i]['base'])]
                    inv_fail.setdefault('reuse-differs-from-fresh:' + cases[i]['kind'], []).append(
                        (dict(cases[i], earlier_calls_on_this_calculator=prev), be,
                         'after %d earlier call(s) on the same AsymptoticCalculator object, the answers for q=%r, qA=%r are teststat %r, sqrt(qA) %r, p-values %r; a fresh calculator gives teststat %r, sqrt(qA) %r, p-values %r'
                         % (len(prev), cases[i]['q'], cases[i]['qA'], ro['teststat'], ro['sqrtqmuA'], ro['pvalues'], fresh['teststat'], fresh['sqrtqmuA'], fresh['pvalues']), ro))
            ctx.log('%s: %d implementation runs done' % (be, len(sel)))
            # ---- pass 2: Phi := table of this backend's cdf at the model's arguments ----
            if margs is not None:
                exprs = [case_expr(cases[i], phi_table(margs[i]['pvalues'][:2], impl.cdf)) for i in sel]
                bsel = list(dict.fromkeys(band_key(cases[i]) for i in sel))
                bexprs = [band_expr(k, phi_table(mbands[k]['expected'][0] + mbands[k]['expected'][1], impl.cdf)) for k in bsel]
                dexprs = [dist_expr(d, phi_table([m['pvalue'], m['cdf']], impl.cdf)) for d, m in zip(dists, mdargs)]
        if margs is not None:
            try:
                res = balanced_eval(ctx, 'vals_' + be, exprs + bexprs + dexprs, per=10)
                models = dict(zip(sel, [decode_case(r) for r in res[:len(exprs)]]))
                mb2 = dict(zip(bsel, [decode_band(r) for r in res[len(exprs):len(exprs) + len(bexprs)]]))
                dmodels = [decode_dist(r) for r in res[len(exprs) + len(bexprs):]]
            except (core.CoqEvalError, AssertionError) as e:
                models = None
                tie = tie or ('model evaluation failed: %s' % str(e)[-800:])
        ctx.log('%s: model evaluated' % be)
        # ---- compare ----
        for i in sel:
            c, out = cases[i], outs[i]
            evaluations += 1
            br = branch_of(c)
            if bi == 0:
                for k, v in (('regimes', c['regime']), ('kinds', c['kind']), ('bases', c['base']), ('branches', br)):
                    stats[k][v] = stats[k].get(v, 0) + 1
                if c['q'] > 0:
                    sigs.add((c['kind'], c['base'], c['q'], c['qA']))
                if max(ref_args(c)[:2]) > 8.3:
                    stats['far_tail_cases'] += 1
            if 'exception' in out:
                failures.setdefault(('exception', c['kind'], br), []).append((c, be, 'exception', out, 'p-values', True))
                continue
            if 'obs' not in out['stub_calls'] or 'asimov' not in out['stub_calls']:
                stats['stub_unreached'] += 1
            ref = mp_reference(c)
            ref_obs = expected_observables(c, ref['pvalues'], ref['expected'])
            got = observables(c, out)
            exp_obs = None
            if models is not None:
                exp_obs = expected_observables(c, models[i]['pvalues'], mb2[band_key(c)]['expected'])
                # diagnostics: arguments handed to the cdf
                scale = max(1, math.sqrt(c['q']), math.sqrt(c['qA']))
                mbk = mbands[band_key(c)]['expected']
                for wantl, gotl in ((sorted(margs[i]['pvalues'][:2]), out['args_obs']), (sorted(mbk[0] + mbk[1]), out['args_exp'])):
                    stats['arg_lists_compared'] += 1
                    gl = sorted([g for g in gotl if isinstance(g, float)])
                    if len(gl) == len(wantl) == len(gotl) and all(arg_same(w, g, scale) for w, g in zip(wantl, gl)):
                        stats['arg_lists_identical'] += 1
            for name in sorted(set(got) | set(ref_obs)):
                g = got.get(name, 'missing')
                stats['observables_compared'] += 1
                r = ref_obs.get(name, 'missing')
                agrees_model = exp_obs is None or (name in exp_obs and g != 'missing' and same(exp_obs[name], g))
                agrees_ref = r != 'missing' and g != 'missing' and mp_close(r, g)
                if agrees_model and (exp_obs is not None or agrees_ref):
                    continue
                failures.setdefault((group_of(name), c['kind'], br), []).append(
                    (c, be, name, g, (exp_obs or {}).get(name, r), not agrees_ref))
            for sig, text in invariants(c, out):
                inv_fail.setdefault(sig + ':' + c['kind'], []).append((c, be, text, out))
            if len(samples) < 2 and c['regime'] in ('dyadic', 'seam+1ulp') and c['kind'] == 'qtilde':
                samples.append(dict(case=c, backend=be, impl=dict(teststat=out['teststat'], pvalues=out['pvalues'], CLs_band=out['expected'][2]),
                                    model_args=[str(x) for x in (margs[i]['pvalues'][:2] if margs else [])]))
        # clipped leaves everything else unchanged: compare the two bases of the same (kind, q, qA) as returned by pyhf
        byk = {}
        for i in sel:
            if 'exception' not in outs[i]:
                c = cases[i]
                byk.setdefault((c['kind'], c['q'], c['qA']), {})[c['base']] = (c, outs[i])
        for key, dct in byk.items():
            if len(dct) == 2:
                (cn, on), (cc, oc) = dct['normal'], dct['clipped_normal']
                sA = math.sqrt(cn['qA'])
                diffs = [('pvalues', on['pvalues'], oc['pvalues'])]
                for j, n in enumerate(NS):
                    if n + sA > 1e-9:
                        diffs.append(('expected[%d]' % j, [b[j] for b in on['expected']], [b[j] for b in oc['expected']]))
                for nm, a, b in diffs:
                    if any((x is None) != (y is None) or (x is not None and not core.close(core.frac(x), y, 1e-12, 0.0)) for x, y in zip(a, b)):
                        inv_fail.setdefault('clipped-changes-other:' + cn['kind'], []).append(
                            (cc, be, 'clipped base changes %s, which the cutoff does not concern: normal %r, clipped %r' % (nm, a, b), oc))
        # distribution objects used directly
        for j, (d, o) in enumerate(zip(dists, douts)):
            evaluations += 1
            sigs.add(('dist', d['shift'], d['cutoff'], d['v'], d['n']))
            if dmodels is None:
                continue
            m = dmodels[j]
            for name in ('pvalue', 'cdf', 'expected_value'):
                stats['observables_compared'] += 1
                if not same(m[name], o[name], RTOL if name != 'expected_value' else 1e-15):
                    failures.setdefault(('dist.' + name, 'direct', '-'), []).append(
                        (dict(d, kind='direct', base='-', q=0.0, qA=0.0, regime='dist'), be, name, o[name], m[name], True))
        ctx.log('%s: compared' % be)
    # error behaviour (RuntimeError before teststatistic, ValueError for an unknown base distribution)
    for be, er in err_results.items():
        if er.get('before_teststat') != 'PyRuntimeError':
            inv_fail.setdefault('distributions-before-teststatistic', []).append((dict(kind='q', base='normal', q=1.0, qA=4.0), be,
                                                                                   'distributions() before teststatistic(): %r, expected RuntimeError' % er.get('before_teststat'), er))
        if er.get('unknown_base') != 'PyValueError':
            inv_fail.setdefault('unknown-base-distribution', []).append((dict(kind='q', base='lognormal', q=1.0, qA=4.0), be,
                                                                          'unknown calc_base_dist: %r, expected ValueError' % er.get('unknown_base'), er))

    # ---- decide ----
    found_concrete = False
    nrep = 0
    for key in sorted(failures):
        lst = failures[key]
        concrete = [f for f in lst if f[5]]
        bases = {f[0].get('base') for f in lst}
        sig = 'formula:%s:%s:%s' % key + (':clipped-only' if bases == {'clipped_normal'} else '')
        if concrete:
            c, be, name, g, e, _ = min(concrete, key=lambda f: (f[1] != 'numpy', simplicity(f[0])))
            found_concrete = True
            if nrep < 8:
                nrep += 1
                ctx.violation(sig, '%s of test_stat=%s (branch %s, base %s, backend %s) at q=%r qA=%r is %r, the formula gives %s'
                              % (name, c['kind'], key[2], c.get('base'), be, c['q'], c['qA'], g, _fmt(e)),
                              dict(kind='asympt' if c['kind'] != 'direct' else 'dist', case=_jcase(c), backend=be, observable=name, impl=g,
                                   expected=_fmt(e), n_failing_cases=len(lst),
                                   theorem='C07_clsb_q / C07_clb_q / C07_clsb_qtilde_* / C07_clb_qtilde_* / C07_cls_is_ratio / C07_expected_N'))
        else:
            c, be, name, g, e, _ = lst[0]
            tie = tie or ('model and implementation disagree beyond 1e-9 on %s at %r (backend %s): impl %r, model %s; '
                          'the mpmath reference agrees with the implementation to 1e-7' % (name, _jcase(c), be, g, _fmt(e)))
    for sig in sorted(inv_fail):
        c, be, text, out = min(inv_fail[sig], key=lambda f: (f[1] != 'numpy', simplicity(f[0])))
        found_concrete = True
        ctx.violation(sig, text + ' [test_stat=%s base=%s q=%r qA=%r backend=%s]' % (c['kind'], c.get('base'), c['q'], c['qA'], be),
                      dict(kind='asympt', case=_jcase(c), backend=be, impl=out, expected=text,
                           theorem='C07_ordering / C07_band_monotone / C07_clipped_never_negative_stat / C07_clipped_else_unchanged'))
    if stats['stub_unreached'] and not found_concrete:
        tie = tie or 'the calculator no longer obtains its statistic through the looked-up test-statistic function (%d runs): chosen (q, qA) cannot be injected' % stats['stub_unreached']
    if tie and not found_concrete:
        ctx.violation('tie-broken', tie[:300], dict(kind='tie', detail=tie, theorem='props/C07.v'), nofail=True)

    ctx.coverage.update(
        evaluations=evaluations, distinct_nontrivial=len(sigs),
        rule='calculator cases: (q, qA) = squares of dyadic rationals (sqrt exact) over q=0, tiny qA, the seam q=qA, far tails up to 37 sigma, '
             'random dyadics, plus float neighbours of the seam and random non-square floats (sqrt oracle certified in Coq) x {q, qtilde, q0} x '
             '{normal, clipped_normal}; each run yields teststatistic, pvalues, the 3x5 expected band (N = 2..-2), the distribution objects\' '
             'pvalue/expected_value and hypotest(return_tail_probs, return_expected_set); distribution cases: shift/cutoff/value/nsigma incl. '
             'value below, at and above the cutoff. non-trivial = q > 0 (calculator) or any distribution case; distinct by the full input tuple',
        backends=backends, stats=stats, error_behaviour=err_results, samples=samples or [dict(case=cases[0])])


def _fmt(e):
    if isinstance(e, Fraction):
        return repr(float(e))
    return repr(e) if not hasattr(e, '_mpf_') else str(e)


def _jcase(c):
    d = {k: v for k, v in c.items() if k in ('kind', 'base', 'regime', 'shift', 'cutoff', 'v', 'n', 'earlier_calls_on_this_calculator')}
    d['q'], d['qA'] = c['q'], c['qA']
    d['q_hex'], d['qA_hex'] = float(c['q']).hex(), float(c['qA']).hex()
    return d


def replay(body):
    if body.get('kind') == 'tie':
        print(body.get('detail'))
        return 0
    c = dict(body['case'])
    if 'q_hex' in c:
        c['q'], c['qA'] = float.fromhex(c['q_hex']), float.fromhex(c['qA_hex'])
    with Impl(body.get('backend', 'numpy')) as impl:
        if body.get('kind') == 'dist':
            out = impl.run_dist(c)
        else:
            if c.get('earlier_calls_on_this_calculator'):
                seq = list(c['earlier_calls_on_this_calculator']) + [dict(kind=c['kind'], base=c['base'], q=c['q'], qA=c['qA'])]
                print('last call of the sequence on ONE calculator object:', json.dumps(impl.run_reuse(seq)[-1], default=str))
            out = impl.run_case(c)
            ref = mp_reference(c)
            print('formulae (mpmath):', json.dumps(dict(pvalues=[str(x) for x in ref['pvalues']], expected=[[str(x) for x in b] for b in ref['expected']]), indent=1))
    print('pyhf returns:', json.dumps(out, indent=1, default=str))
    print('recorded:', body.get('observable'), 'impl', body.get('impl'), 'expected', body.get('expected'))
    return 0
