"""C05 - tie to the source: optimize/common.py (_make_stitch_pars, shim), optimize/opt_numpy.py / opt_jax.py (the objective wrapper),
optimize/mixins.py (OptimizerMixin.minimize with _internal_minimize / _internal_postprocess inlined) and infer/mle.py
(_validate_fit_inputs inlined into fit, fixed_poi_fit) translated to coq/gen/FitGen.v on every run
(translator: harness/props/tie_translate.py, class Exec2; fail closed).  The proofs that the translated definitions equal the hand
model of coq/FitWrap.v are in coq/TieFit.v; the theorems C05_source_is_model_* in coq/props/C05.v."""
import ast
import os

from harness import core, facts
from harness.props import tie_translate as tt

GEN_NAME = 'FitGen'
A, F = 'A', 'F'
LA = tt.LIST(A)
BND = tt.PROD(A, A)
FV = tt.PROD(tt.NAT, A)
LNAT = tt.LIST(tt.NAT)
VIEWER = 'viewer'
KW = 'kwargs A'
OPTRES = 'optres A F'
STITCH = 'option (list A) -> list A -> list A'
OBJ = 'list A -> F'
FRES = 'objective-value'          # what objective(pars, data, pdf) returns: a tensor of one element
CORR = tt.LIST(LA)
RESULT = tt.PROD('fitres A F', tt.OPTION(CORR))

GEN_HEADER = ('From Coq Require Import Bool Arith List.\nRequire Import PV.FitWrap.\nImport ListNotations.\nLocal Open Scope list_scope.\n'
              '(* GENERATED on every run by harness/props/c05_tie.py from $VERIF_REPO/src/pyhf/optimize/{common,mixins,opt_numpy,opt_jax}.py and\n'
              '   infer/mle.py - do not edit.  Reading of the external names (the Section variables / constructors of PV.FitWrap):\n'
              '   _TensorViewer([a, b]) is mk_viewer [a; b] and tv.stitch([x, y]) is stitch tv [x; y]; tensorlib.gather / zeros / astensor / tolist\n'
              '   are gather / repeat zero / the identity; a stitch_pars callable is a function `stitch_with pars` whose first argument is None\n'
              '   when the keyword is not given; self._get_minimizer + self._minimize is `optimiser do_grad func kwargs`, result.success /\n'
              '   .x / .fun / getattr(result, "unc", None) are o_success / o_x / o_fun / o_unc, getattr(result, "corr", None) is corr_of result,\n'
              '   result.minuit.fixed holds exactly at the indices of the fixed_vals the optimiser was handed; objective(pars, data, pdf)[0] is\n'
              '   objective pars; the dict returned by shim is the record kwargs (func = the wrapped objective of the same call and do_grad\n'
              '   checked by the translator); x[i] out of range reads the default; pdf.config.npars / poi_index / suggested_*() are parameters. *)\n')

PRELUDE = tt.PRELUDE2 + '''Fixpoint zip_cons {X} (r : list X) (acc : list (list X)) : list (list X) :=
  match r, acc with x :: t, a :: at' => (x :: a) :: zip_cons t at' | _, _ => [] end.
Fixpoint zipstar {X} (rows : list (list X)) : list (list X) :=              (* zip of the unpacked rows; also tensorlib.stack(rows, axis=1) *)
  match rows with [] => [] | r :: t => match t with [] => map (fun x => [x]) r | _ => zip_cons r (zipstar t) end end.
Inductive gen_err := GE (e : fit_err) | GUnboundLocal.
'''

ERR = {'FailedMinimization': '(inl (GE FailedMinimization))', 'UnboundLocalError': '(inl GUnboundLocal)', 'UnspecifiedPOI': '(inl (GE UnspecifiedPOI))'}
OPAQUE = {'par_names', 'index', '_', 'name'}


def ext(v, tag):
    return isinstance(v, tt.Ext) and v.tag == tag


class FX(tt.Exec2):
    dflt = {A: 'zero', tt.NAT: '0', tt.BOOL: 'false'}

    def __init__(self, trees):
        super().__init__()
        self.trees = trees
        self.kw_of = {}            # optimiser result term -> kwargs term it ran with
        self.shim_ctx = {}         # term of a shim(..) call -> what the translator checked of it
        self.flags = {}
        self.patterns = [(tt.pattern('pdf.config.npars'), tt.T('npars', tt.NAT)),
                         (tt.pattern('pdf.config.poi_index'), tt.T('poi_index', tt.OPTION(tt.NAT))),
                         (tt.pattern('pdf.config.suggested_init()'), tt.T('sugg_init', LA)),
                         (tt.pattern('pdf.config.suggested_bounds()'), tt.T('sugg_bounds', tt.LIST(BND))),
                         (tt.pattern('pdf.config.suggested_fixed()'), tt.T('sugg_fixed', tt.LIST(tt.BOOL))),
                         (tt.pattern('tensorlib.name'), tt.Ext('tensorlib.name'))]

    # ---- names ----------------------------------------------------------------------------------------------------
    def global_name(self, name, st):
        if name in ('get_backend', 'float', 'len', 'tuple', 'list', 'range', 'zip', 'enumerate', 'log', 'getattr', 'np', 'dict', '_TensorViewer',
                    '_make_stitch_pars', '_get_tensor_shim', 'exceptions', 'shim', 'twice_nll', 'fit', '_final_objective'):
            return tt.Ext(name)
        raise tt.TB('unknown name %s' % name)

    def self_attr(self, attr, node, st):
        if attr in ('_get_minimizer', '_minimize'):
            return tt.Ext('self.' + attr)
        raise tt.TB('self.%s (line %d)' % (attr, node.lineno))

    def is_obj(self, v):
        return isinstance(v, tt.T) and v.ty == OPTRES

    def obj_attr(self, obj, attr, node, st):
        if attr == 'x':
            return tt.T('(o_x A F %s)' % obj.s, LA)
        if attr == 'fun':
            return tt.T('(o_fun A F %s)' % obj.s, F)
        if attr == 'success':
            return tt.T('(o_success A F %s)' % obj.s, tt.BOOL)
        if attr == 'minuit':
            return tt.Ext('minuit', obj)
        raise tt.TB('attribute .%s of an optimiser result (line %d)' % (attr, node.lineno))

    def attr_ext(self, base, attr, node, st):
        if isinstance(base, tt.Ext):
            if base.tag == 'tensorlib':
                return tt.Ext('tensorlib.' + attr)
            if base.tag == 'minuit' and attr == 'fixed':
                return tt.Ext('minuit.fixed', base.data)
            if base.tag == 'np' and attr == 'where':
                return tt.Ext('np.where')
            if base.tag == 'optimizer' and attr == 'minimize':
                return tt.Ext('opt.minimize')
            if base.tag == 'exceptions':
                return tt.Ext('exceptions.' + attr)
        if isinstance(base, tt.T) and base.ty == VIEWER and attr == 'stitch':
            return tt.Ext('viewer.stitch', base)
        raise tt.TB('attribute .%s of %r (line %d)' % (attr, base, node.lineno))

    # ---- comparisons of parameter values: only <= is available on A ---------------------------------------------------------------
    def compare1(self, op, a, b, node):
        if getattr(a, 'ty', None) == A and getattr(b, 'ty', None) == A:
            if isinstance(op, ast.LtE):
                return tt.T('(leb %s %s)' % (a.s, b.s), tt.BOOL)
            if isinstance(op, ast.GtE):
                return tt.T('(leb %s %s)' % (b.s, a.s), tt.BOOL)
            raise tt.TB('comparison %s of parameter values (line %d)' % (type(op).__name__, node.lineno))
        return super().compare1(op, a, b, node)

    def subscript(self, base, idx, node):
        if isinstance(base, tt.T) and base.ty == FRES and isinstance(idx, tt.S) and idx.v == 0:
            return tt.T(base.s, F)
        return super().subscript(base, idx, node)

    # ---- values as terms ------------------------------------------------------------------------------------------------
    def opt_term(self, v, inner):
        if isinstance(v, tt.S) and v.v is None:
            return 'None'
        if isinstance(v, tt.T) and v.ty == tt.OPTION(inner):
            return v.s
        if isinstance(v, tt.T) and v.ty == inner:
            return '(Some %s)' % v.s
        raise tt.TB('optional %r expected, got %r' % (inner, v))

    def fun_term(self, f):
        """a stitch_pars callable: (pars, stitch_with=<default>) -> fun stitch_with pars => .."""
        if f.params != ['pars', 'stitch_with'] or set(f.defaults) != {'stitch_with'}:
            raise tt.TB('callable %s: signature is not (pars, stitch_with=<default>)' % f.name)
        d = f.defaults['stitch_with']
        if isinstance(d, tt.S) and d.v is None:
            sw = tt.Ext('stitch_with whose default is None')
        elif isinstance(d, tt.T) and d.ty == LA:
            sw = tt.T('(match stitch_with with Some w => w | None => %s end)' % d.s, LA)
        else:
            raise tt.TB('callable %s: default of stitch_with is %r' % (f.name, d))
        v = self.call_fun(f, [tt.T('pars', LA), sw], {}, tt.St(), ast.parse('0').body[0])
        if not (isinstance(v, tt.T) and v.ty == LA):
            raise tt.TB('callable %s returns %r' % (f.name, v))
        return tt.T('(fun (stitch_with : option (list A)) (pars : list A) => %s)' % v.s, STITCH)

    def as_term(self, v):
        if isinstance(v, tt.Dct):
            it = v.items
            if set(it) != {'func', 'x0', 'do_grad', 'bounds', 'fixed_vals'}:
                raise tt.TB('minimizer_kwargs has keys %r' % sorted(it))
            if not ext(it['func'], 'objective_and_grad'):
                raise tt.TB('minimizer_kwargs[func] is not the wrapped objective')
            if not (isinstance(it['do_grad'], tt.T) and it['do_grad'].s == 'do_grad'):
                raise tt.TB('minimizer_kwargs[do_grad] is not the do_grad argument')
            self.flags['kwargs_func_stitch'] = it['func'].data
            fv = it['fixed_vals']
            return tt.T('{| k_x0 := %s; k_bounds := %s; k_fixed := %s |}' % (self.typed(it['x0'], LA), self.typed(it['bounds'], tt.LIST(BND)),
                                                                             '[]' if isinstance(fv, tt.Lst) and not fv.items else self.typed(fv, tt.LIST(FV))), KW)
        return super().as_term(v)

    def typed(self, v, ty):
        if isinstance(v, tt.T) and v.ty == ty:
            return v.s
        raise tt.TB('a %r was expected, got %r' % (ty, v))

    def result_term(self, obj, st):
        """the optimiser result object after _internal_postprocess wrote its attributes: (fitres, correlations)"""
        g = lambda a: st.attrs.get(obj.s + '\x1f' + a)
        x, fun, unc, corr = g('x'), g('fun'), g('unc'), g('corr')
        if x is None or fun is None or unc is None or corr is None:
            raise tt.TB('the returned result object lacks one of x / fun / unc / corr')
        return tt.T('({| r_x := %s; r_fun := %s; r_unc := %s |}, %s)' % (self.typed(x, LA), self.typed(fun, F), self.opt_term(unc, LA), self.opt_term(corr, CORR)), RESULT)

    # ---- calls -----------------------------------------------------------------------------------------------------------------
    def call(self, e, st):
        if not (isinstance(e.func, ast.Name) and e.func.id == 'list'):
            f = self.expr(e.func, st)
            if isinstance(f, tt.T) and f.ty in (STITCH, OBJ) and not any(isinstance(a, ast.Starred) for a in e.args) and not any(k.arg is None for k in e.keywords):
                args = [self.expr(a, st) for a in e.args]
                kwargs = {k.arg: self.expr(k.value, st) for k in e.keywords}
                if f.ty == STITCH:
                    if len(args) != 1 or set(kwargs) - {'stitch_with'}:
                        raise tt.TB('call of a stitch_pars callable (line %d)' % e.lineno)
                    sw = 'None' if 'stitch_with' not in kwargs else '(Some %s)' % self.typed(kwargs['stitch_with'], LA)
                    return tt.T('(%s %s %s)' % (f.s, sw, self.typed(args[0], LA)), LA)
                if len(args) != 3 or kwargs or not ext(args[1], 'data') or not ext(args[2], 'pdf'):
                    raise tt.TB('call of the objective (line %d) is not objective(pars, data, pdf)' % e.lineno)
                return tt.T('(%s %s)' % (f.s, self.typed(args[0], LA)), FRES)
        return super().call(e, st)

    def call_builtin(self, f, args, kwargs, e, st):
        if f.tag == 'dict' and not args:
            return tt.Dct(kwargs)
        if f.tag == 'tensorlib.tolist' and len(args) == 1 and not kwargs:
            return args[0]
        if f.tag == 'tensorlib.astensor' and len(args) == 1 and ext(args[0], 'data') and not kwargs:
            return args[0]
        return super().call_builtin(f, args, kwargs, e, st)

    def call_ext(self, f, args, kwargs, node, st):
        tag = f.tag
        ln = node.lineno
        if tag == 'getattr' and len(args) == 3 and not kwargs and self.is_obj(args[0]) and isinstance(args[1], tt.S) and isinstance(args[2], tt.S) and args[2].v is None:
            if args[1].v == 'unc':
                return tt.T('(o_unc A F %s)' % args[0].s, tt.OPTION(LA))
            if args[1].v == 'corr':
                return tt.T('(corr_of %s)' % args[0].s, tt.OPTION(CORR))
        if tag == 'np.where' and len(args) == 3 and not kwargs and ext(args[0], 'minuit.fixed') and isinstance(args[1], tt.S) and args[1].v == 0.0 \
                and not isinstance(args[1].v, bool):
            kw = self.kw_of.get(args[0].data.s)
            if kw is None:
                raise tt.TB('minuit.fixed of a result whose optimiser call is unknown (line %d)' % ln)
            return tt.T('(where_fixed A zero 0 (map fst (k_fixed A %s)) %s)' % (kw, self.typed(args[2], LA)), LA)
        if tag == 'tensorlib.zeros' and len(args) == 1 and not kwargs and isinstance(args[0], tt.T) and args[0].ty == tt.NAT:
            return tt.T('(repeat zero %s)' % args[0].s, LA)
        if tag == 'tensorlib.gather' and len(args) == 2 and not kwargs:
            return tt.T('(gather A zero %s %s)' % (self.typed(args[0], LA), self.typed(args[1], LNAT)), LA)
        if tag == 'tensorlib.stack' and len(args) == 1 and set(kwargs) == {'axis'} and isinstance(kwargs['axis'], tt.S) and kwargs['axis'].v == 1:
            return tt.T('(zipstar %s)' % self.typed(self.as_term(args[0]), CORR), CORR)
        if tag == 'zip' and not args and not kwargs:
            raise tt.TB('zip() (line %d)' % ln)
        if tag == '_TensorViewer' and len(args) == 1 and not kwargs and isinstance(args[0], tt.Lst) and len(args[0].items) == 2:
            return tt.T('(mk_viewer [%s; %s])' % tuple(self.typed(x, LNAT) for x in args[0].items), VIEWER)
        if tag == 'viewer.stitch' and len(args) == 1 and not kwargs and isinstance(args[0], tt.Lst) and len(args[0].items) == 2:
            return tt.T('(stitch A zero %s [%s; %s])' % ((f.data.s,) + tuple(self.typed(x, LA) for x in args[0].items)), LA)
        if tag == '_make_stitch_pars':
            fn = facts.find_func(self.trees['common'], '_make_stitch_pars')
            bound, params, extra = tt.bind_call(fn, args, kwargs)
            if params != ['tv', 'fixed_values'] or extra:
                raise tt.TB('_make_stitch_pars: signature changed')
            dfl = tt.defaults_of(fn)
            if any(not (isinstance(dfl.get(p), ast.Constant) and dfl[p].value is None) for p in params):
                raise tt.TB('_make_stitch_pars: defaults are not None')
            tv = self.opt_term(bound.get('tv', tt.S(None)), VIEWER)
            fv = self.opt_term(bound.get('fixed_values', tt.S(None)), LA)
            return tt.T('(gen_make_stitch_pars A zero %s %s)' % (tv, fv), STITCH)
        if tag == '_get_tensor_shim' and not args and not kwargs:
            return tt.Ext('wrap_objective')
        if tag == 'wrap_objective':
            fn = facts.find_func(self.trees['opt_numpy'], 'wrap_objective')
            bound, params, extra = tt.bind_call(fn, args, kwargs)
            jp = bound.get('jit_pieces')
            sp = bound.get('stitch_pars')
            ok = (ext(bound.get('objective'), 'objective') and ext(bound.get('data'), 'data') and ext(bound.get('pdf'), 'pdf') and isinstance(sp, (tt.T, tt.Fun))
                  and isinstance(bound.get('do_grad'), tt.T) and bound['do_grad'].s == 'do_grad' and isinstance(jp, tt.Dct) and not extra)
            if not ok:
                raise tt.TB('the objective wrapper (line %d) is not called with (objective, data, pdf, stitch_pars, do_grad=do_grad, jit_pieces={..})' % ln)
            want = {'fixed_idx': LNAT, 'variable_idx': LNAT, 'fixed_values': LA, 'do_stitch': tt.BOOL}
            if set(jp.items) != set(want):
                raise tt.TB('jit_pieces has keys %r (line %d)' % (sorted(jp.items), ln))
            for k, ty in want.items():
                self.typed(jp.items[k], ty)
            self.flags['jit_pieces'] = {k: jp.items[k].s for k in want}
            return tt.Ext('objective_and_grad', self.as_term(sp).s)
        if tag in ('self._get_minimizer', 'self._minimize'):
            names = ['func', 'x0', 'bounds', 'fixed_vals', 'do_grad']
            pos = {'self._get_minimizer': ['func', 'x0', 'bounds'], 'self._minimize': ['minimizer', 'func', 'x0']}[tag]
            if len(args) != len(pos):
                raise tt.TB('%s (line %d): positional arguments' % (tag, ln))
            b = dict(zip(pos, args))
            for k, v in kwargs.items():
                if k in b:
                    raise tt.TB('%s (line %d): %s bound twice' % (tag, ln, k))
                b[k] = v
            for k in names:
                w = st.env.get(k)
                if b.get(k) is not w or w is None:
                    raise tt.TB('%s (line %d) does not receive the caller\'s %s' % (tag, ln, k))
            allowed = set(names) | ({'par_names'} if tag == 'self._get_minimizer' else {'minimizer', 'options'})
            if set(b) - allowed:
                raise tt.TB('%s (line %d): unexpected arguments %r' % (tag, ln, sorted(set(b) - allowed)))
            if tag == 'self._get_minimizer':
                return tt.Ext('minimizer')
            if not ext(b.get('minimizer'), 'minimizer'):
                raise tt.TB('self._minimize (line %d) does not receive the minimizer' % ln)
            e = st.env
            fv = e['fixed_vals']
            kw = '{| k_x0 := %s; k_bounds := %s; k_fixed := %s |}' % (self.typed(e['x0'], LA), self.typed(e['bounds'], tt.LIST(BND)), self.typed(fv, tt.LIST(FV)))
            if getattr(e['x0'], 'kwrec', None) is not None and all(getattr(e[k], 'kwrec', None) == e['x0'].kwrec for k in ('bounds', 'fixed_vals')):
                kw = e['x0'].kwrec                # the three fields of one record: the record itself
            r = tt.T('(optimiser %s %s %s)' % (self.typed(e['do_grad'], tt.BOOL), self.typed(e['func'], OBJ), kw), OPTRES)
            self.kw_of[r.s] = kw
            return r
        if tag == 'shim':
            fn = facts.find_func(self.trees['common'], 'shim')
            bound, params, extra = tt.bind_call(fn, args, kwargs)
            if extra or set(bound) != set(params):
                raise tt.TB('shim (line %d): not every parameter is given' % ln)
            if not (ext(bound['objective'], 'objective') and ext(bound['data'], 'data') and ext(bound['pdf'], 'pdf')):
                raise tt.TB('shim (line %d) does not receive (objective, data, pdf)' % ln)
            s = '(gen_shim A zero npars %s %s %s %s)' % (self.typed(bound['init_pars'], LA), self.typed(bound['par_bounds'], tt.LIST(BND)),
                                                        self.opt_term(bound['fixed_vals'], tt.LIST(FV)), self.typed(bound['do_stitch'], tt.BOOL))
            self.shim_ctx[s] = dict(do_grad=bound['do_grad'])
            return tt.T(s, tt.PROD(KW, STITCH))
        raise tt.TB('call of %r (line %d)' % (f, ln))

    def call_star(self, f, e, st):
        if ext(f, 'zip') and len(e.args) == 1 and isinstance(e.args[0], ast.Starred) and not e.keywords:
            m = self.expr(e.args[0].value, st)                 # zip(*rows)
            return tt.T('(zipstar %s)' % self.typed(m if isinstance(m, tt.T) else self.as_term(m), CORR), CORR)
        if isinstance(f, tt.Ext) and f.tag in ('opt.minimize', 'fit') and len(e.keywords) == 1 and e.keywords[0].arg is None and not any(isinstance(a, ast.Starred) for a in e.args):
            kw = self.expr(e.keywords[0].value, st)
            if not ext(kw, 'kwargs'):
                raise tt.TB('** of something else than the caller\'s kwargs (line %d)' % e.lineno)
            args = [self.expr(a, st) for a in e.args]
            if f.tag == 'opt.minimize':
                cls = facts.find_class(self.trees['mixins'], 'OptimizerMixin')
                bound, params, extra = tt.bind_call(facts.find_func(cls, 'minimize'), args, {}, skip_self=True)
                if not (ext(bound.get('objective'), 'twice_nll') and ext(bound.get('data'), 'data') and ext(bound.get('pdf'), 'pdf')) or set(bound) != set(params[:6]):
                    raise tt.TB('opt.minimize (line %d) is not called with (twice_nll, data, pdf, init_pars, par_bounds, fixed_vals, **kwargs)' % e.lineno)
                return tt.T('(%s A zero F optimiser wrap corr_of objective npars %s %s (Some %s) do_grad do_stitch)' % (
                    self.variant, self.typed(bound['init_pars'], LA), self.typed(bound['par_bounds'], tt.LIST(BND)), self.typed(bound['fixed_vals'], tt.LIST(FV))), 'result')
            bound, params, extra = tt.bind_call(facts.find_func(self.trees['mle'], 'fit'), args, {})
            if not (ext(bound.get('data'), 'data') and ext(bound.get('pdf'), 'pdf')) or set(bound) != {'data', 'pdf', 'init_pars', 'par_bounds', 'fixed_params'}:
                raise tt.TB('fit (line %d) is not called with (data, pdf, init_pars, par_bounds, fixed_params, **kwargs)' % e.lineno)
            return tt.T('(%s A zero F leb optimiser wrap corr_of objective npars sugg_init sugg_bounds sugg_fixed %s %s %s do_grad do_stitch)' % (
                self.variant.replace('gen_minimize', 'gen_fit'), self.opt_term(bound['init_pars'], LA), self.opt_term(bound['par_bounds'], tt.LIST(BND)),
                self.opt_term(bound['fixed_params'], tt.LIST(tt.BOOL))), 'result')
        raise tt.TB('*args / **kwargs in a call (line %d)' % e.lineno)

    def effect_call(self, e, st):
        if isinstance(e, ast.Call) and isinstance(e.func, ast.Attribute):
            base = self.expr(e.func.value, st)
            if ext(base, 'log') and e.func.attr in ('error', 'debug', 'info'):
                return
        raise tt.TB('expression statement (line %d)' % e.lineno)

    # ---- statements that only concern parameter names (handed to the optimiser for labelling) -------------------------------------
    def skip_stmt(self, s, st):
        if not isinstance(s, (ast.Assign, ast.If, ast.For, ast.Try)):
            return False
        stored = set()
        for n in ast.walk(s):
            if isinstance(n, (ast.Call, ast.Raise, ast.Return, ast.Yield, ast.Await, ast.Lambda, ast.FunctionDef, ast.Delete, ast.Global, ast.Nonlocal)):
                return False
            if isinstance(n, ast.Name) and isinstance(n.ctx, ast.Store):
                stored.add(n.id)
            if isinstance(n, (ast.Subscript, ast.Attribute)) and isinstance(n.ctx, ast.Store):
                b = n.value
                while isinstance(b, (ast.Subscript, ast.Attribute)):
                    b = b.value
                if not isinstance(b, ast.Name):
                    return False
                stored.add(b.id)
        if stored and stored <= OPAQUE and 'par_names' in stored:
            st.env['par_names'] = tt.Ext('opaque:par_names')
            return True
        return False

    # ---- calls of other translated functions that are inlined ---------------------------------------------------------------------
    def inline_target(self, call, st):
        f = call.func
        if isinstance(f, ast.Attribute) and isinstance(f.value, ast.Name) and f.value.id == 'self' and f.attr in ('_internal_minimize', '_internal_postprocess'):
            fn = facts.find_func(facts.find_class(self.trees['mixins'], 'OptimizerMixin'), f.attr)
            if f.attr == '_internal_minimize':
                # self._internal_minimize(**minimizer_kwargs, options=kwargs, par_names=par_names)
                star = [k for k in call.keywords if k.arg is None]
                named = {k.arg: self.expr(k.value, st) for k in call.keywords if k.arg is not None}
                if call.args or len(star) != 1 or set(named) != {'options', 'par_names'}:
                    raise tt.TB('_internal_minimize (line %d) is not called with (**minimizer_kwargs, options=.., par_names=..)' % call.lineno)
                kw = self.expr(star[0].value, st)
                if not (isinstance(kw, tt.T) and kw.ty == KW and getattr(kw, 'shim', None) in self.shim_ctx):
                    raise tt.TB('_internal_minimize (line %d): ** of something else than the kwargs returned by shim' % call.lineno)
                if not ext(named['options'], 'kwargs') or not ext(named['par_names'], 'opaque:par_names'):
                    raise tt.TB('_internal_minimize (line %d): options / par_names' % call.lineno)
                dg = self.shim_ctx[kw.shim]['do_grad']
                env = {}
                for k, fld, ty in (('x0', 'k_x0', LA), ('bounds', 'k_bounds', tt.LIST(BND)), ('fixed_vals', 'k_fixed', tt.LIST(FV))):
                    env[k] = tt.T('(%s A %s)' % (fld, kw.s), ty)
                    env[k].kwrec = kw.s
                # func: the objective wrapped (by the wrapper the backend selects) around the stitch_pars of the same shim call
                env['func'] = tt.T('(wrap objective (snd %s))' % kw.shim, OBJ)
                env['do_grad'] = dg
                env['options'] = named['options']
                env['par_names'] = named['par_names']
                params = [a.arg for a in fn.args.args]
                if params != ['self', 'func', 'x0', 'do_grad', 'bounds', 'fixed_vals', 'options', 'par_names']:
                    raise tt.TB('_internal_minimize: signature changed')
                return fn, tt.St(env=env, attrs=st.attrs, warns=st.warns)
            args = [self.expr(a, st) for a in call.args]
            kwargs = {k.arg: self.expr(k.value, st) for k in call.keywords}
            bound, params, extra = tt.bind_call(fn, args, kwargs, skip_self=True)
            for p, dv in tt.defaults_of(fn).items():
                if p not in bound:
                    bound[p] = self.expr(dv, st)
            if set(bound) != set(params) or extra:
                raise tt.TB('_internal_postprocess (line %d): arguments' % call.lineno)
            return fn, tt.St(env=bound, attrs=st.attrs, warns=st.warns)
        if isinstance(f, ast.Name) and f.id == '_validate_fit_inputs' and f.id not in st.env:
            fn = facts.find_func(self.trees['mle'], '_validate_fit_inputs')
            bound, params, extra = tt.bind_call(fn, [self.expr(a, st) for a in call.args], {k.arg: self.expr(k.value, st) for k in call.keywords})
            if set(bound) != set(params) or extra:
                raise tt.TB('_validate_fit_inputs (line %d): arguments' % call.lineno)
            return fn, tt.St(env=bound, attrs=st.attrs, warns=st.warns)
        return None

    def assign(self, target, val, st, node):
        # minimizer_kwargs, stitch_pars = shim(..): remember which shim call the record comes from
        if isinstance(target, ast.Tuple) and isinstance(val, tt.T) and val.s in self.shim_ctx and len(target.elts) == 2:
            super().assign(target, val, st, node)
            t0 = target.elts[0]
            if isinstance(t0, ast.Name) and isinstance(st.env.get(t0.id), tt.T):
                st.env[t0.id].shim = val.s
            return
        super().assign(target, val, st, node)


# ------------------------------------------------------------------------------------------------------------------------------
SIG_OPT = '(A : Type) (zero : A) (F : Type) (optimiser : bool -> (list A -> F) -> kwargs A -> optres A F) (wrap : (list A -> F) -> (option (list A) -> list A -> list A) -> list A -> F) (corr_of : optres A F -> option (list (list A))) (objective : list A -> F) (npars : nat)'
VARIANTS = [('gen_minimize_pars', dict()), ('gen_minimize_val', dict(return_fitted_val=True)), ('gen_minimize_obj', dict(return_result_obj=True)),
            ('gen_minimize_corr_val_obj', dict(return_correlations=True, return_fitted_val=True, return_result_obj=True)),
            ('gen_minimize_unc', dict(return_uncertainties=True))]
RET_TY = {'gen_minimize_pars': 'list A', 'gen_minimize_val': '(list A * F)', 'gen_minimize_obj': '(list A * (fitres A F * option (list (list A))))',
          'gen_minimize_corr_val_obj': '(list A * option (list (list A)) * F * (fitres A F * option (list (list A))))',
          'gen_minimize_unc': '(list A + list (list A))'}      # parameters alone (no uncertainties available) or (value, uncertainty) pairs


def params_of(fn):
    a = fn.args
    if a.posonlyargs or a.vararg or a.kwonlyargs:
        raise tt.TB('%s: signature outside the translator' % fn.name)
    return [x.arg for x in a.args], (a.kwarg.arg if a.kwarg else None)


def const_default(fn, name, value):
    d = tt.defaults_of(fn).get(name)
    return isinstance(d, ast.Constant) and d.value is value and type(d.value) is type(value)


def generate():
    """returns (Coq text of gen/FitGen.v, info).  Raises facts.TieBroken."""
    trees, paths = {}, {}
    for k, rel in (('common', 'optimize/common.py'), ('mixins', 'optimize/mixins.py'), ('mle', 'infer/mle.py'), ('opt_numpy', 'optimize/opt_numpy.py'),
                   ('opt_jax', 'optimize/opt_jax.py'), ('opt_pytorch', 'optimize/opt_pytorch.py'), ('opt_tflow', 'optimize/opt_tflow.py')):
        trees[k], paths[k] = facts.parse(rel)
    text, info = GEN_HEADER + PRELUDE, {}

    def header(k, rel, fn):
        return '\n' + tt.source_comment(rel, fn, paths[k])

    # ---- _make_stitch_pars(tv=None, fixed_values=None)
    fn = facts.find_func(trees['common'], '_make_stitch_pars')
    if params_of(fn) != (['tv', 'fixed_values'], None) or not const_default(fn, 'tv', None) or not const_default(fn, 'fixed_values', None):
        raise tt.TB('_make_stitch_pars: signature is not (tv=None, fixed_values=None)')
    x = FX(trees)
    x.locals = tt.assigned_locals(fn)
    env = {'tv': tt.T('tv', tt.OPTION(VIEWER), ('name', 'tv')), 'fixed_values': tt.T('fixed_values', tt.OPTION(LA), ('name', 'fixed_values'))}
    o = x.block(fn.body, tt.St(env=env))

    def leaf_fun(l):
        if not isinstance(l, tt.Ret):
            raise tt.TB('_make_stitch_pars can end without returning a callable')
        t = x.as_term(l.val)
        if t.ty != STITCH:
            raise tt.TB('_make_stitch_pars returns a %r' % (t.ty,))
        return t.s
    body = tt.render2(o, leaf_fun).replace('x_tv', 'tv').replace('x_fixed_values', 'fixed_values')
    text += header('common', 'optimize/common.py', fn)
    text += 'Definition gen_make_stitch_pars (A : Type) (zero : A) (tv : option viewer) (fixed_values : option (list A)) : option (list A) -> list A -> list A :=\n  %s.\n' % body
    info['gen_make_stitch_pars'] = len(body)

    # ---- shim(objective, data, pdf, init_pars, par_bounds, fixed_vals=None, do_grad=False, do_stitch=False)
    fn = facts.find_func(trees['common'], 'shim')
    if params_of(fn) != (['objective', 'data', 'pdf', 'init_pars', 'par_bounds', 'fixed_vals', 'do_grad', 'do_stitch'], None) \
            or not const_default(fn, 'fixed_vals', None) or not const_default(fn, 'do_grad', False) or not const_default(fn, 'do_stitch', False):
        raise tt.TB('shim: signature changed')
    x = FX(trees)
    x.locals = tt.assigned_locals(fn)
    env = {'objective': tt.Ext('objective'), 'data': tt.Ext('data'), 'pdf': tt.Ext('pdf'), 'init_pars': tt.T('init_pars', LA), 'par_bounds': tt.T('par_bounds', tt.LIST(BND)),
           'fixed_vals': tt.T('fixed_vals', tt.OPTION(tt.LIST(FV))), 'do_grad': tt.T('do_grad', tt.BOOL), 'do_stitch': tt.T('do_stitch', tt.BOOL)}
    o = tt.only_ret(x.block(fn.body, tt.St(env=env)), 'shim')
    if not (isinstance(o.val, tt.Tup) and len(o.val.items) == 2):
        raise tt.TB('shim does not return a pair')
    kw, sp = x.as_term(o.val.items[0]), x.as_term(o.val.items[1])
    if kw.ty != KW or sp.ty != STITCH:
        raise tt.TB('shim returns (%r, %r)' % (kw.ty, sp.ty))
    if x.flags.get('kwargs_func_stitch') != sp.s:
        raise tt.TB('shim: the objective is not wrapped around the stitch_pars callable that is returned')
    text += header('common', 'optimize/common.py', fn)
    text += ('Definition gen_shim (A : Type) (zero : A) (npars : nat) (init_pars : list A) (par_bounds : list (A * A)) (fixed_vals : option (list (nat * A))) '
             '(do_stitch : bool) : kwargs A * (option (list A) -> list A -> list A) :=\n  (%s, %s).\n' % (kw.s, sp.s))
    jp = x.flags['jit_pieces']
    text += '(* the pieces handed to the jit-compiled objective of the jax backend *)\n'
    for k, ty in (('fixed_idx', 'list nat'), ('variable_idx', 'list nat'), ('fixed_values', 'list A')):
        text += 'Definition gen_shim_%s (A : Type) (zero : A) (npars : nat) (fixed_vals : option (list (nat * A))) : %s :=\n  %s.\n' % (k, ty, jp[k])
    if jp['do_stitch'] != 'do_stitch':
        raise tt.TB('shim: jit_pieces[do_stitch] is not the do_stitch argument')
    info['gen_shim'] = len(kw.s) + len(sp.s)

    # ---- _get_tensor_shim: every backend name selects the wrap_objective of its own module
    fn = facts.find_func(trees['common'], '_get_tensor_shim')
    sel = {}
    for n in fn.body:
        if isinstance(n, ast.If):
            t = n.test
            ok = (isinstance(t, ast.Compare) and dump_is(t.left, 'tensorlib.name') and len(t.ops) == 1 and isinstance(t.ops[0], ast.Eq)
                  and isinstance(t.comparators[0], ast.Constant) and isinstance(t.comparators[0].value, str) and not n.orelse and len(n.body) == 2
                  and isinstance(n.body[0], ast.ImportFrom) and len(n.body[0].names) == 1 and n.body[0].names[0].name == 'wrap_objective'
                  and isinstance(n.body[1], ast.Return) and isinstance(n.body[1].value, ast.Name) and n.body[1].value.id == n.body[0].names[0].asname)
            if not ok:
                raise tt.TB('_get_tensor_shim: branch shape (line %d)' % n.lineno)
            sel[t.comparators[0].value] = n.body[0].module
    want = {'numpy': 'pyhf.optimize.opt_numpy', 'tensorflow': 'pyhf.optimize.opt_tflow', 'pytorch': 'pyhf.optimize.opt_pytorch', 'jax': 'pyhf.optimize.opt_jax'}
    if sel != want:
        raise tt.TB('_get_tensor_shim: selection table is %r' % (sel,))
    info['wrapper_selection'] = sel

    # ---- opt_numpy.wrap_objective (do_grad symbolic), opt_pytorch / opt_tflow .wrap_objective without gradient: the function handed to the optimiser
    for key, rel, dg, gname in (('opt_numpy', 'optimize/opt_numpy.py', tt.T('do_grad', tt.BOOL), 'gen_wrap_objective_numpy'),
                                ('opt_pytorch', 'optimize/opt_pytorch.py', tt.S(False), 'gen_wrap_objective_pytorch_nograd'),
                                ('opt_tflow', 'optimize/opt_tflow.py', tt.S(False), 'gen_wrap_objective_tflow_nograd')):
        fn = facts.find_func(trees[key], 'wrap_objective')
        if params_of(fn) != (['objective', 'data', 'pdf', 'stitch_pars', 'do_grad', 'jit_pieces'], None) or not const_default(fn, 'do_grad', False):
            raise tt.TB('%s.wrap_objective: signature changed' % key)
        x = FX(trees)
        x.locals = tt.assigned_locals(fn)
        env = {'objective': tt.T('objective', OBJ), 'data': tt.Ext('data'), 'pdf': tt.Ext('pdf'), 'stitch_pars': tt.T('stitch_pars', STITCH), 'do_grad': dg,
               'jit_pieces': tt.Ext('jit_pieces')}
        o = x.block(fn.body, tt.St(env=env))

        def leaf_wrap(l):
            if isinstance(l, tt.Exc):
                if l.name != 'Unsupported':
                    raise tt.TB('%s.wrap_objective raises %s' % (key, l.name))
                return 'None'
            if not (isinstance(l, tt.Ret) and isinstance(l.val, tt.Fun) and l.val.params == ['pars'] and not l.val.defaults):
                raise tt.TB('%s.wrap_objective does not return a function of pars' % key)
            v = x.call_fun(l.val, [tt.T('pars', LA)], {}, tt.St(), fn)
            if isinstance(v, tt.T) and v.ty == FRES:
                raise tt.TB('the wrapped objective returns the one-element tensor itself')
            if not (isinstance(v, tt.T) and v.ty == F):
                raise tt.TB('the wrapped objective returns %r' % (v,))
            return '(Some (fun pars : list A => %s))' % v.s
        text += header(key, rel, fn)
        text += ('Definition %s (A F : Type) (objective : list A -> F) (stitch_pars : option (list A) -> list A -> list A)%s '
                 ': option (list A -> F) :=\n  %s.\n' % (gname, ' (do_grad : bool)' if isinstance(dg, tt.T) else '', tt.render2(o, leaf_wrap)))
        info[gname] = True

    # ---- opt_jax._final_objective
    fn = facts.find_func(trees['opt_jax'], '_final_objective')
    if params_of(fn) != (['pars', 'data', 'fixed_values', 'fixed_idx', 'variable_idx', 'do_stitch', 'objective', 'pdf'], None):
        raise tt.TB('opt_jax._final_objective: signature changed')
    x = FX(trees)
    x.locals = tt.assigned_locals(fn)
    env = {'pars': tt.T('pars', LA), 'data': tt.Ext('data'), 'fixed_values': tt.T('fixed_values', LA), 'fixed_idx': tt.T('fixed_idx', LNAT), 'variable_idx': tt.T('variable_idx', LNAT),
           'do_stitch': tt.T('do_stitch', tt.BOOL), 'objective': tt.T('objective', OBJ), 'pdf': tt.Ext('pdf')}
    o = tt.only_ret(x.block(fn.body, tt.St(env=env)), 'opt_jax._final_objective')
    text += header('opt_jax', 'optimize/opt_jax.py', fn)
    text += ('Definition gen_final_objective_jax (A : Type) (zero : A) (F : Type) (objective : list A -> F) (pars fixed_values : list A) (fixed_idx variable_idx : list nat) '
             '(do_stitch : bool) : F :=\n  %s.\n' % x.typed(o.val, F))
    # the closures of opt_jax.wrap_objective hand exactly the jit_pieces to _final_objective
    wfn = facts.find_func(trees['opt_jax'], 'wrap_objective')
    pat = ("(pars, data, jit_pieces['fixed_values'], tuple(jit_pieces['fixed_idx']), tuple(jit_pieces['variable_idx']), jit_pieces['do_stitch'], objective, pdf)")
    calls = [n for n in ast.walk(wfn) if isinstance(n, ast.Call) and isinstance(n.func, ast.Name) and n.func.id in ('_jitted_objective_and_grad', '_jitted_objective')]
    if sorted(c.func.id for c in calls) != ['_jitted_objective', '_jitted_objective_and_grad'] or any(
            tt.dump(ast.Tuple(elts=c.args, ctx=ast.Load())) != tt.pattern(pat) or c.keywords for c in calls):
        raise tt.TB('opt_jax.wrap_objective: the jitted objective is not called with %s' % pat)
    jit = {}
    for n in trees['opt_jax'].body:
        if isinstance(n, ast.Assign) and len(n.targets) == 1 and isinstance(n.targets[0], ast.Name) and n.targets[0].id.startswith('_jitted_'):
            jit[n.targets[0].id] = tt.dump(n.value)
    if jit != {'_jitted_objective_and_grad': tt.pattern('jax.jit(jax.value_and_grad(_final_objective, argnums=0), static_argnums=(3, 4, 5, 6, 7))'),
               '_jitted_objective': tt.pattern('jax.jit(_final_objective, static_argnums=(3, 4, 5, 6, 7))')}:
        raise tt.TB('opt_jax: the jitted functions are not jax.jit of _final_objective (value_and_grad in argument 0)')
    info['gen_final_objective_jax'] = True

    # ---- OptimizerMixin.minimize (with _internal_minimize and _internal_postprocess inlined), one definition per set of return flags
    cls = facts.find_class(trees['mixins'], 'OptimizerMixin')
    fn = facts.find_func(cls, 'minimize')
    want = ['self', 'objective', 'data', 'pdf', 'init_pars', 'par_bounds', 'fixed_vals', 'return_fitted_val', 'return_result_obj', 'return_uncertainties',
            'return_correlations', 'do_grad', 'do_stitch']
    if params_of(fn) != (want, 'kwargs') or not const_default(fn, 'fixed_vals', None) or not const_default(fn, 'do_stitch', False) or not const_default(fn, 'do_grad', None) \
            or any(not const_default(fn, f, False) for f in want[7:11]):
        raise tt.TB('OptimizerMixin.minimize: signature / defaults changed')
    text += header('mixins', 'optimize/mixins.py', fn)
    text += tt.source_comment('optimize/mixins.py', facts.find_func(cls, '_internal_minimize'), paths['mixins'])
    text += tt.source_comment('optimize/mixins.py', facts.find_func(cls, '_internal_postprocess'), paths['mixins'])
    for name, flags in VARIANTS:
        x = FX(trees)
        x.locals = tt.assigned_locals(fn)
        env = {'objective': tt.Ext('objective'), 'data': tt.Ext('data'), 'pdf': tt.Ext('pdf'), 'init_pars': tt.T('init_pars', LA), 'par_bounds': tt.T('par_bounds', tt.LIST(BND)),
               'fixed_vals': tt.T('fixed_vals', tt.OPTION(tt.LIST(FV))), 'do_grad': tt.T('do_grad', tt.BOOL), 'do_stitch': tt.T('do_stitch', tt.BOOL), 'kwargs': tt.Ext('kwargs'),
               }
        for f in ('return_fitted_val', 'return_result_obj', 'return_correlations', 'return_uncertainties'):
            env[f] = tt.S(bool(flags.get(f, False)))
        o = x.block(fn.body, tt.St(env=env))

        def leaf_min(l):
            if isinstance(l, tt.Exc):
                if l.name not in ('FailedMinimization', 'UnboundLocalError'):
                    raise tt.TB('minimize raises %s' % l.name)
                return ERR[l.name]
            if not isinstance(l, tt.Ret):
                raise tt.TB('minimize can end without a return')
            vals = l.val.items if isinstance(l.val, tt.Tup) else [l.val]
            if name == 'gen_minimize_unc':
                if len(vals) == 1 and isinstance(vals[0], tt.T) and vals[0].ty in (LA, CORR):
                    return '(inr (%s %s))' % ('inl' if vals[0].ty == LA else 'inr', vals[0].s)
                raise tt.TB('minimize(return_uncertainties=True) returns %r' % (vals,))
            out = []
            for v in vals:
                if x.is_obj(v):
                    out.append(x.result_term(v, l.st).s)
                elif isinstance(v, tt.S) and v.v is None:
                    out.append('None')
                elif isinstance(v, tt.T) and v.ty == CORR:
                    out.append('(Some %s)' % v.s)
                elif isinstance(v, tt.T) and v.ty in (LA, F, tt.OPTION(CORR)):
                    out.append(v.s)
                else:
                    raise tt.TB('minimize returns %r' % (v,))
            return '(inr %s)' % (out[0] if len(out) == 1 else '(' + ', '.join(out) + ')')
        body = tt.render2(o, leaf_min)
        text += ('Definition %s %s (init_pars : list A) (par_bounds : list (A * A)) (fixed_vals : option (list (nat * A))) (do_grad do_stitch : bool) : gen_err + %s :=\n  %s.\n'
                 % (name, SIG_OPT, RET_TY[name], body))
        info[name] = len(body)

    # ---- mle.fit (with _validate_fit_inputs inlined) and mle.fixed_poi_fit, per set of return flags
    SIG_FIT = SIG_OPT.replace('(F : Type) ', '(F : Type) (leb : A -> A -> bool) ') + ' (sugg_init : list A) (sugg_bounds : list (A * A)) (sugg_fixed : list bool)'
    ARGS3 = '(init_pars : option (list A)) (par_bounds : option (list (A * A))) (fixed_params : option (list bool)) (do_grad do_stitch : bool)'
    for fname, want, extra_sig in (('fit', ['data', 'pdf', 'init_pars', 'par_bounds', 'fixed_params'], ''),
                                   ('fixed_poi_fit', ['poi_val', 'data', 'pdf', 'init_pars', 'par_bounds', 'fixed_params'], ' (poi_index : option nat) (poi_val : A)')):
        fn = facts.find_func(trees['mle'], fname)
        if params_of(fn) != (want, 'kwargs') or any(not const_default(fn, p, None) for p in ('init_pars', 'par_bounds', 'fixed_params')):
            raise tt.TB('mle.%s: signature / defaults changed' % fname)
        text += header('mle', 'infer/mle.py', fn)
        if fname == 'fit':
            text += tt.source_comment('infer/mle.py', facts.find_func(trees['mle'], '_validate_fit_inputs'), paths['mle'])
        for name, flags in VARIANTS:
            x = FX(trees)
            x.variant = name
            x.locals = tt.assigned_locals(fn)
            env = {'data': tt.Ext('data'), 'pdf': tt.Ext('pdf'), 'init_pars': tt.T('init_pars', tt.OPTION(LA)), 'par_bounds': tt.T('par_bounds', tt.OPTION(tt.LIST(BND))),
                   'fixed_params': tt.T('fixed_params', tt.OPTION(tt.LIST(tt.BOOL))), 'kwargs': tt.Ext('kwargs'), 'poi_val': tt.T('poi_val', A)}
            o = x.block(fn.body, tt.St(env=env))

            def leaf_fit(l):
                if isinstance(l, tt.Exc):
                    if l.name == 'ValueError' and isinstance(l.st.env.get('par_idx'), tt.T) and l.st.env['par_idx'].ty == tt.NAT:
                        return '(inl (GE (ValueError %s)))' % l.st.env['par_idx'].s
                    if l.name == 'UnspecifiedPOI':
                        return ERR[l.name]
                    raise tt.TB('%s raises %s' % (fname, l.name))
                if not (isinstance(l, tt.Ret) and isinstance(l.val, tt.T) and l.val.ty == 'result'):
                    raise tt.TB('%s does not end in the call of the next layer' % fname)
                return l.val.s
            body = tt.render2(o, leaf_fit)
            gname = name.replace('gen_minimize', 'gen_' + fname)
            text += 'Definition %s %s%s %s : gen_err + %s :=\n  %s.\n' % (gname, SIG_FIT, extra_sig, ARGS3, RET_TY[name], body)
            info[gname] = len(body)
    return text, info


def dump_is(node, src):
    return tt.dump(node) == tt.pattern(src)


def extract(ctx):
    text, info = generate()
    core.write_if_changed(os.path.join(core.COQ, 'gen', 'FitGen.v'), text)
    return dict(file='coq/gen/FitGen.v', definitions=sorted(k for k in info if k.startswith('gen_')), wrapper_selection=info.get('wrapper_selection'))
