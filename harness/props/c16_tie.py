"""C16 - tie to the source: pyhf/workspace.py (_join_items, _join_versions, _join_channels, _join_observations, _join_parameter_configs,
_join_measurements, Workspace.combine, _prune_and_rename, prune, rename, sorted) translated to coq/gen/WorkspaceGen.v on every run
(translator: harness/props/tie_translate.py, class Exec3; fail closed).  The proofs that the translated definitions equal the hand model of
coq/Workspace.v are in coq/TieWorkspace.v; the theorems C16_source_is_model_* in coq/props/C16.v."""
import ast
import os

from harness import core, facts
from harness.props import tie_translate as tt

GEN_NAME = 'WorkspaceGen'
STR, NAT, BOOL = tt.STR, tt.NAT, tt.BOOL
QS = tt.LIST('Qc')
REL = 'workspace.py'
MODES = [('none', 'none'), ('outer', 'outer'), ('left outer', 'left'), ('right outer', 'right')]
MODE_NAME = dict(MODES)

GEN_HEADER = '''From Coq Require Import Bool Arith String QArith Qcanon List.
Require Import PV.Sort PV.Json PV.Workspace.
Import ListNotations.
Local Open Scope nat_scope.
Local Open Scope list_scope.
(* GENERATED on every run by harness/props/c16_tie.py from $VERIF_REPO/src/pyhf/workspace.py - do not edit.
   Reading of the python values (the trusted part of the translation):
   * a schema-valid workspace document and its parts are the records of PV.Workspace (d['name'] on a channel is c_name d, a dict display with the
     keys of a channel is a channel, dict(d, name=x) replaces one field; measurement['config'] has no record of its own); python == on two such
     documents is the decidable equality of the record type (<type>_eqb);
   * `join` is one of the four texts of Workspace.valid_joins: one definition per text (suffix none / outer / left / right), the text being a
     constant of the translation; _join_items is generic in python and translated at every item type it is called with (deep: with
     deep_merge_key='samples');
   * text sets are duplicate-free lists in order of first occurrence (dedup); collections.Counter(names).items() pairs every distinct name with
     count_str; dict.setdefault(k, []).append(x) is dl_append; keys.index(k) is index_of; l[i][key] = v is update_at; sort(key=..) is ssort / psort
     (stable insertion sort on String.leb / pair_leb: python's order of ASCII text); a `for` loop is fold_left / foldM / map / find_first;
   * copy.deepcopy / dict(..) / list(..) are the identity on values; the translator tracks which values are private copies and refuses an
     in-place update of one that is not (the caller's document);
   * Workspace(spec, validate=v) is `construct v spec` (schema validation: the structural predicate of the hand model; the object state set by
     _ChannelSummaryMixin / Workspace.__init__ is read as ws_channels / ws_samples / ws_modifiers / ws_measurement_names of the document);
     logging is not translated; exceptions are their classes (constructors of `err`); a parameter that may be None is an option. *)
'''

PRELUDE = '''Definition dflt_modifier : modifier := {| m_name := ""; m_type := ""; m_data := MNull |}.
Definition dflt_sample : sample := {| s_name := ""; s_data := []; s_mods := [] |}.
Definition dflt_channel : channel := {| c_name := ""; c_samples := [] |}.
Definition dflt_observation : observation := {| o_name := ""; o_data := [] |}.
Definition dflt_pconfig : pconfig := {| p_name := ""; p_inits := None; p_bounds := None; p_auxdata := None; p_factors := None; p_sigmas := None; p_fixed := None |}.
Definition dflt_measurement : measurement := {| me_name := ""; me_poi := ""; me_params := [] |}.
Definition dl_append {A} (d : list (string * list A)) (k : string) (x : A) : list (string * list A) :=         (* d.setdefault(k, []).append(x) *)
  if mem_str k (map fst d) then map (fun kv => if String.eqb (fst kv) k then (fst kv, snd kv ++ [x]) else kv) d else d ++ [(k, [x])].
'''

RECORDS = {
    'modifier': {'name': ('m_name', STR), 'type': ('m_type', STR), 'data': ('m_data', 'mdata')},
    'sample': {'name': ('s_name', STR), 'data': ('s_data', QS), 'modifiers': ('s_mods', tt.LIST('modifier'))},
    'channel': {'name': ('c_name', STR), 'samples': ('c_samples', tt.LIST('sample'))},
    'observation': {'name': ('o_name', STR), 'data': ('o_data', QS)},
    'pconfig': {'name': ('p_name', STR)},
    'measurement': {'name': ('me_name', STR), 'config': {'poi': ('me_poi', STR), 'parameters': ('me_params', tt.LIST('pconfig'))}},
    'workspace': {'channels': ('w_channels', tt.LIST('channel')), 'observations': ('w_observations', tt.LIST('observation')),
                  'measurements': ('w_measurements', tt.LIST('measurement')), 'version': ('w_version', STR)},
}
REC_ORDER = {'modifier': ['m_name', 'm_type', 'm_data'], 'sample': ['s_name', 's_data', 's_mods'], 'channel': ['c_name', 'c_samples'],
             'observation': ['o_name', 'o_data'], 'pconfig': ['p_name', 'p_inits', 'p_bounds', 'p_auxdata', 'p_factors', 'p_sigmas', 'p_fixed'],
             'measurement': ['me_name', 'me_poi', 'me_params'], 'workspace': ['w_channels', 'w_observations', 'w_measurements', 'w_version']}
EXC = {'InvalidWorkspaceOperation': 'InvalidWorkspaceOperation', 'ValueError': 'PyValueError', 'TypeError': 'PyTypeError', 'IndexError': 'PyIndexError'}
STRS, MAP = tt.LIST(STR), tt.DICT(STR, STR)


class Out:
    """the definitions generated so far (shared by the executors of one run)"""

    def __init__(self, tree, path):
        self.tree, self.path = tree, path
        self.cls = facts.find_class(tree, 'Workspace')
        self.defs, self.done = [], {}

    def hdr(self, fn):
        return '\n' + tt.source_comment(REL, fn, self.path)


class WX(tt.Exec3):
    records, rec_order, rec_open, exc_names = RECORDS, REC_ORDER, ('pconfig',), EXC
    rec_eqb = {k: k + '_eqb' for k in ('sample', 'channel', 'observation', 'pconfig', 'measurement')}
    rec_dflt = {k: 'dflt_' + k for k in RECORDS if k != 'workspace'}

    def __init__(self, out, w=None):
        super().__init__({'Workspace': out.cls})
        self.out, self.w = out, w                   # w: the term of the document of `self` (methods of Workspace)
        for name in ('_join_items', '_join_versions', '_join_channels', '_join_observations', '_join_parameter_configs', '_join_measurements'):
            self.gens[name] = (facts.find_func(out.tree, name), getattr(self, 'h' + name))
        self.gens[('Workspace', '_prune_and_rename')] = (facts.find_func(out.cls, '_prune_and_rename'), self.h_prune_and_rename)

    # ---- names -----------------------------------------------------------------------------------------------------------------------------
    def global_name(self, name, st):
        if name in self.gens:
            return tt.Ext('gen:' + name)
        if name == 'Workspace':
            return tt.Ext('class:Workspace')
        if name in ('len', 'tuple', 'list', 'dict', 'set', 'isinstance', 'log', 'copy', 'collections', 'exceptions'):
            return tt.Ext(name)
        raise tt.TB('unknown name %s' % name)

    def attr_ext(self, base, attr, node, st):
        if isinstance(base, tt.Ext) and base.tag == 'class:Workspace' and attr == 'valid_joins':
            return self.valid_joins()
        return super().attr_ext(base, attr, node, st)

    def valid_joins(self):
        for n in self.out.cls.body:
            tgt = n.target if isinstance(n, ast.AnnAssign) else (n.targets[0] if isinstance(n, ast.Assign) and len(n.targets) == 1 else None)
            if isinstance(tgt, ast.Name) and tgt.id == 'valid_joins':
                v = n.value
                if isinstance(v, ast.List) and all(isinstance(e, ast.Constant) and isinstance(e.value, str) for e in v.elts):
                    return tt.Lst([tt.S(e.value) for e in v.elts])
        raise tt.TB('Workspace.valid_joins is not a literal list of texts')

    def warning(self, msg, node):
        return 'tt'                                  # log.warning: not an observable of the model

    def self_attr(self, attr, node, st):
        if self.w is not None:
            r = {'modifiers': ('ws_modifiers', tt.LIST(tt.PROD(STR, STR))), 'samples': ('ws_samples', STRS), 'channels': ('ws_channels', STRS),
                 'measurement_names': ('ws_measurement_names', STRS)}.get(attr)
            if r is not None:
                return tt.mk('(%s %s)' % (r[0], self.w), r[1], 0)
            m = self.class_member(self.out.cls, attr)
            if m is not None and not m[1]:
                return tt.Method(tt.Obj(self.out.cls, {}, None), m[0])
        raise tt.TB('self.%s (line %d)' % (attr, node.lineno))

    def expr(self, e, st):
        if isinstance(e, ast.Subscript) and isinstance(e.value, ast.Name) and e.value.id == 'self' and 'self' not in st.env and self.w is not None:
            return self.subscript(tt.mk(self.w, 'workspace', 0), self.expr(e.slice, st), e)          # a Workspace is the dict of its document
        return super().expr(e, st)

    def call_builtin(self, f, args, kwargs, e, st):
        if f.tag == 'dict' and len(args) == 1 and not kwargs and isinstance(args[0], tt.T) and args[0].ty in self.records:
            return tt.mk(args[0].s, args[0].ty, max(1, min(tt.fresh_of(args[0]), 1)))                # dict(d): a new dict holding the same values
        return super().call_builtin(f, args, kwargs, e, st)

    def construct(self, cls, args, kwargs, node, st):
        if len(args) != 1 or set(kwargs) - {'validate'}:
            raise tt.TB('Workspace(..) arguments (line %d)' % node.lineno)
        v = kwargs.get('validate', tt.S(True))
        spec = self.as_typed(args[0], 'workspace')
        return self.emit_call('(construct %s %s)' % (self.boolterm(v), spec.s), 'workspace', True, base='w')

    def call(self, e, st):
        if isinstance(e.func, ast.Name) and e.func.id == 'cls' and isinstance(st.env.get('cls'), tt.Ext):
            if any(isinstance(a, ast.Starred) for a in e.args) or any(k.arg is None for k in e.keywords):
                raise tt.TB('cls(..) with * (line %d)' % e.lineno)
            return self.construct(self.out.cls, [self.expr(a, st) for a in e.args], {k.arg: self.expr(k.value, st) for k in e.keywords}, e, st)
        return super().call(e, st)

    def call_star(self, f, e, st):
        """f(a, *l) into a translated function: python binds the elements of l to the remaining parameters (TypeError unless the counts agree)"""
        if not (isinstance(f, tt.Ext) and f.tag.startswith('gen:')) or e.keywords:
            raise tt.TB('*args / **kwargs in a call (line %d)' % e.lineno)
        fn = self.gens[f.tag[4:]][0]
        pos, star = [], None
        for a in e.args:
            if isinstance(a, ast.Starred):
                if star is not None or a is not e.args[-1]:
                    raise tt.TB('* in the middle of a call (line %d)' % e.lineno)
                star = self.expr(a.value, st)
            else:
                pos.append(self.expr(a, st))
        if isinstance(star, tt.Lst):
            star = self.as_term(star)
        if not tt.is_seq(star) or fn.args.defaults or fn.args.vararg or fn.args.kwarg:
            raise tt.TB('*%r in a call (line %d)' % (star, e.lineno))
        k = len(fn.args.args) - len(pos)
        if k < 1:
            raise tt.TB('too many arguments (line %d)' % e.lineno)
        vs = [self.fresh_var('a') for _ in range(k)]
        self.pending.append(('tpl', '(match %s with [%s] => @@0@@ | _ => (Err PyTypeError) end)' % (star.s, '; '.join(vs))))
        return self.call_gen(f.tag[4:], pos + [tt.mk(v, star.ty[1], tt.fresh_of(star)) for v in vs], {}, e, st)

    # ---- `if join not in Workspace.valid_joins: raise ..`: a case split over the valid texts, `join` a constant in each case ------------------------
    def stmt(self, s, st, rest):
        if (isinstance(s, ast.If) and not s.orelse and len(s.body) == 1 and isinstance(s.body[0], ast.Raise) and isinstance(s.test, ast.Compare)
                and len(s.test.ops) == 1 and isinstance(s.test.ops[0], ast.NotIn) and isinstance(s.test.left, ast.Name)
                and isinstance(st.env.get(s.test.left.id), tt.T) and st.env[s.test.left.id].ty == STR):
            lst = self.expr(s.test.comparators[0], st)
            if isinstance(lst, tt.Lst) and lst.items and all(isinstance(x, tt.S) and isinstance(x.v, str) for x in lst.items):
                name, cur = s.test.left.id, st.env[s.test.left.id]
                cases = []
                for x in lst.items:
                    st2 = st.copy()
                    st2.env[name] = x
                    cases.append(self.block(list(rest), st2))
                cases.append(self.block(s.body, st.copy()))
                tpl = ''.join('(if String.eqb %s %s then @@%d@@ else ' % (cur.s, tt.coq_string(x.v), i) for i, x in enumerate(lst.items))
                tpl += '@@%d@@' % len(lst.items) + ')' * len(lst.items)
                del rest[:]
                return tt.Br2(tpl, cases)
        return super().stmt(s, st, rest)

    # ---- calls of the translated functions ----------------------------------------------------------------------------------------------------
    def mode_of(self, v, node):
        if isinstance(v, tt.S) and v.v in MODE_NAME:
            return v.v
        raise tt.TB('join is not one of the valid texts at a call (line %d): %r' % (node.lineno, v))

    def items_of(self, v, node):
        if isinstance(v, tt.Lst):
            v = self.as_term(v)
        if tt.is_seq(v) and v.ty[0] == 'list' and v.ty[1] in self.records:
            return v
        raise tt.TB('a list of documents was expected (line %d), got %r' % (node.lineno, v))

    def h_join_items(self, b, node, st):
        mode = self.mode_of(b['join'], node)
        l, r = self.items_of(b['left_items'], node), self.items_of(b['right_items'], node)
        key, deep = b['key'], b['deep_merge_key']
        if l.ty != r.ty or not (isinstance(key, tt.S) and isinstance(key.v, str)) or not (isinstance(deep, tt.S) and (deep.v is None or isinstance(deep.v, str))):
            raise tt.TB('_join_items arguments (line %d)' % node.lineno)
        name = gen_join_items(self.out, l.ty[1], mode, key.v, deep.v)
        return self.emit_call('(%s %s %s)' % (name, l.s, r.s), l.ty, False, fresh=2)

    def h_join_versions(self, b, node, st):
        self.mode_of(b['join'], node)
        gen_simple(self.out, '_join_versions')
        return self.emit_call('(gen_join_versions %s %s)' % (self.strterm(b['left_version'], node), self.strterm(b['right_version'], node)), STR, True, base='v')

    def h_join_channels(self, b, node, st):
        mode = self.mode_of(b['join'], node)
        gen_join_section(self.out, '_join_channels', mode)
        l, r = self.items_of(b['left_channels'], node), self.items_of(b['right_channels'], node)
        return self.emit_call('(gen_join_channels_%s %s %s %s)' % (MODE_NAME[mode], l.s, r.s, self.boolterm(b['merge'])), tt.LIST('channel'), True, base='c')

    def h_join_observations(self, b, node, st):
        mode = self.mode_of(b['join'], node)
        gen_join_section(self.out, '_join_observations', mode)
        l, r = self.items_of(b['left_observations'], node), self.items_of(b['right_observations'], node)
        return self.emit_call('(gen_join_observations_%s %s %s)' % (MODE_NAME[mode], l.s, r.s), tt.LIST('observation'), True, base='o')

    def h_join_measurements(self, b, node, st):
        mode = self.mode_of(b['join'], node)
        gen_join_section(self.out, '_join_measurements', mode)
        l, r = self.items_of(b['left_measurements'], node), self.items_of(b['right_measurements'], node)
        return self.emit_call('(gen_join_measurements_%s %s %s)' % (MODE_NAME[mode], l.s, r.s), tt.LIST('measurement'), True, base='m')

    def h_join_parameter_configs(self, b, node, st):
        gen_simple(self.out, '_join_parameter_configs')
        l, r = self.items_of(b['left_parameters'], node), self.items_of(b['right_parameters'], node)
        return self.emit_call('(gen_join_parameter_configs %s %s)' % (l.s, r.s), tt.LIST('pconfig'), True, base='p')

    def h_prune_and_rename(self, b, node, st):
        if self.w is None:
            raise tt.TB('_prune_and_rename outside a method (line %d)' % node.lineno)
        args = []
        for p, ty in PAR_PARAMS:
            v = b[p]
            if isinstance(v, tt.S) and v.v is None:
                args.append('None')
            elif isinstance(v, (tt.Lst, tt.Dct)) and not v.items:
                args.append('(Some [])')
            else:
                args.append('(Some %s)' % self.as_typed(v, ty).s)
        return self.emit_call('(gen_prune_and_rename %s %s)' % (self.w, ' '.join(args)), 'workspace', True, base='w')


PAR_PARAMS = [('prune_modifiers', STRS), ('prune_modifier_types', STRS), ('prune_samples', STRS), ('prune_channels', STRS), ('prune_measurements', STRS),
              ('rename_modifiers', MAP), ('rename_samples', MAP), ('rename_channels', MAP), ('rename_measurements', MAP)]


def params_of(fn):
    a = fn.args
    if a.posonlyargs or a.vararg or a.kwonlyargs or a.kwarg:
        raise tt.TB('%s: signature outside the translator' % fn.name)
    return [x.arg for x in a.args]


def const_default(fn, name, value):
    d = tt.defaults_of(fn).get(name)
    if not (isinstance(d, ast.Constant) and d.value == value and type(d.value) is type(value)):
        raise tt.TB('%s: the default of %s is not %r' % (fn.name, name, value))


# ---- _join_items at one item type / join text / deep key ------------------------------------------------------------------------------------
def gen_join_items(out, rtype, mode, key, deep):
    name = 'gen_join_items_%s%s_%s' % (rtype, '_deep' if deep else '', MODE_NAME[mode])
    k = (name, key, deep)
    if k in out.done:
        return name
    if name in [kk[0] for kk in out.done if isinstance(kk, tuple) and len(kk) == 3]:
        raise tt.TB('_join_items is used at %s with two different key arguments' % rtype)
    fn = facts.find_func(out.tree, '_join_items')
    if params_of(fn) != ['join', 'left_items', 'right_items', 'key', 'deep_merge_key']:
        raise tt.TB('_join_items: signature changed')
    const_default(fn, 'key', 'name')
    if tt.defaults_of(fn).get('deep_merge_key') is None or not (isinstance(tt.defaults_of(fn)['deep_merge_key'], ast.Constant) and tt.defaults_of(fn)['deep_merge_key'].value is None):
        raise tt.TB('_join_items: the default of deep_merge_key is not None')
    out.done[k] = None                               # (a recursive call at the same type / mode / deep key would not terminate: refused below)
    x = WX(out)
    x.locals = tt.assigned_locals(fn)
    ty = tt.LIST(rtype)
    env = {'join': tt.S(mode), 'left_items': tt.mk('l', ty, 0), 'right_items': tt.mk('r', ty, 0), 'key': tt.S(key), 'deep_merge_key': tt.S(deep)}
    o = x.block(fn.body, tt.St(env=env))
    body, raises = x.render_fn(o, ty)
    if raises:
        raise tt.TB('_join_items can raise')
    out.defs.append((name, out.hdr(fn) + 'Definition %s (l r : list %s) : list %s :=\n  %s.\n' % (name, rtype, rtype, body)))
    out.done[k] = True
    return name


def gen_simple(out, pyname):
    if pyname in out.done:
        return
    fn = facts.find_func(out.tree, pyname)
    x = WX(out)
    x.locals = tt.assigned_locals(fn)
    if pyname == '_join_versions':
        if params_of(fn) != ['join', 'left_version', 'right_version']:
            raise tt.TB('_join_versions: signature changed')
        o = x.block(fn.body, tt.St(env={'join': tt.Ext('join (not read)'), 'left_version': tt.mk('lv', STR, 2), 'right_version': tt.mk('rv', STR, 2)}))
        body, r = x.render_fn(o, STR)
        text = 'Definition gen_join_versions (lv rv : string) : result string :=\n  %s.\n' % (body if r else '(Ok %s)' % body)
    else:
        if params_of(fn) != ['measurement_name', 'left_parameters', 'right_parameters']:
            raise tt.TB('_join_parameter_configs: signature changed')
        ty = tt.LIST('pconfig')
        o = x.block(fn.body, tt.St(env={'measurement_name': tt.Ext('measurement_name (message only)'), 'left_parameters': tt.mk('l', ty, 0), 'right_parameters': tt.mk('r', ty, 0)}))
        body, r = x.render_fn(o, ty)
        text = 'Definition gen_join_parameter_configs (l r : list pconfig) : result (list pconfig) :=\n  %s.\n' % (body if r else '(Ok %s)' % body)
    out.defs.append((pyname, out.hdr(fn) + text))
    out.done[pyname] = True


def gen_join_section(out, pyname, mode):
    k = (pyname, mode)
    if k in out.done:
        return
    fn = facts.find_func(out.tree, pyname)
    sec = pyname[len('_join_'):]
    rtype = sec[:-1]
    ty = tt.LIST(rtype)
    want = ['join', 'left_' + sec, 'right_' + sec] + (['merge'] if sec == 'channels' else [])
    if params_of(fn) != want:
        raise tt.TB('%s: signature changed' % pyname)
    if sec == 'channels':
        const_default(fn, 'merge', False)
    bodies = []
    for merge in ((True, False) if sec == 'channels' else (None,)):
        x = WX(out)
        x.locals = tt.assigned_locals(fn)
        env = {'join': tt.S(mode), 'left_' + sec: tt.mk('l', ty, 0), 'right_' + sec: tt.mk('r', ty, 0)}
        if merge is not None:
            env['merge'] = tt.S(merge)
        o = x.block(fn.body, tt.St(env=env))
        body, r = x.render_fn(o, ty)
        bodies.append(body if r else '(Ok %s)' % body)
    name = 'gen_%s_%s' % (pyname[1:], MODE_NAME[mode])
    if sec == 'channels':
        text = 'Definition %s (l r : list channel) (merge : bool) : result (list channel) :=\n  if merge then %s\n  else %s.\n' % (name, bodies[0], bodies[1])
    else:
        text = 'Definition %s (l r : list %s) : result (list %s) :=\n  %s.\n' % (name, rtype, rtype, bodies[0])
    out.defs.append((name, out.hdr(fn) + text))
    out.done[k] = True


def generate():
    tree, path = facts.parse(REL)
    out = Out(tree, path)
    info = {}
    cls = out.cls

    def method(name, deco):
        fn = facts.find_func(cls, name)
        if [ast.unparse(d) for d in fn.decorator_list] != deco:
            raise tt.TB('Workspace.%s: decorators changed' % name)
        return fn

    # ---- the joins, at every join text (also those `combine` would not reach)
    for mode, _ in MODES:
        for py in ('_join_channels', '_join_observations', '_join_measurements'):
            gen_join_section(out, py, mode)
    gen_simple(out, '_join_versions')
    gen_simple(out, '_join_parameter_configs')

    # ---- Workspace.combine(cls, left, right, join='none', merge_channels=False, validate=True)
    fn = method('combine', ['classmethod'])
    if params_of(fn) != ['cls', 'left', 'right', 'join', 'merge_channels', 'validate']:
        raise tt.TB('Workspace.combine: signature changed')
    const_default(fn, 'join', 'none')
    const_default(fn, 'merge_channels', False)
    const_default(fn, 'validate', True)
    x = WX(out)
    x.locals = tt.assigned_locals(fn)
    env = {'cls': tt.Ext('class:Workspace'), 'left': tt.mk('l', 'workspace', 0), 'right': tt.mk('r', 'workspace', 0), 'join': tt.mk('join', STR, 2),
           'merge_channels': tt.T('merge', BOOL), 'validate': tt.T('validate', BOOL)}
    o = x.block(fn.body, tt.St(env=env))
    body, r = x.render_fn(o, 'workspace')
    out.defs.append(('gen_combine', out.hdr(fn) + 'Definition gen_combine (l r : workspace) (join : string) (merge validate : bool) : result workspace :=\n  %s.\n' % body))

    # ---- Workspace._prune_and_rename(self, nine optional selections)
    fn = method('_prune_and_rename', [])
    if params_of(fn) != ['self'] + [p for p, _ in PAR_PARAMS]:
        raise tt.TB('Workspace._prune_and_rename: signature changed')
    for p, _ in PAR_PARAMS:
        d = tt.defaults_of(fn).get(p)
        if not (isinstance(d, ast.Constant) and d.value is None):
            raise tt.TB('_prune_and_rename: the default of %s is not None' % p)
    short = {'prune_modifiers': 'pm', 'prune_modifier_types': 'pt', 'prune_samples': 'ps', 'prune_channels': 'pc', 'prune_measurements': 'pme',
             'rename_modifiers': 'rm', 'rename_samples': 'rs', 'rename_channels': 'rc', 'rename_measurements': 'rme'}
    x = WX(out, 'w')
    x.cls = cls
    x.locals = tt.assigned_locals(fn) - {p for p, _ in PAR_PARAMS}
    env = {p: tt.T(short[p], tt.OPTION(ty), ('name', p)) for p, ty in PAR_PARAMS}
    o = x.block(fn.body, tt.St(env=env))
    body, r = x.render_fn(o, 'workspace')
    for p in short:
        body = body.replace('x_' + p, 'x' + short[p])
    sig = ' '.join('(%s : option (%s))' % (short[p], tt.coqty3(ty)) for p, ty in PAR_PARAMS)
    out.defs.append(('gen_prune_and_rename', out.hdr(fn) + 'Definition gen_prune_and_rename (w : workspace) %s : result workspace :=\n  %s.\n' % (sig, body)))

    # ---- prune / rename: the selections handed on
    for name, ps in (('prune', ['modifiers', 'modifier_types', 'samples', 'channels', 'measurements']), ('rename', ['modifiers', 'samples', 'channels', 'measurements'])):
        fn = method(name, [])
        if params_of(fn) != ['self'] + ps:
            raise tt.TB('Workspace.%s: signature changed' % name)
        for p in ps:
            d = tt.defaults_of(fn).get(p)
            if not (isinstance(d, ast.Constant) and d.value is None):
                raise tt.TB('%s: the default of %s is not None' % (name, p))
        x = WX(out, 'w')
        x.cls = cls
        x.locals = tt.assigned_locals(fn) - set(ps)
        ty = STRS if name == 'prune' else MAP
        env = {p: tt.T('a%d' % i, tt.OPTION(ty), ('name', p)) for i, p in enumerate(ps)}
        o = x.block(fn.body, tt.St(env=env))
        body, r = x.render_fn(o, 'workspace')
        for i, p in enumerate(ps):
            body = body.replace('x_' + p, 'xa%d' % i)
        sig = ' '.join('(a%d : option (%s))' % (i, tt.coqty3(ty)) for i, _ in enumerate(ps))
        out.defs.append(('gen_' + name, out.hdr(fn) + 'Definition gen_%s (w : workspace) %s : result workspace :=\n  %s.\n' % (name, sig, body)))

    # ---- Workspace.sorted(cls, workspace)
    fn = method('sorted', ['classmethod'])
    if params_of(fn) != ['cls', 'workspace']:
        raise tt.TB('Workspace.sorted: signature changed')
    x = WX(out)
    x.locals = tt.assigned_locals(fn)
    o = x.block(fn.body, tt.St(env={'cls': tt.Ext('class:Workspace'), 'workspace': tt.mk('w', 'workspace', 0)}))
    body, r = x.render_fn(o, 'workspace')
    out.defs.append(('gen_sorted', out.hdr(fn) + 'Definition gen_sorted (w : workspace) : result workspace :=\n  %s.\n' % body))

    # ---- the four join texts as the model's `join` (none / outer / left outer / right outer, as Workspace.valid_joins lists them)
    disp = '\n(* dispatch on the join text, as the constructors of PV.Workspace.join *)\n'
    for base, sig, ret in (('join_items_channel', '(l r : list channel)', 'list channel'), ('join_items_channel_deep', '(l r : list channel)', 'list channel'),
                           ('join_items_observation', '(l r : list observation)', 'list observation'), ('join_items_measurement', '(l r : list measurement)', 'list measurement'),
                           ('join_channels', '(l r : list channel) (merge : bool)', 'result (list channel)'), ('join_observations', '(l r : list observation)', 'result (list observation)'),
                           ('join_measurements', '(l r : list measurement)', 'result (list measurement)')):
        names = [n for n, _ in out.defs]
        for m in ('none', 'outer', 'left', 'right'):
            if 'gen_%s_%s' % (base, m) not in names:
                raise tt.TB('gen_%s_%s was not generated' % (base, m))
        args = 'l r merge' if 'merge' in sig else 'l r'
        disp += ('Definition gen_%s (j : join) %s : %s :=\n  match j with JNone => gen_%s_none %s | JOuter => gen_%s_outer %s | JLeft => gen_%s_left %s | JRight => gen_%s_right %s end.\n'
                 % (base, sig, ret, base, args, base, args, base, args, base, args))
    text = GEN_HEADER + PRELUDE + tt.PRELUDE2 + tt.PRELUDE3 + ''.join(t for _, t in out.defs) + disp
    info['definitions'] = [n for n, _ in out.defs]
    return text, info


def extract(ctx):
    text, info = generate()
    core.write_if_changed(os.path.join(core.COQ, 'gen', GEN_NAME + '.v'), text)
    return dict(file='coq/gen/%s.v' % GEN_NAME, definitions=info['definitions'])
