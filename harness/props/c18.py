"""C18 - export to HistFactory XML+ROOT and re-import preserves the statistical model.

proof part      : coq/Xml.v (literal model of writexml/readxml/compat), coq/XmlThms.v (round trip, generic over a field),
                  coq/XmlCache.v (file cache as a state machine, all histories), coq/XmlInst.v (Qc/R instances, witnesses)
correspondence  : real pyhf.writexml.writexml + pyhf.readxml.parse cycles in directories under ctx.work versus
                  (a) the model evaluated inside Coq (vm_compute over Qc) and
                  (b) the property's reference (python, from the original workspace alone) ; Model.logpdf original vs re-import
histories       : export/import/clear/remove sequences over a few directories within this one process versus the state machine
"""
import copy
import hashlib
import json
import os
import shutil
from fractions import Fraction

from harness import core, facts

RTOL = 1e-6          # histogram contents (yields, histosys templates, staterror / shapesys uncertainties: stored in the ROOT file, the
                     # uncertainties through a relative form) and the log-likelihood
XTOL = 1e-12         # numbers carried by XML attributes (normsys High / Low, Lumi, LumiRelErr -> sigma, NormFactor Val / Low / High): str(float) /
                     # float(text) are exact, so only the rounding of sigma / lumi * lumi and lumi -+ 5 sigma is allowed for


def extract(ctx):
    """tie to the source: coq/gen/XmlGen.v is written from $VERIF_REPO/src/pyhf/{writexml,readxml,compat}.py on every run (harness/props/c18_tie.py)"""
    from harness.props import c18_tie
    return dict(translated_from_source=c18_tie.extract(ctx))


def generate():
    from harness.props import c18_tie
    return c18_tie.generate()

HEADER = '''From Coq Require Import ZArith QArith Qcanon String List.
Require Import PV.Num PV.Run PV.Json PV.Xml PV.XmlThms PV.XmlCache PV.XmlInst.
Import ListNotations. Open Scope string_scope.
'''

ERR_CLASSES = {
    'EDupHist': {'PyKeyError'}, 'ENoObs': {'PyTypeError'}, 'EShape': {'PyValueError'}, 'EModType': {'PyKeyError'},
    'ELumiCfg': {'PyKeyError', 'PyIndexError'}, 'EIndex': {'PyIndexError'}, 'EZeroDiv': {'PyZeroDivisionError'},
    'EMissingHist': {'PyKeyError'}, 'EMissingData': {'PyRuntimeError'}, 'EStatEmpty': {'PyRuntimeError'},
    'EConfusing': {'PyValueError'}, 'ENonScalar': {'PyValueError'}, 'EDedupe': {'PyRuntimeError'}, 'ENoFile': {'PyFileNotFoundError'},
}
WRITE_ERRS = {'EDupHist', 'ENoObs', 'EShape', 'EModType', 'ELumiCfg', 'EIndex', 'EZeroDiv'}


# ----------------------------------------------------------------------------------------------------------------------
# workspace -> Coq term
def qv(x):
    f = core.frac(x)
    return '(q (%d) %d)' % (f.numerator, f.denominator)


def ql(xs):
    return '[' + '; '.join(qv(x) for x in xs) + ']'


def mod_coq(m):
    t, d = m['type'], m.get('data')
    if t == 'histosys':
        c = '(DH %s %s)' % (ql(d['lo_data']), ql(d['hi_data']))
    elif t == 'normsys':
        c = '(DN %s %s)' % (qv(d['lo']), qv(d['hi']))
    elif t == 'shapesys':
        c = '(DSS %s)' % ql(d)
    elif t == 'staterror':
        c = '(DST %s)' % ql(d)
    else:
        c = {'normfactor': 'DNF', 'shapefactor': 'DSF', 'lumi': 'DL'}[t]
    return '(MO %s %s)' % (core.cstr(m['name']), c)


def param_coq(p):
    def opt(k, f):
        return '(Some %s)' % f(p[k]) if k in p else 'None'
    bounds = opt('bounds', lambda b: '[' + '; '.join('(%s, %s)' % (qv(x[0]), qv(x[1])) for x in b) + ']')
    fixed = '(Some %s)' % core.cbool(p['fixed']) if 'fixed' in p else 'None'
    return '(PA %s %s %s %s %s %s)' % (core.cstr(p['name']), opt('inits', ql), bounds, opt('auxdata', ql), opt('sigmas', ql), fixed)


def ws_coq(ws):
    chans = core.clist(ws['channels'], lambda c: '(CH %s %s)' % (core.cstr(c['name']), core.clist(
        c['samples'], lambda s: '(SA %s %s %s)' % (core.cstr(s['name']), ql(s['data']), core.clist(s['modifiers'], mod_coq)))))
    obs = core.clist(ws.get('observations', []), lambda o: '(%s, %s)' % (core.cstr(o['name']), ql(o['data'])))
    meas = core.clist(ws['measurements'], lambda m: '(ME %s %s %s)' % (core.cstr(m['name']), core.cstr(m['config']['poi']),
                                                                       core.clist(m['config']['parameters'], param_coq)))
    return '(WS %s %s %s)' % (chans, obs, meas)


def dec(v):
    """printed `o` value -> python (Fractions, strings, lists, None, bool, ('err', name))"""
    if v == 'ON':
        return None
    tag = v[0]
    if tag == 'OS':
        return v[1]
    if tag == 'OQ':
        return Fraction(v[1], v[2])
    if tag == 'OL':
        return [dec(x) for x in v[1]]
    if tag == 'OB':
        return v[1] == 'true'
    if tag == 'OE':
        return ('err', v[1])
    raise ValueError('unexpected model output %r' % (v,))


def dec_res(r):
    """show_res -> ('ok', ws-structure) | ('err', name)"""
    if r[0] == 'ok':
        return ('ok', r[1])
    return ('err', r[1][1])


# ----------------------------------------------------------------------------------------------------------------------
# the implementation
def exc(e):
    return core.exc_enum(e)


def real_export(ws, d):
    from pyhf import writexml
    os.makedirs(os.path.join(d, 'config'), exist_ok=True)
    os.makedirs(os.path.join(d, 'data'), exist_ok=True)
    top = writexml.writexml(ws, os.path.join(d, 'config'), os.path.join(d, 'data'), 'FitConfig')
    with open(os.path.join(d, 'FitConfig.xml'), 'wb') as f:
        f.write(top)
    return top


def real_import(d):
    from pyhf import readxml
    return readxml.parse(os.path.join(d, 'FitConfig.xml'), d)


def real_cycle(ws, d):
    shutil.rmtree(d, ignore_errors=True)
    before = copy.deepcopy(ws)
    try:
        top = real_export(ws, d)
    except Exception as e:
        return dict(outcome='export:' + exc(e), msg=str(e)[:200])
    out = dict(mutated=(ws != before))
    try:
        import re
        out['xml_measurements'] = re.findall(r'<Measurement [^>]*>', top.decode())
    except Exception:
        pass
    try:
        out['ws'] = real_import(d)
        out['outcome'] = 'ok'
    except Exception as e:
        out.update(outcome='import:' + exc(e), msg=str(e)[:200])
    return out


def struct_of(ws):
    """re-imported workspace dict -> the nested structure show_ws prints (floats instead of Fractions)"""
    def md(m):
        t, d = m['type'], m.get('data')
        if t == 'histosys':
            return [list(d['lo_data']), list(d['hi_data'])]
        if t == 'normsys':
            return [d['lo'], d['hi']]
        if t in ('shapesys', 'staterror'):
            return list(d)
        return None
    chans = [[c['name'], [[s['name'], list(s['data']), [[m['name'], m['type'], md(m)] for m in s['modifiers']]] for s in c['samples']]]
             for c in ws['channels']]
    obs = [[o['name'], list(o['data'])] for o in ws['observations']]
    meas = [[m['name'], m['config']['poi'],
             [[p['name'], p.get('inits'), [list(b) for b in p['bounds']] if 'bounds' in p else None, p.get('auxdata'), p.get('sigmas'),
               p.get('fixed')] for p in m['config']['parameters']]] for m in ws['measurements']]
    return [chans, obs, meas]


def normalise(st):
    """order-insensitive where the order carries no meaning: modifiers of a sample, parameter configs of a measurement"""
    chans, obs, meas = st
    chans = [[c[0], [[s[0], s[1], sorted(s[2], key=lambda m: (m[0], m[1]))] for s in c[1]]] for c in chans]
    meas = [[m[0], m[1], sorted(m[2], key=lambda p: p[0])] for m in meas]
    return [chans, obs, meas]


def num_eq(a, b, rtol=RTOL):
    """a: Fraction or float (model / reference), b: float (implementation)"""
    if isinstance(a, Fraction):
        return core.close(a, b, rtol)
    return core.close(core.frac(a), b, rtol)


def diff(a, b, path='', rtol=RTOL):
    """first difference between an expected structure a (Fractions/floats/str/None/bool/lists) and an observed one b.
    Numbers are compared with rtol; the data of a normsys modifier ([name, 'normsys', [lo, hi]]: XML attributes) and everything below a
    measurement ([name, poi, parameter configs]) with XTOL"""
    if isinstance(a, (list, tuple)):
        if not isinstance(b, (list, tuple)) or len(a) != len(b):
            return '%s: %r vs %r' % (path, short(a), short(b))
        if len(a) == 3 and isinstance(a[1], str) and a[1] == 'normsys':
            rtol = min(rtol, XTOL)
        for i, (x, y) in enumerate(zip(a, b)):
            r = diff(x, y, '%s/%s' % (path, x[0] if isinstance(x, list) and x and isinstance(x[0], str) else i), rtol)
            if r:
                return r
        return None
    if isinstance(a, bool) or isinstance(b, bool) or a is None or b is None or isinstance(a, str) or isinstance(b, str):
        return None if a == b else '%s: %r vs %r' % (path, short(a), short(b))
    return None if num_eq(a, b, rtol) else '%s: %r vs %r' % (path, float(a), b)


def diff_ws(a, b, path='ws'):
    """model / expected workspace structure [channels, observations, measurements] against the observed one: the measurements (parameter configs:
    XML attributes) with XTOL"""
    if not (isinstance(a, (list, tuple)) and isinstance(b, (list, tuple)) and len(a) == 3 and len(b) == 3):
        return diff(a, b, path)
    return diff(a[0], b[0], path + '/0') or diff(a[1], b[1], path + '/1') or diff(a[2], b[2], path + '/2', XTOL)


def short(x):
    def cv(v):
        if isinstance(v, Fraction):
            return float(v)
        if isinstance(v, (list, tuple)):
            return [cv(y) for y in v]
        return v
    return json.dumps(cv(x), default=str)[:160]


# ----------------------------------------------------------------------------------------------------------------------
# the reference: what the property promises about the re-imported workspace, computed from the original alone
def masked(d, nom):
    return [0.0 if n == 0 else x for x, n in zip(d, nom)]


def reference(ws):
    chans = []
    for c in ws['channels']:
        ss = []
        for s in c['samples']:
            mods = []
            for m in s['modifiers']:
                t, d = m['type'], m.get('data')
                if t == 'lumi':
                    mods.append(['lumi', 'lumi', None])
                elif t == 'staterror':     # the XML format dictates the name
                    mods.append(['staterror_' + c['name'], t, masked(d, s['data'])])
                elif t == 'shapesys':
                    mods.append([m['name'], t, masked(d, s['data'])])
                elif t == 'histosys':
                    mods.append([m['name'], t, [list(d['lo_data']), list(d['hi_data'])]])
                elif t == 'normsys':
                    mods.append([m['name'], t, [d['lo'], d['hi']]])
                else:
                    mods.append([m['name'], t, None])
            ss.append([s['name'], list(s['data']), sorted(mods, key=lambda m: (m[0], m[1]))])
        chans.append([c['name'], ss])
    obs_by = {o['name']: list(o['data']) for o in ws['observations']}
    obs = [[c['name'], obs_by[c['name']]] for c in ws['channels']]
    meas = []
    nfs = sorted({m['name'] for c in ws['channels'] for s in c['samples'] for m in s['modifiers'] if m['type'] == 'normfactor'})
    first = ws['measurements'][0]['config']['parameters']
    for k, m in enumerate(ws['measurements']):
        ps = m['config']['parameters']
        lum = [p for p in ps if p['name'] == 'lumi']
        L, sg = (lum[-1]['auxdata'][0], lum[-1]['sigmas'][0]) if lum else (1.0, 0.0)
        e = dict(name=m['name'], poi=m['config']['poi'], fixed=sorted({p['name'] for p in ps if p.get('fixed')}), lumi=L, sigma=sg,
                 lumi_inits=L, lumi_bounds=[L - 5 * sg, L + 5 * sg], normfactors=None)
        # Val/Low/High are taken from the measurement parameter config; the XML can hold one setting per normfactor, so the
        # promise concerns the first measurement and every measurement configured like the first
        same = all([p for p in ps if p['name'] == n and ('inits' in p or 'bounds' in p)] ==
                   [p for p in first if p['name'] == n and ('inits' in p or 'bounds' in p)] or
                   [dict(inits=p.get('inits'), bounds=p.get('bounds')) for p in ps if p['name'] == n] ==
                   [dict(inits=p.get('inits'), bounds=p.get('bounds')) for p in first if p['name'] == n] for n in nfs)
        if k == 0 or same:
            nf = []
            for n in nfs:
                val, lo, hi = 1.0, 0.0, 10.0
                for p in first:
                    if p['name'] == n:
                        val = p.get('inits', [val])[0]
                        lo, hi = p.get('bounds', [[lo, hi]])[0]
                nf.append([n, val, lo, hi])
            e['normfactors'] = nf
        meas.append(e)
    return dict(channels=chans, observations=obs, measurements=meas)


def observe(re, ref):
    chans = normalise(struct_of(re))[0]
    obs = [[o['name'], list(o['data'])] for o in re['observations']]
    meas = []
    nfs = sorted({m['name'] for c in re['channels'] for s in c['samples'] for m in s['modifiers'] if m['type'] == 'normfactor'})
    for k, m in enumerate(re['measurements']):
        ps = m['config']['parameters']
        lum = [p for p in ps if p['name'] == 'lumi']
        e = dict(name=m['name'], poi=m['config']['poi'], fixed=sorted({p['name'] for p in ps if p.get('fixed')}),
                 lumi=lum[0]['auxdata'][0] if lum else None, sigma=lum[0]['sigmas'][0] if lum else None,
                 lumi_inits=lum[0]['inits'][0] if lum else None, lumi_bounds=list(lum[0]['bounds'][0]) if lum else None, normfactors=None)
        if k < len(ref['measurements']) and ref['measurements'][k]['normfactors'] is not None:
            nf = []
            for n in nfs:
                p = [p for p in ps if p['name'] == n]
                nf.append([n, p[0]['inits'][0], p[0]['bounds'][0][0], p[0]['bounds'][0][1]] if p and 'inits' in p[0] and 'bounds' in p[0] else [n, None])
            e['normfactors'] = nf
        meas.append(e)
    return dict(channels=chans, observations=obs, measurements=meas)


def property_diff(ws, re):
    """None, or (observable-kind, text) for the first promised observable that the re-imported workspace gets wrong"""
    ref = reference(ws)
    try:
        ob = observe(re, ref)
    except Exception as e:
        return ('malformed-reimport', '%s: %s' % (type(e).__name__, e))
    r = diff(ref['channels'], ob['channels'], 'channels')
    if r:
        parts = r.split(':')[0].split('/')
        depth = len(parts)
        # channels/<channel>/1/<sample>/1[/bin] is the yield list of a sample, .../2[/<modifier>[/2[/...]]] its modifiers
        kind = ('yields' if depth >= 5 and parts[4] == '1' else
                'modifier-data' if depth >= 8 else 'modifiers' if depth >= 6 else 'yields' if depth >= 5 else 'channels')
        return (kind, r)
    r = diff(ref['observations'], ob['observations'], 'observations')
    if r:
        return ('observations', r)
    if len(ref['measurements']) != len(ob['measurements']):
        return ('measurements', '%d vs %d measurements' % (len(ref['measurements']), len(ob['measurements'])))
    for a, b in zip(ref['measurements'], ob['measurements']):
        for key, kind in (('name', 'measurement-name'), ('poi', 'poi'), ('fixed', 'constant-flags'), ('lumi', 'lumi-value'),
                          ('sigma', 'lumi-sigma'), ('lumi_inits', 'lumi-inits'), ('lumi_bounds', 'lumi-bounds'), ('normfactors', 'normfactor-settings')):
            r = diff(a[key], b[key], 'measurement %s/%s' % (a['name'], key), XTOL)
            if r:
                return (kind, r)
    return None


# ----------------------------------------------------------------------------------------------------------------------
# likelihood: original vs re-imported at random points
def lossless(ws):
    for c in ws['channels']:
        for s in c['samples']:
            for m in s['modifiers']:
                if m['type'] in ('staterror', 'shapesys') and any(n == 0 and x != 0 for x, n in zip(m['data'], s['data'])):
                    return False
    return True


def logpdf_compare(ws, re, rng, npts=3):
    """returns (status, detail): 'skipped' (original does not build) | 'ok' | 'differs' | 'reimport-fails'"""
    import numpy as np
    import pyhf
    pyhf.set_backend('numpy')
    ren = {}
    for c in ws['channels']:
        for s in c['samples']:
            for m in s['modifiers']:
                if m['type'] == 'staterror':
                    ren[m['name']] = 'staterror_' + c['name']
    worst = 0.0
    n = 0
    for meas in ws['measurements']:
        try:
            m1 = pyhf.Workspace(copy.deepcopy(ws)).model(measurement_name=meas['name'])
        except Exception as e:
            return 'skipped', '%s: %s' % (type(e).__name__, str(e)[:100])
        try:
            m2 = pyhf.Workspace(copy.deepcopy(re)).model(measurement_name=meas['name'])
        except Exception as e:
            return 'reimport-fails', 'measurement %s: %s: %s' % (meas['name'], type(e).__name__, str(e)[:200])
        if sorted(ren.get(p, p) for p in m1.config.par_order) != sorted(m2.config.par_order):
            return 'differs', 'measurement %s: parameter sets %r vs %r' % (meas['name'], m1.config.par_order, m2.config.par_order)
        for _ in range(npts):
            pars1 = [lo + (hi - lo) * rng.uniform(0.2, 0.8) if hi > lo else lo for lo, hi in m1.config.suggested_bounds()]
            pars2 = [None] * m2.config.npars
            for p in m1.config.par_order:
                s1, s2 = m1.config.par_slice(p), m2.config.par_slice(ren.get(p, p))
                if s1.stop - s1.start != s2.stop - s2.start:
                    return 'differs', 'measurement %s: parameter %s has %d vs %d components' % (meas['name'], p, s1.stop - s1.start, s2.stop - s2.start)
                pars2[s2] = pars1[s1]
            main = [max(0.0, x * rng.uniform(0.7, 1.3)) for x in m1.expected_actualdata(pars1)]
            try:
                l1 = float(np.asarray(m1.logpdf(pars1, main + list(m1.config.auxdata))).ravel()[0])
                l2 = float(np.asarray(m2.logpdf(pars2, main + list(m2.config.auxdata))).ravel()[0])
            except Exception as e:
                return 'differs', 'measurement %s: logpdf raised %s: %s' % (meas['name'], type(e).__name__, str(e)[:120])
            n += 1
            if l1 != l1 or abs(l1) == float('inf'):
                continue
            err = abs(l1 - l2) / max(1.0, abs(l1))
            worst = max(worst, err)
            if not err <= RTOL:
                return 'differs', 'measurement %s: logpdf %r (original) vs %r (re-imported) at pars %r' % (meas['name'], l1, l2, pars1)
    return 'ok', 'max rel diff %.2e over %d points' % (worst, n)


# ----------------------------------------------------------------------------------------------------------------------
# generation
def hist_names(ws):
    out = []
    for c in ws['channels']:
        if ws.get('observations'):
            out.append('hist%s_data' % c['name'])
        for s in c['samples']:
            for m in s['modifiers']:
                if m['name'] == 'lumi':
                    continue
                nm = 'hist' + '_'.join(x for x in [c['name'], s['name'], m['name']] if x)
                if m['type'] == 'histosys':
                    out += [nm + 'Low', nm + 'High']
                elif m['type'] in ('staterror', 'shapesys'):
                    out.append(nm)
            out.append('hist' + '_'.join(x for x in [c['name'], s['name']] if x))
    return out


def gen_ws(rng):
    while True:
        ws = gen_ws_once(rng)
        hn = hist_names(ws)
        if len(set(hn)) == len(hn):
            return ws


def gen_ws_once(rng):
    nch = rng.choice([1, 1, 2, 2, 3])
    chn = rng.sample(['SR', 'CR_low', 'ch_1', 'A', 'VR2'], nch)
    lumi_used = rng.random() < 0.6
    ints = rng.random() < 0.3

    # full precision: numbers that need all 15-17 significant digits (ratios, sums of measured quantities), some workspaces at a small or a
    # large overall magnitude -- any writer / reader step that is not exact on binary64 (a format with fewer digits, float32) shows up
    full = (not ints) and rng.random() < 0.45
    scale = rng.choice([1.0, 1.0, 1.0, 1.0 / 1024 / 7, 3.0e4 / 7]) if full else 1.0

    def fr(x, nd):
        """x rounded to nd decimals in the short-decimal workspaces, as it is in the full-precision ones"""
        return x if full else round(x, nd)

    def num(lo, hi):
        if ints and rng.random() < 0.8:
            return rng.randrange(int(lo), int(hi) + 1)
        if full:
            return rng.uniform(lo, hi) * scale
        return round(rng.uniform(lo, hi), rng.choice([1, 3]))
    channels = []
    sys_pool = ['sys1', 'sys2', 'JES', 'alpha_x']
    nfs = ['mu']
    fixable = []
    for ci, cn in enumerate(chn):
        nb = rng.choice([1, 2, 2, 3, 4])
        statname = rng.choice(['staterror_' + cn, 'staterror_' + cn, 'mcstat_' + cn])
        samples = []
        sn = rng.sample(['sig', 'bkg', 'bkg_2', 'qcd', 'top_x'], rng.choice([1, 2, 2, 3]))
        if ci == 0 and 'sig' not in sn:
            sn[0] = 'sig'
        for si, s in enumerate(sn):
            data = [num(5, 90) for _ in range(nb)]
            if si > 0 and rng.random() < 0.25:
                data[rng.randrange(nb)] = 0 if ints else 0.0
            if rng.random() < (0.22 if si > 0 else 0.08):
                # yields are any numbers: a template with negative content in some or all bins (interference, subtraction of a
                # data-driven estimate), mostly small against the other samples of the channel
                for j in range(nb):
                    if data[j] != 0 and rng.random() < 0.6:
                        data[j] = -(num(1, 6) if rng.random() < 0.7 else data[j])

            def unc_of(x, lo, hi):
                """absolute per-bin uncertainty: any number as well -- mostly a positive fraction of |x|, sometimes zero on a filled bin,
                sometimes negative, and zero or not on an empty bin"""
                if x == 0:
                    return 0.0 if rng.random() < 0.7 else 0.5 * scale
                r = rng.random()
                if r < 0.08:
                    return 0.0
                u = fr(abs(x) * rng.uniform(lo, hi), 3)
                return -u if r < 0.14 else u
            mods = []
            if s == 'sig':
                mods.append({'name': 'mu', 'type': 'normfactor', 'data': None})
            for nm in rng.sample(sys_pool, rng.choice([0, 1, 1, 2])):
                mods.append({'name': nm, 'type': 'normsys', 'data': {'hi': fr(rng.uniform(1.01, 1.3), 3), 'lo': fr(rng.uniform(0.7, 0.99), 3)}})
                fixable.append(nm)
            for nm in rng.sample(['sys1', 'shape_a', 'JES'], rng.choice([0, 0, 1, 2])):
                mods.append({'name': nm, 'type': 'histosys', 'data': {'hi_data': [fr(x * rng.uniform(1.0, 1.2) + 0.1 * scale, 3) for x in data],
                                                                        'lo_data': [fr(x * rng.uniform(0.8, 1.0), 3) for x in data]}})
                fixable.append(nm)
            if rng.random() < 0.5:
                unc = [unc_of(x, 0.02, 0.2) for x in data]
                if ints and rng.random() < 0.5:
                    unc = [int(abs(u)) + 1 if x != 0 else 0 for u, x in zip(unc, data)]
                mods.append({'name': statname, 'type': 'staterror', 'data': unc})
            if rng.random() < 0.35:
                unc = [unc_of(x, 0.02, 0.3) for x in data]
                mods.append({'name': 'ss_%s_%s' % (cn, s), 'type': 'shapesys', 'data': unc})
            if rng.random() < 0.15 and not any(m['type'] == 'shapefactor' for x in samples for m in x['modifiers']):
                mods.append({'name': 'sf_' + cn, 'type': 'shapefactor', 'data': None})
                fixable.append('sf_' + cn)
            if rng.random() < 0.25:
                k = rng.choice(['k1', 'k2'])
                mods.append({'name': k, 'type': 'normfactor', 'data': None})
                nfs.append(k)
            if lumi_used and rng.random() < 0.7:
                mods.append({'name': 'lumi', 'type': 'lumi', 'data': None})
            rng.shuffle(mods)
            samples.append({'name': s, 'data': data, 'modifiers': mods})
        channels.append({'name': cn, 'samples': samples})
    if lumi_used and not any(m['type'] == 'lumi' for c in channels for s in c['samples'] for m in s['modifiers']):
        channels[0]['samples'][0]['modifiers'].append({'name': 'lumi', 'type': 'lumi', 'data': None})
    obs = [{'name': c['name'], 'data': [(float(rng.randrange(20, 200)) if full and rng.random() < 0.5 else num(20, 200)) if rng.random() < 0.9 else (0 if ints else 0.0)
                                      for _ in c['samples'][0]['data']]} for c in channels]
    rng.shuffle(obs)
    nfs = sorted(set(nfs))
    fixable = sorted(set(fixable) | set(nfs))
    nm = rng.choice([1, 1, 2, 3])
    L0 = rng.choice([1.0, 2.0, 0.5, 1.5, 3.0, 0.8, 2])
    if full and rng.random() < 0.6:
        L0 = rng.choice([rng.uniform(0.4, 3.5), 1.0 / 0.9412, 36.1 / 13.3, 139.0 / 1.0624843789052736])
    nfcfg = {}
    for n in nfs:
        if rng.random() < 0.6:
            lo, hi = rng.choice([(0.0, 5.0), (-2.0, 7.5), (0.5, 20.0), (0, 10)])
            if full and rng.random() < 0.6:
                lo, hi = rng.uniform(-2.0, 0.9), rng.uniform(4.0, 25.0) * rng.choice([1.0, 1.0, 1.0e3 / 3])
            c = {'name': n}
            if rng.random() < 0.85:
                c['bounds'] = [[lo, hi]]
            if rng.random() < 0.85:
                c['inits'] = [fr(rng.uniform(lo if lo > 0 else 0.1, hi / 2), 2)]
            nfcfg[n] = c
    meas = []
    for k in range(nm):
        ps = []
        L = L0 if rng.random() < 0.8 else rng.choice([1.0, 2.5, 0.7])
        sg = fr(rng.choice([0.02, 0.1, 0.017, 0.3]) * rng.choice([1.0, L]) * (rng.uniform(0.5, 1.5) if full else 1.0), 5)
        if lumi_used or rng.random() < 0.15:
            ps.append({'name': 'lumi', 'auxdata': [L], 'sigmas': [sg], 'bounds': [[round(L - 4 * sg, 4), round(L + 6 * sg, 4)]], 'inits': [L]})
        for n, c in nfcfg.items():
            c = copy.deepcopy(c)
            if k > 0 and rng.random() < 0.12 and 'inits' in c:
                c['inits'] = [c['inits'][0] + 0.25]          # a measurement configured differently from the first
            ps.append(c)
        for n in fixable + (['lumi'] if ps and ps[0]['name'] == 'lumi' else []):
            # the constant flag in all three spellings: "fixed": true, "fixed": false written out (what readxml itself emits for Const="False",
            # what hand-edited workspaces hold), and no key at all
            r = rng.random()
            if r < 0.40:
                flag = r < 0.25
                e = [p for p in ps if p['name'] == n]
                if e:
                    e[0]['fixed'] = flag
                else:
                    ps.append({'name': n, 'fixed': flag})
        rng.shuffle(ps)
        meas.append({'name': 'meas%d' % k, 'config': {'poi': 'mu', 'parameters': ps}})
    return {'channels': channels, 'observations': obs, 'measurements': meas, 'version': '1.0.0'}


FAULTS = ['dup-hist', 'sample-named-data', 'no-obs-for-channel', 'no-observations', 'fixed-unknown', 'fixed-gamma', 'lumi-zero',
          'lumi-no-auxdata', 'len-mismatch', 'foreign-lumi-name', 'nf-alpha-name', 'nf-differs']


def inject(rng, ws, fault):
    ws = copy.deepcopy(ws)
    c0 = ws['channels'][0]
    p0 = ws['measurements'][0]['config']['parameters']
    if fault == 'dup-hist':
        ws['channels'] += [{'name': 'X', 'samples': [{'name': 'a_b', 'data': [1.0], 'modifiers': []}]},
                           {'name': 'X_a', 'samples': [{'name': 'b', 'data': [2.0], 'modifiers': []}]}]
        ws['observations'] += [{'name': 'X', 'data': [1.0]}, {'name': 'X_a', 'data': [2.0]}]
    elif fault == 'sample-named-data':
        c0['samples'].append({'name': 'data', 'data': list(c0['samples'][0]['data']), 'modifiers': []})
    elif fault == 'no-obs-for-channel':
        ws['channels'].append({'name': 'Zextra', 'samples': [{'name': 's', 'data': [1.0], 'modifiers': []}]})
    elif fault == 'no-observations':
        ws['observations'] = []
    elif fault == 'fixed-unknown':
        p0.append({'name': 'not_a_modifier', 'fixed': True})
    elif fault == 'fixed-gamma':
        s = c0['samples'][0]
        s['modifiers'] = [m for m in s['modifiers'] if m['type'] != 'shapesys'] + [
            {'name': 'ssfix', 'type': 'shapesys', 'data': [1.0 for _ in s['data']]}]
        p0.append({'name': 'ssfix', 'fixed': True})
    elif fault in ('lumi-zero', 'lumi-no-auxdata'):
        p0[:] = [p for p in p0 if p['name'] != 'lumi']
        p = {'name': 'lumi', 'auxdata': [0.0], 'sigmas': [0.1], 'bounds': [[-1.0, 1.0]], 'inits': [0.0]}
        if fault == 'lumi-no-auxdata':
            del p['auxdata']
        p0.append(p)
    elif fault == 'len-mismatch':
        s = c0['samples'][0]
        s['data'] = [10.0, 11.0, 12.0]
        s['modifiers'] = [{'name': 'bad', 'type': rng.choice(['staterror', 'shapesys']), 'data': [1.0, 2.0]}]
        for o in ws['observations']:
            if o['name'] == c0['name']:
                o['data'] = [10.0, 11.0, 12.0]
        for x in c0['samples'][1:]:
            x['data'] = [5.0, 5.0, 5.0]
            x['modifiers'] = []
    elif fault == 'foreign-lumi-name':
        c0['samples'][0]['modifiers'].append({'name': 'lumi', 'type': 'normsys', 'data': {'hi': 1.1, 'lo': 0.9}})
    elif fault == 'nf-alpha-name':
        c0['samples'][0]['modifiers'].append({'name': 'alpha_k', 'type': 'normfactor', 'data': None})
        p0.append({'name': 'alpha_k', 'fixed': True})
    elif fault == 'nf-differs':
        if len(ws['measurements']) < 2:
            ws['measurements'].append(copy.deepcopy(ws['measurements'][0]))
            ws['measurements'][1]['name'] = 'measB'
        ws['measurements'][0]['config']['parameters'] = [p for p in p0 if p['name'] != 'mu'] + [{'name': 'mu', 'inits': [2.0], 'bounds': [[0.0, 8.0]]}]
        p1 = ws['measurements'][1]['config']['parameters']
        p1[:] = [p for p in p1 if p['name'] != 'mu'] + [{'name': 'mu', 'inits': [3.0], 'bounds': [[0.0, 9.0]]}]
    return ws


COLLISION_KINDS = ['cross-channel', 'sample-vs-binwise', 'sample-vs-histosys', 'sample+modifier-split']


def collide(rng, ws, kind):
    """names whose `_`-joined histogram names coincide or nearly coincide (every histogram of a workspace goes into one ROOT file under
    hist<channel>_<sample>[_<modifier>][Low|High]).  Returns the renamed / extended workspace; whether it really collides is decided by
    hist_names() afterwards (the near misses are ordinary workspaces: they must round-trip)."""
    ws = copy.deepcopy(ws)
    near = rng.random() < 0.3
    ci = rng.randrange(len(ws['channels']))
    c = ws['channels'][ci]
    s = rng.choice(c['samples'])
    nb = len(s['data'])

    def fresh_sample(name, like):
        data = [round(abs(x) * rng.uniform(2.0, 6.0) + rng.choice([1.0, 7.5, 20.0]), 2) for x in like]
        mods = [] if rng.random() < 0.5 else [{'name': 'coll_norm', 'type': 'normsys', 'data': {'hi': 1.08, 'lo': 0.93}}]
        return {'name': name, 'data': data, 'modifiers': mods}

    def put(samples, new, ref):
        k = samples.index(ref)
        samples.insert(k + rng.choice([0, 1]), new)
    if kind == 'cross-channel':
        P, Q = rng.choice([('ttbar', 'bkg'), ('a', 'b'), ('top', 'x'), ('W', 'jets_lo')])
        s['name'] = P + '_' + Q
        others = [x for k, x in enumerate(ws['channels']) if k != ci]
        newname = c['name'] + '_' + P
        if others and rng.random() < 0.6:
            o = rng.choice(others)
            for ob in ws['observations']:
                if ob['name'] == o['name']:
                    ob['name'] = newname
            for x in o['samples']:
                for m in x['modifiers']:
                    if m['type'] == 'staterror':
                        m['name'] = 'staterror_' + newname
            o['name'] = newname
        else:
            o = {'name': newname, 'samples': [fresh_sample('other', s['data'])]}
            ws['channels'].insert(rng.randrange(len(ws['channels']) + 1), o)
            ws['observations'].append({'name': newname, 'data': [round(x * 1.1 + 3.0, 1) for x in o['samples'][0]['data']]})
        t = rng.choice(o['samples'])
        t['name'] = Q + ('2' if near else '')
        seen = set()
        o['samples'] = [x for x in o['samples'] if not (x['name'] in seen or seen.add(x['name']))]
    elif kind == 'sample-vs-binwise':
        bw = [m for m in s['modifiers'] if m['type'] in ('shapesys', 'staterror')]
        if near:      # the same names with a histosys: hist.._x_sysLow / ..High next to hist.._x_sys do not collide
            M = 'sys'
            s['modifiers'] = [m for m in s['modifiers'] if m['name'] != M] + [
                {'name': M, 'type': 'histosys', 'data': {'hi_data': [x * 1.1 + 0.5 for x in s['data']], 'lo_data': [x * 0.9 for x in s['data']]}}]
            for x in ws['channels']:
                for y in x['samples']:
                    if y is not s:
                        y['modifiers'] = [m for m in y['modifiers'] if m['name'] != M]
        elif bw:
            M = rng.choice(bw)['name']
        else:
            M = 'ss_' + rng.choice(['sys', 'stat_x'])
            s['modifiers'].append({'name': M, 'type': 'shapesys', 'data': [round(abs(x) * 0.1 + 0.5, 3) for x in s['data']]})
        put(c['samples'], fresh_sample(s['name'] + '_' + M, s['data']), s)
    elif kind == 'sample-vs-histosys':
        hs = [m for m in s['modifiers'] if m['type'] == 'histosys']
        if hs:
            M = rng.choice(hs)['name']
        else:
            M = 'shape_c'
            s['modifiers'].append({'name': M, 'type': 'histosys', 'data': {'hi_data': [x * 1.1 + 0.5 for x in s['data']], 'lo_data': [x * 0.9 for x in s['data']]}})
        put(c['samples'], fresh_sample(s['name'] + '_' + M + rng.choice(['Low', 'High']) + ('er' if near else ''), s['data']), s)
    elif kind == 'sample+modifier-split':
        # hist<ch>_<S>_<c_d> (sample S, bin-wise modifier c_d) against hist<ch>_<S_c>_<d> (sample S_c, bin-wise modifier d)
        s['modifiers'] = [m for m in s['modifiers'] if m['type'] != 'shapesys'] + [
            {'name': 'c_d', 'type': 'shapesys', 'data': [round(abs(x) * 0.1 + 0.5, 3) for x in s['data']]}]
        t = fresh_sample(s['name'] + '_c', s['data'])
        t['modifiers'].append({'name': 'd' + ('d' if near else ''), 'type': 'shapesys', 'data': [round(x * 0.05 + 0.25, 3) for x in t['data']]})
        put(c['samples'], t, s)
    return ws


TARGETED = [
    # minimal inputs of the defects the pinned tree had; always run first
    ('lumi-2', {'channels': [{'name': 'ch', 'samples': [{'name': 's', 'data': [10.0, 20.0], 'modifiers': [
        {'name': 'mu', 'type': 'normfactor', 'data': None}, {'name': 'lumi', 'type': 'lumi', 'data': None}]}]}],
        'observations': [{'name': 'ch', 'data': [12.0, 18.0]}],
        'measurements': [{'name': 'm', 'config': {'poi': 'mu', 'parameters': [
            {'name': 'lumi', 'auxdata': [2.0], 'sigmas': [0.2], 'bounds': [[1.0, 3.0]], 'inits': [2.0]}]}}], 'version': '1.0.0'}),
    ('staterror-int-yields', {'channels': [{'name': 'ch', 'samples': [
        {'name': 's', 'data': [5, 7], 'modifiers': [{'name': 'mu', 'type': 'normfactor', 'data': None}]},
        {'name': 'b', 'data': [50, 60], 'modifiers': [{'name': 'staterror_ch', 'type': 'staterror', 'data': [3, 1]}]}]}],
        'observations': [{'name': 'ch', 'data': [52, 68]}],
        'measurements': [{'name': 'm', 'config': {'poi': 'mu', 'parameters': []}}], 'version': '1.0.0'}),
    ('shapesys-int-yields', {'channels': [{'name': 'ch', 'samples': [
        {'name': 's', 'data': [5, 7], 'modifiers': [{'name': 'mu', 'type': 'normfactor', 'data': None}]},
        {'name': 'b', 'data': [50, 0], 'modifiers': [{'name': 'ss', 'type': 'shapesys', 'data': [3, 0]}]}]}],
        'observations': [{'name': 'ch', 'data': [52, 8]}],
        'measurements': [{'name': 'm', 'config': {'poi': 'mu', 'parameters': [{'name': 'mu', 'inits': [2], 'bounds': [[0, 5]], 'fixed': True}]}}],
        'version': '1.0.0'}),
]


# ----------------------------------------------------------------------------------------------------------------------
# shrinking
def shrink(ws, fails):
    """greedy: drop measurements, channels, samples, modifiers, parameter configs while `fails(ws)` keeps returning the same value"""
    target = fails(ws)
    if target is None:
        return ws
    changed = True
    while changed:
        changed = False
        for cand in candidates(ws):
            try:
                if fails(cand) == target:
                    ws, changed = cand, True
                    break
            except Exception:
                continue
    return ws


def candidates(ws):
    for i in range(len(ws['measurements'])):
        if len(ws['measurements']) > 1:
            w = copy.deepcopy(ws)
            del w['measurements'][i]
            yield w
    for i, c in enumerate(ws['channels']):
        if len(ws['channels']) > 1:
            w = copy.deepcopy(ws)
            del w['channels'][i]
            w['observations'] = [o for o in w['observations'] if o['name'] != c['name']]
            yield w
    for i, c in enumerate(ws['channels']):
        for j in range(len(c['samples'])):
            if len(c['samples']) > 1:
                w = copy.deepcopy(ws)
                del w['channels'][i]['samples'][j]
                yield w
    for i, c in enumerate(ws['channels']):
        for j, s in enumerate(c['samples']):
            for k in range(len(s['modifiers'])):
                w = copy.deepcopy(ws)
                del w['channels'][i]['samples'][j]['modifiers'][k]
                yield w
    for i, m in enumerate(ws['measurements']):
        for k in range(len(m['config']['parameters'])):
            w = copy.deepcopy(ws)
            del w['measurements'][i]['config']['parameters'][k]
            yield w


# ----------------------------------------------------------------------------------------------------------------------
def classify_crash(ws, outcome, work):
    """signature tail for an export/import crash of an expressible workspace: which feature triggers it"""
    def as_float(w):
        w = copy.deepcopy(w)
        for c in w['channels']:
            for s in c['samples']:
                s['data'] = [float(x) for x in s['data']]
        return w
    has_int = any(isinstance(x, int) for c in ws['channels'] for s in c['samples'] for x in s['data'])
    types = sorted({m['type'] for c in ws['channels'] for s in c['samples'] for m in s['modifiers']} - {'normfactor'})
    if has_int and real_cycle(as_float(ws), os.path.join(work, 'classify'))['outcome'] == 'ok':
        return '%s-int-yields' % ('+'.join(types) or 'plain')
    return outcome.split(':', 1)[1]


def check_cycle(ctx, ws, d, rng, label, do_logpdf=True):
    """the property on one expressible workspace.  Returns (real, violation-found)"""
    real = real_cycle(copy.deepcopy(ws), d)
    if real['outcome'] != 'ok':
        stage = real['outcome'].split(':')[0]

        def fails(w):
            r = real_cycle(copy.deepcopy(w), d + '-shrink')
            return r['outcome'] if r['outcome'] != 'ok' else None
        small = shrink(ws, fails)
        tail = classify_crash(small, real['outcome'], ctx.work)
        ctx.violation('%s-crash:%s' % (stage, tail),
                      '%s of an expressible workspace raised %s (%s)' % (stage, real['outcome'], real.get('msg', '')[:120]),
                      dict(kind='cycle', ws=small, impl=real_cycle(copy.deepcopy(small), d + '-shrink'), expected='export and re-import succeed',
                           theorem='C18_roundtrip_model', label=label))
        return real, True
    found = False
    if real.get('mutated'):
        ctx.violation('export-mutates-input', 'writexml modified the workspace it was given', dict(kind='cycle', ws=ws, label=label))
        found = True
    pd = property_diff(ws, real['ws'])
    if pd:
        def fails(w):
            r = real_cycle(copy.deepcopy(w), d + '-shrink')
            if r['outcome'] != 'ok':
                return None
            x = property_diff(w, r['ws'])
            return x[0] if x else None
        small = shrink(ws, fails)
        r2 = real_cycle(copy.deepcopy(small), d + '-shrink')
        pd2 = property_diff(small, r2['ws'])
        ctx.violation('roundtrip:' + pd[0], 're-imported workspace differs from the original in %s: %s' % (pd[0], (pd2 or pd)[1]),
                      dict(kind='cycle', ws=small, impl=dict(reimported=r2['ws'], xml_measurements=r2.get('xml_measurements')),
                           expected=reference(small), difference=(pd2 or pd)[1], theorem='C18_roundtrip_model', label=label))
        return real, True
    if do_logpdf and lossless(ws):
        st, detail = logpdf_compare(ws, real['ws'], rng)
        real['logpdf'] = (st, detail)
        if st in ('differs', 'reimport-fails'):
            ctx.violation('roundtrip:likelihood', 'Model.logpdf of the re-imported workspace differs from the original: ' + detail,
                          dict(kind='cycle', ws=ws, impl=dict(reimported=real['ws']), detail=detail, theorem='C18_roundtrip_likelihood_partial', label=label))
            found = True
    return real, found


def check_collision(ctx, ws, d, rng, label):
    """a workspace two of whose histograms get the same name in the ROOT file: exactly two outcomes are acceptable -- the export is refused
    with an exception, or the round trip recovers the model (the property as stated, checked as for any other workspace)"""
    real = real_cycle(copy.deepcopy(ws), d)
    hn = hist_names(ws)
    dup = sorted({h for h in hn if hn.count(h) > 1})
    if real['outcome'].startswith('export:'):
        return real, False

    def body(small, what):
        r2 = real_cycle(copy.deepcopy(small), d + '-shrink')
        return dict(kind='cycle', ws=small, refusal_accepted=True, colliding_histogram_names=dup,
                    impl=dict(outcome=r2['outcome'], reimported=r2.get('ws'), msg=r2.get('msg')),
                    expected=dict(either='export raises', or_reimported=reference(small)), difference=what,
                    theorem='C18_roundtrip_model (write refuses duplicate histogram names: EDupHist)', label=label)
    if real['outcome'] != 'ok':
        def fails(w):
            r = real_cycle(copy.deepcopy(w), d + '-shrink')
            return r['outcome'] if r['outcome'].startswith('import:') else None
        small = shrink(ws, fails)
        ctx.violation('name-collision:import-crash', 'two histograms share the name %s: the export was not refused and the re-import raised %s (%s)'
                      % (dup[:2], real['outcome'], real.get('msg', '')[:120]), body(small, real['outcome']))
        return real, True
    pd = property_diff(ws, real['ws'])
    if pd:
        def fails(w):
            r = real_cycle(copy.deepcopy(w), d + '-shrink')
            if r['outcome'] != 'ok':
                return None
            x = property_diff(w, r['ws'])
            return x[0] if x else None
        small = shrink(ws, fails)
        r2 = real_cycle(copy.deepcopy(small), d + '-shrink')
        pd2 = property_diff(small, r2['ws']) or pd
        ctx.violation('name-collision:' + pd[0], 'two histograms share the name %s: the export was not refused and the re-imported workspace differs '
                      'from the original in %s: %s' % (dup[:2], pd[0], pd2[1]), body(small, pd2[1]))
        return real, True
    if lossless(ws):
        st, detail = logpdf_compare(ws, real['ws'], rng)
        real['logpdf'] = (st, detail)
        if st in ('differs', 'reimport-fails'):
            ctx.violation('name-collision:likelihood', 'two histograms share the name %s: the export was not refused and Model.logpdf of the '
                          're-imported workspace differs: %s' % (dup[:2], detail), body(ws, detail))
            return real, True
    return real, False


# ----------------------------------------------------------------------------------------------------------------------
# histories
def gen_history(rng, pool, nops, ndirs):
    dirs = ['d%d' % i for i in range(ndirs)]
    ops = []
    for _ in range(nops):
        r = rng.random()
        d = rng.choice(dirs)
        if r < 0.4:
            ops.append(['export', d, rng.randrange(len(pool))])
        elif r < 0.85:
            ops.append(['import', d])
        elif r < 0.93:
            ops.append(['clear'])
        else:
            ops.append(['remove', d])
    # make sure the interesting pattern occurs: export, import, re-export to the same place, import
    d = rng.choice(dirs)
    a, b = rng.sample(range(len(pool)), 2) if len(pool) > 1 else (0, 0)
    k = rng.randrange(len(ops) + 1)
    ops[k:k] = [['export', d, a], ['import', d], ['export', d, b], ['import', d]]
    return ops


def real_history(ops, pool, base):
    from pyhf import readxml
    readxml.clear_filecache()
    shutil.rmtree(base, ignore_errors=True)
    out = []
    for op in ops:
        if op[0] == 'export':
            try:
                real_export(copy.deepcopy(pool[op[2]]), os.path.join(base, op[1]))
                out.append(['exported'])
            except Exception as e:
                out.append(['export-raised', exc(e), str(e)[:120]])
        elif op[0] == 'import':
            try:
                r = ['ok', real_import(os.path.join(base, op[1]))]
            except Exception as e:
                r = ['err', exc(e), str(e)[:120]]
            out.append(r + [fresh_import(os.path.join(base, op[1]))])
        elif op[0] == 'clear':
            readxml.clear_filecache()
            out.append(['cleared'])
        elif op[0] == 'remove':
            shutil.rmtree(os.path.join(base, op[1]), ignore_errors=True)
            out.append(['removed'])
    readxml.clear_filecache()
    return out


def fresh_import(d):
    """what a parse of the files on disk returns when nothing is cached: the same code run on an empty cache, the live cache
    object being put back untouched afterwards"""
    from pyhf import readxml
    if not isinstance(getattr(readxml, '__FILECACHE__', None), dict):
        return ['unavailable']
    live = readxml.__FILECACHE__
    readxml.__FILECACHE__ = {}
    try:
        return ['ok', real_import(d)]
    except Exception as e:
        return ['err', exc(e)]
    finally:
        readxml.__FILECACHE__ = live


def history_reference(ops, upto):
    """index into the pool of the workspace on disk in the directory of op number `upto` (an import), or None"""
    d = ops[upto][1]
    cur = None
    for op in ops[:upto]:
        if op[0] == 'export' and op[1] == d:
            cur = op[2]
        elif op[0] == 'remove' and op[1] == d:
            cur = None
    return cur


def history_coq(ops, pool):
    used = sorted({op[2] for op in ops if op[0] == 'export'})
    lets = ''.join('let w%d := %s in ' % (i, ws_coq(pool[i])) for i in used)
    items = []
    for op in ops:
        if op[0] == 'export':
            items.append('HExport %s w%d' % (core.cstr(op[1]), op[2]))
        elif op[0] == 'import':
            items.append('HImport %s' % core.cstr(op[1]))
        elif op[0] == 'clear':
            items.append('HClear')
        else:
            items.append('HRemove %s' % core.cstr(op[1]))
    return '%srun_history [%s]' % (lets, '; '.join(items))


def history_failure(ops, pool, base):
    """(op index, text) of the first import that does not return what the files on disk hold at that moment, else None.
    Reference: the same parse with nothing cached (fresh_import); where that is unavailable, the workspace last exported there."""
    real = real_history(ops, pool, base)
    for i, (op, r) in enumerate(zip(ops, real)):
        if op[0] != 'import':
            continue
        fresh = r[-1]
        if fresh[0] == 'ok':
            if r[0] != 'ok':
                return i, 'import raised %s (%s) although the files on disk parse' % (r[1], r[2])
            if r[1] != fresh[1]:
                dd = diff_ws(normalise(struct_of(fresh[1])), normalise(struct_of(r[1])))
                return i, 'import returned something else than the files on disk hold: %s' % (dd or 'differs')
        elif fresh[0] == 'err':
            if r[0] != 'err':
                return i, 'import returned a workspace although the files on disk do not parse (%s)' % fresh[1]
        else:
            cur = history_reference(ops, i)
            if cur is None:
                if r[0] != 'err':
                    return i, 'import of a directory that holds no export returned a workspace'
                continue
            if r[0] != 'ok':
                return i, 'import raised %s (%s)' % (r[1], r[2])
            pd = property_diff(pool[cur], r[1])
            if pd:
                return i, 'import returned something else than the export on disk (workspace #%d): %s' % (cur, pd[1])
    return None


def shrink_history(ops, pool, base):
    ops = list(ops)
    changed = True
    while changed and len(ops) > 1:
        changed = False
        for i in range(len(ops)):
            cand = ops[:i] + ops[i + 1:]
            if history_failure(cand, pool, base) is not None:
                ops, changed = cand, True
                break
    return ops


# ----------------------------------------------------------------------------------------------------------------------
def nontrivial(ws):
    types = {m['type'] for c in ws['channels'] for s in c['samples'] for m in s['modifiers']}
    ps = [p for m in ws['measurements'] for p in m['config']['parameters']]
    feats = [any(p['name'] == 'lumi' and p.get('auxdata', [1.0])[0] != 1.0 for p in ps) and 'lumi' in types,
             any(p['name'] != 'lumi' and ('inits' in p or 'bounds' in p) for p in ps), any(p.get('fixed') for p in ps),
             len(ws['measurements']) > 1, len(ws['channels']) > 1]
    return len(types) >= 3 and sum(feats) >= 2


def run(ctx):
    rng = ctx.rng
    tie = None
    try:
        ctx.coverage['extracted_facts'] = extract(ctx)
    except facts.TieBroken as e:
        tie = ('translation of pyhf/writexml.py, readxml.py, compat.py to Gallina failed (harness/props/c18_tie.py; the source uses a construct outside '
               'the reading the tie theorems are proved for): %s' % e)
    if tie is None:
        ok, txt = core.prove(ctx)
        if not ok:
            why = ('the functions translated from the source no longer coincide with the hand model (coq/TieXml.v, C18_source_is_model_*): '
                   if ('TieXml' in txt or 'source_is_model' in txt or 'XmlGen' in txt) else 'proof obligations of props/C18.v no longer check: ')
            tie = why + txt[-1200:]
    if tie is not None:
        # the hand model is run for the correspondence even when a tie theorem (or the translation) no longer checks
        mrc, mout, _ = core.coq_make(['XmlInst.vo', 'Run.vo'])
        if mrc != 0:
            tie = tie + ' | the hand model does not build: ' + mout[-400:]
    ctx.trusted += ['harness/props/c18_tie.py + harness/props/tie_translate.py + tie_translate_x5.py (python ast -> Gallina for writexml._make_hist_name / '
                    '_export_root_histogram / build_modifier / build_sample / build_data / build_channel / build_measurement, readxml.import_root_histogram '
                    '(key lookup and file cache) / clear_filecache / process_sample / process_data / process_channel / process_measurements / dedupe_parameters, '
                    'compat.interpret_rootname / paramset_to_rootnames; fail '
                    'closed): C18_source_is_model_* prove the translated definitions equal to the hand model of Xml.v / XmlCache.v; the reading of the '
                    'python values (ET.Element / attribute dicts = the abstract AST, the ROOT file = association list of writes, the file cache = st_cache, '
                    'numpy elementwise operations, which python failure is which error constructor) is stated in the header of coq/gen/XmlGen.v',
                    'XML text layer (str()/float() of numbers, " ".join/split of parameter names), ElementTree, uproot and the ROOT '
                    'serialisation are outside the model; they are exercised by the real write/parse cycles only',
                    'harness/props/c18.py: workspace -> Gallina term printer, reference() (python transcription of what the property promises)']
    ctx.assumptions += ['a rewritten file differs from each of its earlier versions in (st_mtime_ns, st_size, st_ino) '
                        '(XmlCache.v models signatures by a clock)',
                        'exact field arithmetic: IEEE rounding enters only through the comparison tolerance %g' % RTOL,
                        'names without spaces/newlines (ParamSetting text is split on blanks)']
    found = False
    stats = dict(cycles=0, faults={}, outcomes={}, modifier_types={}, lumi_values={}, int_yield_cases=0, lossy_cases=0,
                 logpdf={}, measurements={}, guards_true=0, negative_yield_cases=0, negative_yield_with_binwise_uncertainty=0,
                 zero_uncertainty_on_filled_bin=0, negative_uncertainty=0, full_precision_cases=0, small_or_large_magnitude_cases=0,
                 explicit_fixed_false_cases=0, near_collision_cases=0, name_collisions={})
    sigs = set()

    # ---- cases: corpus + targeted first, then generated ----
    cases = []
    cdir = os.path.join(core.VERIF, 'corpus', 'C18')
    hist_corpus = []
    if os.path.isdir(cdir):
        for fn in sorted(os.listdir(cdir)):
            if fn.endswith('.json'):
                body = json.load(open(os.path.join(cdir, fn)))
                if body.get('kind') == 'cycle':
                    cases.append(dict(ws=body['ws'], fault=body.get('fault'), label='corpus:' + fn))
                elif body.get('kind') == 'history':
                    hist_corpus.append((body['ops'], body['pool'], 'corpus:' + fn))
    for name, ws in TARGETED:
        cases.append(dict(ws=copy.deepcopy(ws), fault=None, label='targeted:' + name))
    ngen = ctx.n(100, 1200)
    for i in range(ngen):
        ws = gen_ws(rng)
        if rng.random() < 0.14:
            # colliding and nearly colliding names: a collision must be refused at export or round-trip; a near miss is an ordinary workspace
            kind = COLLISION_KINDS[i % len(COLLISION_KINDS)]
            w2 = collide(rng, ws, kind)
            hn = hist_names(w2)
            if len(set(hn)) != len(hn):
                cases.append(dict(ws=w2, fault='name-collision', label='gen%d:collision:%s' % (i, kind)))
            else:
                cases.append(dict(ws=w2, fault=None, label='gen%d:near-collision:%s' % (i, kind)))
        elif rng.random() < 0.22:
            f = FAULTS[i % len(FAULTS)]
            cases.append(dict(ws=inject(rng, ws, f), fault=f, label='gen%d' % i))
        else:
            cases.append(dict(ws=ws, fault=None, label='gen%d' % i))

    ctx.log('proved; %d cycle cases' % len(cases))
    # ---- model inside Coq ----
    models = None
    try:
        res = core.coq_eval(ctx, 'cycles', HEADER, ['let w := %s in (cycle w, guardsb QcNum w)' % ws_coq(c['ws']) for c in cases], shard=ctx.n(6, 40))
        models = []
        for r in res:
            v = core.parse_qc(r)
            models.append((dec(v[0]), v[1] == 'true'))
    except (core.CoqEvalError, Exception) as e:
        tie = tie or ('model evaluation failed: %s' % str(e)[-800:])

    ctx.log('model evaluated')
    disagreements = []
    fault_notes = []
    samples = []
    for i, c in enumerate(cases):
        ws = c['ws']
        d = os.path.join(ctx.work, 'cyc', 'c%d' % i)
        stats['cycles'] += 1
        for t in {m['type'] for ch in ws['channels'] for s in ch['samples'] for m in s['modifiers']}:
            stats['modifier_types'][t] = stats['modifier_types'].get(t, 0) + 1
        for m in ws['measurements']:
            for p in m['config']['parameters']:
                if p['name'] == 'lumi' and 'auxdata' in p:
                    stats['lumi_values'][str(p['auxdata'][0])] = stats['lumi_values'].get(str(p['auxdata'][0]), 0) + 1
        stats['measurements'][len(ws['measurements'])] = stats['measurements'].get(len(ws['measurements']), 0) + 1
        stats['int_yield_cases'] += any(isinstance(x, int) for ch in ws['channels'] for s in ch['samples'] for x in s['data'])
        stats['lossy_cases'] += not lossless(ws)
        binwise = [(x, n) for ch in ws['channels'] for s in ch['samples'] for m in s['modifiers'] if m['type'] in ('staterror', 'shapesys')
                   for x, n in zip(m['data'], s['data'])]
        stats['negative_yield_cases'] += any(x < 0 for ch in ws['channels'] for s in ch['samples'] for x in s['data'])
        stats['negative_yield_with_binwise_uncertainty'] += any(n < 0 and x != 0 for x, n in binwise)
        stats['zero_uncertainty_on_filled_bin'] += any(n != 0 and x == 0 for x, n in binwise)
        stats['negative_uncertainty'] += any(x < 0 for x, n in binwise)
        xmlnums = [v for ch in ws['channels'] for s in ch['samples'] for m in s['modifiers'] if m['type'] == 'normsys' for v in (m['data']['hi'], m['data']['lo'])] + \
                  [v for m in ws['measurements'] for p in m['config']['parameters'] for k in ('auxdata', 'sigmas', 'inits') for v in p.get(k, [])]
        stats['full_precision_cases'] += any(isinstance(v, float) and len(repr(v)) > 12 for v in xmlnums)
        yields = [abs(x) for ch in ws['channels'] for s in ch['samples'] for x in s['data'] if x != 0]
        stats['small_or_large_magnitude_cases'] += bool(yields) and (max(yields) < 0.1 or min(yields) > 1000)
        stats['explicit_fixed_false_cases'] += any(p.get('fixed') is False for m in ws['measurements'] for p in m['config']['parameters'])
        stats['near_collision_cases'] += 'near-collision' in c['label']
        if c['fault'] is None:
            real, f = check_cycle(ctx, ws, d, rng, c['label'])
            found = found or f
            if 'logpdf' in real:
                stats['logpdf'][real['logpdf'][0]] = stats['logpdf'].get(real['logpdf'][0], 0) + 1
            if nontrivial(ws):
                sigs.add(hashlib.sha1(json.dumps(ws, sort_keys=True).encode()).hexdigest())
        elif c['fault'] == 'name-collision':
            stats['faults'][c['fault']] = stats['faults'].get(c['fault'], 0) + 1
            real, f = check_collision(ctx, ws, d, rng, c['label'])
            found = found or f
            key = 'refused' if real['outcome'].startswith('export:') else real['outcome']
            stats['name_collisions'][key] = stats['name_collisions'].get(key, 0) + 1
        else:
            stats['faults'][c['fault']] = stats['faults'].get(c['fault'], 0) + 1
            real = real_cycle(copy.deepcopy(ws), d)
        stats['outcomes'][real['outcome']] = stats['outcomes'].get(real['outcome'], 0) + 1
        if len(samples) < 3 and i >= len(cases) - ngen:
            samples.append(dict(label=c['label'], fault=c['fault'], ws=ws, outcome=real['outcome'], logpdf=real.get('logpdf')))
        # correspondence with the model
        if models is None:
            continue
        mo, guards = models[i]
        stats['guards_true'] += guards
        if mo[0] == 'write-err':
            mclass, mws = 'export', None
            ok_match = real['outcome'].startswith('export:') and real['outcome'].split(':')[1] in ERR_CLASSES[mo[1][1]]
            mdesc = 'export raises ' + mo[1][1]
        else:
            rr = dec_res(mo[3])
            if rr[0] == 'err':
                ok_match = real['outcome'].startswith('import:') and real['outcome'].split(':')[1] in ERR_CLASSES[rr[1]]
                mdesc = 'import raises ' + rr[1]
            else:
                mdesc = 'ok'
                ok_match = real['outcome'] == 'ok'
                if ok_match:
                    dd = diff_ws(normalise(rr[1]), normalise(struct_of(real['ws'])))
                    if dd:
                        ok_match = False
                        mdesc = 'ok but ' + dd
        if c['fault'] is None and not guards:
            tie = tie or ('generator produced a workspace outside the theorem hypotheses (%s)' % c['label'])
        if not ok_match:
            if c['fault'] is None:
                disagreements.append((i, mdesc, real['outcome']))
            else:   # outside the property's domain (not expressible in XML): error behaviour is a diagnostic, never an alarm
                fault_notes.append(dict(label=c['label'], fault=c['fault'], model=mdesc, impl=real['outcome']))
    if disagreements and not found:
        i, mdesc, ro = disagreements[0]
        tie = tie or ('model and implementation disagree on %d of %d cycles; first (%s, fault=%s): model %s, implementation %s'
                      % (len(disagreements), len(cases), cases[i]['label'], cases[i]['fault'], mdesc, ro))
        ctx.coverage['first_disagreement'] = dict(ws=cases[i]['ws'], model=mdesc, impl=ro)

    ctx.log('cycles done')
    # ---- histories ----
    nh = ctx.n(10, 80)
    hstats = dict(histories=0, ops=0, imports=0, imports_of_reexported_dir=0, errors=0)
    hists = list(hist_corpus)
    # the minimal stale pattern, same structure (same file size) and different structure
    base_ws = TARGETED[0][1]
    w2 = copy.deepcopy(base_ws)
    w2['channels'][0]['samples'][0]['data'] = [11.0, 21.0]
    w3 = copy.deepcopy(base_ws)
    w3['channels'][0]['samples'].append({'name': 'extra', 'data': [3.0, 4.0], 'modifiers': []})
    hists.append(([['export', 'd0', 0], ['import', 'd0'], ['export', 'd0', 1], ['import', 'd0'], ['export', 'd0', 2], ['import', 'd0'],
                   ['export', 'd1', 0], ['import', 'd1'], ['import', 'd0']], [base_ws, w2, w3], 'targeted:reexport'))
    for k in range(nh):
        pool = []
        w = gen_ws(rng)
        pool.append(w)
        for _ in range(rng.choice([1, 2])):          # same structure, other numbers: same file size
            v = copy.deepcopy(w)
            for c in v['channels']:
                for s in c['samples']:
                    s['data'] = [x + 1 if x != 0 else x for x in s['data']]
            for o in v['observations']:
                o['data'] = [x + 2 for x in o['data']]
            pool.append(v)
            w = v
        pool.append(gen_ws(rng))
        hists.append((gen_history(rng, pool, ctx.n(8, 20), rng.choice([1, 2, 3])), pool, 'hist%d' % k))
    hexprs = [history_coq(ops, pool) for ops, pool, _ in hists]
    hmodels = None
    try:
        hres = core.coq_eval(ctx, 'hist', HEADER, hexprs, shard=ctx.n(1, 4))
        hmodels = [[dec(x) for x in core.parse_qc(r)] for r in hres]
    except (core.CoqEvalError, Exception) as e:
        tie = tie or ('model evaluation of histories failed: %s' % str(e)[-800:])
    ctx.log('history models evaluated')
    hdis = []
    for k, (ops, pool, label) in enumerate(hists):
        base = os.path.join(ctx.work, 'hist', 'h%d' % k)
        real = real_history(ops, pool, base)
        hstats['histories'] += 1
        hstats['ops'] += len(ops)
        for i, (op, r) in enumerate(zip(ops, real)):
            if op[0] == 'import':
                hstats['imports'] += 1
                hstats['imports_of_reexported_dir'] += sum(1 for o in ops[:i] if o[0] == 'export' and o[1] == op[1]) > 1
                hstats['errors'] += r[0] == 'err'
        sigs.add('h' + hashlib.sha1(json.dumps(ops).encode()).hexdigest())
        fail = history_failure(ops, pool, base)
        if fail is not None:
            small = shrink_history(ops, pool, base + '-shrink')
            f2 = history_failure(small, pool, base + '-shrink') or fail
            used = sorted({op[2] for op in small if op[0] == 'export'})
            ren = {u: j for j, u in enumerate(used)}
            small = [[op[0], op[1], ren[op[2]]] if op[0] == 'export' else op for op in small]
            spool = [pool[u] for u in used]
            ctx.violation('stale-import', 'a parse returned content that is not the current file: ' + f2[1],
                          dict(kind='history', ops=small, pool=spool, failing_op=f2[0], detail=f2[1],
                               expected='every import returns the export that is on disk at that moment',
                               theorem='C18_import_reads_current_file / C18_import_after_export', label=label))
            found = True
        if hmodels is not None:
            for i, (op, r, mo) in enumerate(zip(ops, real, hmodels[k])):
                if op[0] != 'import':
                    continue
                mr = dec_res(mo)
                if mr[0] == 'err':
                    okm = r[0] == 'err' and r[1] in ERR_CLASSES[mr[1]]
                else:
                    okm = r[0] == 'ok' and diff_ws(normalise(mr[1]), normalise(struct_of(r[1]))) is None
                if not okm:
                    hdis.append((label, i, mr[0], r[0]))
    if hdis and not found:
        tie = tie or ('state-machine model and implementation disagree on %d imports; first: history %s op %d: model %s, implementation %s'
                      % ((len(hdis),) + hdis[0]))

    ctx.log('histories done')
    if tie:
        ctx.notes.append('tie: ' + tie[:600])
        ctx.log('tie broken: ' + ' '.join(tie.split())[:300])
    if tie and not found:
        ctx.violation('tie-broken', tie[:300], dict(kind='tie', detail=tie, theorem='props/C18.v / correspondence'), nofail=True)
    if not ctx.quick:
        try:
            stats['other_backends'] = other_backends(ctx, [c['ws'] for c in cases if c['fault'] is None][:40], rng)
        except Exception as e:   # pragma: no cover
            ctx.notes.append('backend sweep failed: %r' % e)
    ctx.coverage.update(
        evaluations=len(cases) + sum(len(h[0]) for h in hists), distinct_nontrivial=len(sigs),
        rule='cycle: generated exportable workspace with >=3 modifier types and >=2 of {lumi != 1 used, custom normfactor init/bounds, '
             'fixed parameters, several measurements, several channels}, distinct by content; history: distinct op sequences '
             '(each contains export, import, re-export to the same directory, import)',
        cycle_stats=stats, history_stats=hstats, faults_injected=sorted(stats['faults']), tolerance=RTOL,
        model_disagreements=len(disagreements) + len(hdis), fault_case_differences=fault_notes[:10], samples=samples)


def other_backends(ctx, wss, rng):
    """thorough: logpdf original vs re-import on the other backends too"""
    import pyhf
    out = {}
    for be in ('jax', 'pytorch', 'tensorflow'):
        n = 0
        try:
            pyhf.set_backend(be, precision='64b')
        except Exception as e:
            out[be] = 'unavailable: %r' % e
            continue
        for k, ws in enumerate(wss[:15]):
            r = real_cycle(copy.deepcopy(ws), os.path.join(ctx.work, 'be', '%s%d' % (be, k)))
            if r['outcome'] != 'ok' or not lossless(ws):
                continue
            try:
                m1 = pyhf.Workspace(copy.deepcopy(ws)).model()
                m2 = pyhf.Workspace(copy.deepcopy(r['ws'])).model()
            except Exception:
                continue
            if m1.config.par_order != m2.config.par_order:
                continue
            pars = m1.config.suggested_init()
            data = list(m1.expected_actualdata(pyhf.tensorlib.astensor(pars)))
            l1 = float(pyhf.tensorlib.tolist(m1.logpdf(pars, [float(x) for x in data] + list(m1.config.auxdata)))[0])
            l2 = float(pyhf.tensorlib.tolist(m2.logpdf(pars, [float(x) for x in data] + list(m2.config.auxdata)))[0])
            n += 1
            if abs(l1 - l2) > 1e-6 * max(1.0, abs(l1)):
                ctx.violation('roundtrip:likelihood', 'logpdf differs on backend %s: %r vs %r' % (be, l1, l2),
                              dict(kind='cycle', ws=ws, backend=be, impl=dict(reimported=r['ws']), theorem='C18_roundtrip_likelihood_partial'))
        out[be] = n
    pyhf.set_backend('numpy')
    return out


def replay(body):
    kind = body.get('kind')
    work = os.path.join(core.WORK, 'C18-replay')
    if kind == 'cycle':
        r = real_cycle(copy.deepcopy(body['ws']), os.path.join(work, 'cycle'))
        print('outcome:', r['outcome'], r.get('msg', ''))
        if body.get('refusal_accepted') or body.get('fault') == 'name-collision':
            hn = hist_names(body['ws'])
            print('histogram names used twice:', sorted({h for h in hn if hn.count(h) > 1}), '-- acceptable: export raises, or the round trip recovers the model')
            if r['outcome'].startswith('export:'):
                print('property: holds (export refused)')
                return 0
        if r['outcome'] == 'ok':
            print('LumiRelErr etc.:', r.get('xml_measurements'))
            pd = property_diff(body['ws'], r['ws'])
            print('property:', 'holds' if pd is None else 'FAILS in %s: %s' % pd)
            print(json.dumps(r['ws'], indent=1)[:3000])
            return 0 if pd is None else 1
        return 1
    if kind == 'history':
        f = history_failure(body['ops'], body['pool'], os.path.join(work, 'hist'))
        print('history:', body['ops'])
        print('property:', 'holds' if f is None else 'FAILS at op %d: %s' % f)
        return 0 if f is None else 1
    print(body.get('detail'))
    return 0
