"""C19 - tie to the source: the bodies of the click commands of pyhf/cli/infer.py (fit, cls), cli/spec.py (prune, rename, combine, digest, sort),
cli/patchset.py (extract, apply, verify, inspect) and cli/rootio.py (xml2json, json2xml) translated to coq/gen/CliGen.v on every run
(translator: harness/props/tie_translate.py + tie_translate_x4.py, class Exec4; fail closed).  Each command becomes a dataflow from its option
parameters to the library calls (opaque functions, in execution order, the global backend state threaded through them) and to what is echoed /
written.  coq/TieCli.v proves every translated command equal to Cli.run_cmd of a hand-written `library o args_of_options`; the theorems
C19_source_is_model_<command> are in coq/props/C19.v.   NOT translated: cli/spec.py:inspect (a page of text formatting)."""
import ast
import os

from harness import core, facts
from harness.props import tie_translate as tt
from harness.props import tie_translate_x4 as t4

GEN_NAME = 'CliGen'
STR, NAT, BOOL = tt.STR, tt.NAT, tt.BOOL
WORLD = t4.WORLD
OUT, FS = '\x00stdout', '\x00fs'
JSON = 'json'

GEN_HEADER = '''From Coq Require Import Bool Arith String List.
Require Import PV.Json.
Import ListNotations.
Local Open Scope list_scope.
(* GENERATED on every run by harness/props/c19_tie.py from $VERIF_REPO/src/pyhf/cli/{infer,spec,patchset,rootio}.py - do not edit.
   Reading of the python values (the trusted part of the translation):
   * a command is a function of its click parameters (texts; None-able texts are `option string`; repeatable options are lists; flags are bool;
     --test-poi is an opaque number P) and of the global backend state bk : B it starts in; it returns `res E (B * list string * list fsop)`:
     an error of the library (the exception propagates, click exits non-zero), or the backend state left behind, the chunks written to stdout in
     order and the file-system operations in order;
   * `with click.open_file(path, 'r', encoding='utf-8') as f: json.load(f)` and `json.loads(click.open_file(path, ..).read())` are read_json path
     (any failure is an error value); Workspace(spec) is mkws spec; PatchSet(spec) is mkps spec; the methods / functions of the library are the
     opaque functions of the same name, their arguments bound AS PYTHON BINDS THEM against the signatures read from the library source on every
     run; library calls that depend on the global backend (model construction, data, fits, hypotest, tolist) take the backend state current at the
     call as first argument, so the order of set_backend calls relative to them is part of the text;
   * set_backend(<name>, precision=p) is set_backend_named bk name (Some p); set_backend(tensorlib, optimizer) is set_backend_obj bk tensorlib optimizer;
     get_backend()[0] is get_tensorlib bk; getattr(optimize, name) is get_optimizer name (None for an unknown name: calling it raises TypeError);
     new_optimizer called with the keyword dictionary conf is make_optimizer cls conf; merging the --optconf dictionaries ({k: v for item in optconf for k, v in item.items()}) is
     dict_union optconf;
   * json.dumps(x, indent=4, sort_keys=True) is dumps (canon x), without sort_keys dumps x; a dict display with literal keys is a JObj in display
     order, a list comprehension of documents a JArr; click.echo(t) appends t ++ newline to stdout; json.dump(x, file, ..) inside
     `with open(path, 'w' | 'w+', encoding='utf-8') as file` is the operation Write path text; os.makedirs(p, exist_ok=True) is MkDir p;
     Path(a).joinpath(b) is path_join a b; '\\n' is the text `newline`; str(len(l)) inside an f-string is show_nat;
   * the truth value of a None-able text option (`if output_file:`) is: given and non-empty;
   * logging calls and the `import uproot` probe of rootio are not part of the dataflow. *)
'''

PRELUDE = '''Inductive res (E A : Type) := Ok (a : A) | Err (e : E).
Arguments Ok {E A} a. Arguments Err {E A} e.
Inductive fsop := MkDir (p : string) | Write (p : string) (text : string).
Fixpoint foldM {E X S : Type} (f : S -> X -> res E S) (l : list X) (s : S) : res E S :=
  match l with [] => Ok s | x :: r => match f s x with Ok s' => foldM f r s' | Err e => Err e end end.
Fixpoint mapM {E X Y : Type} (f : X -> res E Y) (l : list X) : res E (list Y) :=                (* [f(x) for x in l], stopping at the first error *)
  match l with [] => Ok [] | x :: r => match f x with Err e => Err e | Ok y => match mapM f r with Err e => Err e | Ok ys => Ok (y :: ys) end end end.
Definition mem_str (s : string) (l : list string) : bool := existsb (String.eqb s) l.
Fixpoint dict_set {B} (k : string) (v : B) (d : list (string * B)) : list (string * B) :=       (* d[k] = v on an insertion-ordered dict *)
  match d with [] => [(k, v)] | (k', v') :: r => if String.eqb k k' then (k', v) :: r else (k', v') :: dict_set k v r end.
Definition dict_of_pairs {B} (l : list (string * B)) : list (string * B) := fold_left (fun d kv => dict_set (fst kv) (snd kv) d) l [].
'''

LIB_PARAMS = '''(E B TL Opt OptCls Conf Model Data Tensor FitR PSpec Slice P PS Patch Mount : Type)
    (newline : string) (dumps : json -> string) (show_nat : nat -> string) (type_error : E)
    (read_json : string -> res E json) (mkws : json -> res E json)
    (ws_prune : json -> list string -> list string -> list string -> list string -> list string -> res E json)
    (ws_rename : json -> list (string * string) -> list (string * string) -> list (string * string) -> list (string * string) -> res E json)
    (ws_combine : json -> json -> string -> bool -> res E json) (ws_sorted : json -> res E json) (digest : json -> string -> res E string)
    (set_backend_named : B -> string -> option string -> B) (set_backend_obj : B -> TL -> Opt -> B) (get_tensorlib : B -> TL)
    (dict_union : list Conf -> Conf) (get_optimizer : string -> option OptCls) (make_optimizer : OptCls -> Conf -> res E Opt)
    (ws_model : B -> json -> option string -> option (list json) -> option json -> res E Model) (ws_data : B -> json -> Model -> res E Data)
    (mle_fit : B -> Data -> Model -> bool -> res E FitR) (fit_as_tensor fit_first fit_last : FitR -> Tensor)
    (par_map : Model -> list (string * PSpec)) (ps_slice : PSpec -> Slice) (tensor_slice : Tensor -> Slice -> Tensor) (tolist : TL -> Tensor -> json)
    (hypotest : B -> P -> Data -> Model -> string -> string -> res E (Tensor * list Tensor))
    (mkps : json -> res E PS) (ps_getitem : PS -> option string -> res E Patch) (patch_metadata patch_ops : Patch -> json) (ps_metadata : PS -> json)
    (jupdate : json -> json -> json) (ps_apply : PS -> json -> option string -> res E json) (ps_verify : PS -> json -> res E unit)
    (ps_patches : PS -> list Patch) (patch_name : Patch -> string)
    (xml_parse : string -> string -> list Mount -> bool -> bool -> res E json)
    (path_join : string -> string -> string) (jsonpatch_apply : json -> json -> res E json) (writexml : json -> string -> string -> string -> res E string)'''

OPAQUE = ('E B TL Opt OptCls Conf Model Data Tensor FitR PSpec Slice P PS Patch Mount newline dumps show_nat type_error read_json mkws ws_prune ws_rename ws_combine '
          'ws_sorted digest set_backend_named set_backend_obj get_tensorlib dict_union get_optimizer make_optimizer ws_model ws_data mle_fit fit_as_tensor fit_first '
          'fit_last par_map ps_slice tensor_slice tolist hypotest mkps ps_getitem patch_metadata patch_ops ps_metadata jupdate ps_apply ps_verify ps_patches patch_name '
          'xml_parse path_join jsonpatch_apply writexml')

# python-level type of each click parameter, per command (checked against the function signature; the click declarations themselves are the
# fact table of harness/props/c19.py)
T_OPT = tt.OPTION(STR)
L_STR = tt.LIST(STR)
L_PAIR = tt.LIST(tt.PROD(STR, STR))
COMMANDS = [
    ('infer.py', 'fit', 'fit', [('workspace', STR), ('output_file', T_OPT), ('measurement', T_OPT), ('patch', L_STR), ('value', BOOL), ('backend', STR),
                               ('optimizer', STR), ('optconf', tt.LIST('Conf'))]),
    ('infer.py', 'cls', 'cls', [('workspace', STR), ('output_file', T_OPT), ('measurement', T_OPT), ('patch', L_STR), ('test_poi', 'P'), ('test_stat', STR),
                               ('backend', STR), ('optimizer', STR), ('calctype', STR), ('optconf', tt.LIST('Conf'))]),
    ('spec.py', 'prune', 'prune', [('workspace', STR), ('output_file', T_OPT), ('channel', L_STR), ('sample', L_STR), ('modifier', L_STR), ('modifier_type', L_STR),
                                   ('measurement', L_STR)]),
    ('spec.py', 'rename', 'rename', [('workspace', STR), ('output_file', T_OPT), ('channel', L_PAIR), ('sample', L_PAIR), ('modifier', L_PAIR), ('measurement', L_PAIR)]),
    ('spec.py', 'combine', 'combine', [('workspace_one', STR), ('workspace_two', STR), ('join', STR), ('output_file', T_OPT), ('merge_channels', BOOL)]),
    ('spec.py', 'digest', 'digest', [('workspace', STR), ('algorithm', L_STR), ('output_json', BOOL)]),
    ('spec.py', 'sort', 'sort', [('workspace', STR), ('output_file', T_OPT)]),
    ('patchset.py', 'extract', 'patchset_extract', [('patchset', STR), ('name', T_OPT), ('output_file', T_OPT), ('with_metadata', BOOL)]),
    ('patchset.py', 'apply', 'patchset_apply', [('background_only', STR), ('patchset', STR), ('name', T_OPT), ('output_file', T_OPT)]),
    ('patchset.py', 'verify', 'patchset_verify', [('background_only', STR), ('patchset', STR)]),
    ('patchset.py', 'inspect', 'patchset_inspect', [('patchset', STR)]),
    ('rootio.py', 'xml2json', 'xml2json', [('entrypoint_xml', STR), ('basedir', STR), ('mount', tt.LIST('Mount')), ('output_file', T_OPT), ('track_progress', BOOL),
                                           ('validation_as_error', BOOL)]),
    ('rootio.py', 'json2xml', 'json2xml', [('workspace', STR), ('output_dir', STR), ('specroot', STR), ('dataroot', STR), ('resultprefix', STR), ('patch', L_STR)]),
]


def coq_string(s):
    return tt.coq_string(s)


class XC(t4.Exec4):
    exc_names = {'TypeError': 'type_error'}
    world_type = 'B'

    def __init__(self, sigs):
        super().__init__({})
        self.sigs = sigs                  # library function -> FunctionDef (for the binding of arguments)
        self.last_call = None

    # ---- names ---------------------------------------------------------------------------------------------------------------------
    def global_name(self, name, st):
        if name in ('click', 'json', 'Workspace', 'PatchSet', 'utils', 'mle', 'hypotest', 'set_backend', 'get_backend', 'optimize', 'getattr', 'dict', 'log', 'open',
                    'os', 'Path', 'jsonpatch', 'len', 'str'):
            return tt.Ext(name)
        raise tt.TB('unknown name %s' % name)

    def strterm(self, v, node=None):
        if isinstance(v, tt.S) and v.v == '\n':
            return 'newline'
        if isinstance(v, tt.S) and isinstance(v.v, str) and '\n' in v.v:
            segs = []
            for i, p_ in enumerate(v.v.split('\n')):
                if i:
                    segs.append('newline')
                if p_:
                    segs.append(coq_string(p_))
            return '(' + ' ++ '.join(segs) + ')%string'
        return super().strterm(v, node)

    def jterm(self, v, node=None):
        """a python value as a JSON document"""
        if isinstance(v, tt.T) and v.ty == JSON:
            return v.s
        if isinstance(v, tt.T) and v.ty == STR:
            return '(JStr %s)' % v.s
        if isinstance(v, tt.S) and isinstance(v.v, str):
            return '(JStr %s)' % self.strterm(v)
        if isinstance(v, tt.T) and v.ty == tt.LIST(JSON):
            return '(JArr %s)' % v.s
        if isinstance(v, tt.T) and v.ty in (tt.DICT(STR, STR),):
            return '(JObj (map (fun x_kv => (fst x_kv, JStr (snd x_kv))) %s))' % v.s
        if isinstance(v, tt.T) and v.ty == tt.DICT(STR, JSON):
            return '(JObj %s)' % v.s
        if isinstance(v, tt.Dct):
            return '(JObj [%s])' % '; '.join('(%s, %s)' % (coq_string(k), self.jterm(x, node)) for k, x in v.items.items())
        raise tt.TB('%r is not a JSON document%s' % (v, ' (line %d)' % node.lineno if node is not None else ''))

    def as_term(self, v):
        if isinstance(v, tt.Dct):
            return tt.mk(self.jterm(v), JSON, 2)
        return super().as_term(v)

    def merge(self, c, a, b):
        ta, tb_ = getattr(a, 'ty', None), getattr(b, 'ty', None)
        if {ta, tb_} == {'FitR', 'Tensor'}:
            a = a if ta == 'Tensor' else tt.T('(fit_as_tensor %s)' % a.s, 'Tensor')
            b = b if tb_ == 'Tensor' else tt.T('(fit_as_tensor %s)' % b.s, 'Tensor')
        return super().merge(c, a, b)

    # ---- attributes / subscripts ---------------------------------------------------------------------------------------------------------
    def attr_ext(self, base, attr, node, st):
        if isinstance(base, tt.S) and isinstance(base.v, str):
            return tt.Method(base, attr)
        if isinstance(base, tt.Ext):
            known = {('click', 'open_file'), ('click', 'echo'), ('click', 'secho'), ('json', 'load'), ('json', 'loads'), ('json', 'dump'), ('json', 'dumps'),
                     ('Workspace', 'combine'), ('Workspace', 'sorted'), ('utils', 'digest'), ('mle', 'fit'), ('os', 'makedirs'), ('jsonpatch', 'JsonPatch'),
                     ('readxml', 'parse'), ('writexml', 'writexml'), ('stream', 'read'), ('outstream', 'write'), ('jsonpatch-object', 'apply'), ('path', 'joinpath'),
                     ('xml-bytes', 'decode')}
            if (base.tag, attr) in known:
                return tt.Ext(base.tag + '.' + attr, base.data)
            if base.tag == 'tensorlib' and attr == 'tolist':
                return tt.Ext('tensorlib.tolist', base.data)
        return super().attr_ext(base, attr, node, st)

    def is_obj(self, v):
        return isinstance(v, tt.T) and v.ty in ('Model', 'ModelConfig', 'Patch', 'PS')

    def obj_attr(self, obj, attr, node, st):
        m = {('Model', 'config'): ('%s', 'ModelConfig'), ('ModelConfig', 'par_map'): ('(par_map %s)', tt.DICT(STR, 'PSpec')),
             ('Patch', 'metadata'): ('(patch_metadata %s)', JSON), ('Patch', 'patch'): ('(patch_ops %s)', JSON), ('Patch', 'name'): ('(patch_name %s)', STR),
             ('PS', 'metadata'): ('(ps_metadata %s)', JSON), ('PS', 'patches'): ('(ps_patches %s)', tt.LIST('Patch'))}
        if (obj.ty, attr) in m:
            f, ty = m[(obj.ty, attr)]
            return tt.mk(f % obj.s, ty, 0)
        if obj.ty == 'PS' and attr in ('apply', 'verify'):
            return tt.Ext('ps.' + attr, obj)
        raise tt.TB('attribute .%s of a %s (line %d)' % (attr, obj.ty, node.lineno))

    def subscript(self, base, idx, node):
        if isinstance(base, tt.T) and base.ty == 'PSpec' and isinstance(idx, tt.S) and idx.v == 'slice':
            return tt.T('(ps_slice %s)' % base.s, 'Slice')
        if isinstance(base, tt.T) and base.ty in ('Tensor', 'FitR') and isinstance(idx, tt.T) and idx.ty == 'Slice':
            b = base.s if base.ty == 'Tensor' else '(fit_as_tensor %s)' % base.s
            return tt.T('(tensor_slice %s %s)' % (b, idx.s), 'Tensor')
        if isinstance(base, tt.T) and base.ty == 'FitR' and isinstance(idx, tt.S) and idx.v in (0, -1) and not isinstance(idx.v, bool):
            return tt.T('(%s %s)' % ('fit_first' if idx.v == 0 else 'fit_last', base.s), 'Tensor')
        if isinstance(base, tt.T) and isinstance(base.ty, tuple) and base.ty[0] == 'prod' and isinstance(idx, tt.S) and idx.v == -1 and not isinstance(idx.v, bool) \
                and not (isinstance(base.ty[1], tuple) and base.ty[1][0] == 'prod'):
            return tt.T('(snd %s)' % base.s, base.ty[2])                 # a pair: [-1] is its second component
        if isinstance(base, tt.T) and base.ty == 'PS':
            if isinstance(idx, tt.T) and idx.ty == T_OPT:
                return self.emit_call('(ps_getitem %s %s)' % (base.s, idx.s), 'Patch', True, fresh=0, base='p')
            raise tt.TB('patchset[%r] (line %d)' % (idx, node.lineno))
        return super().subscript(base, idx, node)

    def expr(self, e, st):
        # getattr(optimize, a) or getattr(optimize, b): the first that is there
        if isinstance(e, ast.BoolOp) and isinstance(e.op, ast.Or) and len(e.values) == 2:
            vals = [self.expr(v, st) for v in e.values] if all(isinstance(v, ast.Call) and isinstance(v.func, ast.Name) and v.func.id == 'getattr' for v in e.values) else None
            if vals is not None:
                if not all(isinstance(v, tt.T) and v.ty == tt.OPTION('OptCls') for v in vals):
                    raise tt.TB('`or` of %r (line %d)' % (vals, e.lineno))
                return tt.T('(match %s with Some x_c => Some x_c | None => %s end)' % (vals[0].s, vals[1].s), tt.OPTION('OptCls'))
        return super().expr(e, st)

    def fstring_value(self, x, spec_s, node):
        if isinstance(x, tt.T) and x.ty == NAT and not spec_s:
            return tt.mk('(show_nat %s)' % x.s, STR, 2)
        return super().fstring_value(x, spec_s, node)

    def str_method(self, base, name, args, kwargs, node, st):
        if name == 'format':
            raise tt.TB('text formatting with .format (line %d)' % node.lineno)
        raise tt.TB('method .%s of a text (line %d)' % (name, node.lineno))

    # ---- calls -----------------------------------------------------------------------------------------------------------------------------
    def emit_call(self, text, ty, raises, fresh=2, base='r'):
        self.last_call = text
        return super().emit_call(text, ty, raises, fresh, base)

    def bind(self, key, args, kwargs, node, skip_self=False):
        fn = self.sigs[key]
        if skip_self and fn.args.args[:1] and fn.args.args[0].arg == 'cls':      # a classmethod: its first parameter is the class
            import copy
            fn = copy.copy(fn)
            fn.args = copy.copy(fn.args)
            fn.args.args = fn.args.args[1:]
            skip_self = False
        bound, params, extra = tt.bind_call(fn, args, kwargs, skip_self=skip_self, what=key)
        for p_, dv in tt.defaults_of(fn).items():
            if p_ not in bound and p_ in params:
                bound[p_] = self.expr(dv, tt.St())
        if set(bound) != set(params):
            raise tt.TB('%s: missing arguments (line %d)' % (key, node.lineno))
        return bound, extra

    def need(self, v, ty, node, what=''):
        if isinstance(v, tt.T) and tt.coqty3(v.ty) == tt.coqty3(ty):
            return v.s
        if isinstance(v, (tt.Lst, tt.Tup)) and not v.items and isinstance(ty, tuple) and ty[0] == 'list':
            return '[]'
        if isinstance(v, tt.S) and isinstance(v.v, str) and ty == STR:
            return self.strterm(v)
        if isinstance(v, tt.S) and isinstance(v.v, bool) and ty == BOOL:
            return 'true' if v.v else 'false'
        raise tt.TB('%s: a %s was expected, got %r (line %d)' % (what, tt.coqty3(ty), v, node.lineno))

    def optional(self, v, ty, node, what=''):
        if isinstance(v, tt.S) and v.v is None:
            return 'None'
        if isinstance(v, tt.T) and v.ty == tt.OPTION(ty):
            return v.s
        return '(Some %s)' % self.need(v, ty, node, what)

    def none_or_list(self, v, node, what):
        """parameters whose default None means `nothing` in the library (prune / rename): None and [] are the same list"""
        if isinstance(v, tt.S) and v.v is None:
            return '[]'
        return None

    def call_builtin(self, f, args, kwargs, e, st):
        if f.tag == 'get_backend' and not args and not kwargs:
            w = self.world(st, e)
            return tt.Tup([tt.Ext('tensorlib', tt.T('(get_tensorlib %s)' % w.s, 'TL')), tt.Ext('optimizer-of-backend')])
        if f.tag == 'dict' and len(args) == 1 and not kwargs and isinstance(args[0], tt.T) and args[0].ty == L_PAIR:
            return tt.mk('(dict_of_pairs %s)' % args[0].s, tt.DICT(STR, STR), 2)
        if f.tag == 'len' and len(args) == 1 and not kwargs and isinstance(args[0], tt.T) and isinstance(args[0].ty, tuple) and args[0].ty[0] == 'list':
            return tt.T('(length %s)' % args[0].s, NAT)
        return super().call_builtin(f, args, kwargs, e, st)

    def call_ext(self, f, args, kwargs, node, st):
        tag, ln = f.tag, node.lineno
        if tag == 'click.open_file':
            if len(args) == 2 and isinstance(args[1], tt.S) and args[1].v == 'r' and set(kwargs) == {'encoding'} and isinstance(kwargs['encoding'], tt.S) \
                    and kwargs['encoding'].v.lower().replace('-', '') == 'utf8' and self.is_str(args[0]):
                return tt.Ext('stream', args[0])
            if len(args) == 2 and isinstance(args[1], tt.S) and args[1].v == 'w' and set(kwargs) == {'encoding'} and isinstance(args[0], tt.T) and args[0].ty == 'path':
                return tt.Ext('outstream', args[0])
            raise tt.TB('click.open_file arguments (line %d)' % ln)
        if tag == 'open' and len(args) == 2 and isinstance(args[1], tt.S) and args[1].v in ('w', 'w+') and set(kwargs) == {'encoding'} and self.is_str(args[0]):
            return tt.Ext('outfile', args[0])
        if tag == 'json.load' and len(args) == 1 and not kwargs and isinstance(args[0], tt.Ext) and args[0].tag == 'stream':
            return self.emit_call('(read_json %s)' % self.strterm(args[0].data), JSON, True, base='j')
        if tag == 'stream.read' and not args and not kwargs:
            return tt.Ext('stream-text', f.data)
        if tag == 'json.loads' and len(args) == 1 and not kwargs and isinstance(args[0], tt.Ext) and args[0].tag == 'stream-text':
            return self.emit_call('(read_json %s)' % self.strterm(args[0].data), JSON, True, base='j')
        if tag == 'Workspace' and len(args) == 1 and not kwargs and isinstance(args[0], tt.T) and args[0].ty == JSON:
            return self.emit_call('(mkws %s)' % args[0].s, 'ws', True, base='w')
        if tag == 'PatchSet' and len(args) == 1 and not kwargs and isinstance(args[0], tt.T) and args[0].ty == JSON:
            return self.emit_call('(mkps %s)' % args[0].s, 'PS', True, fresh=0, base='s')
        if tag == 'Workspace.combine':
            b, extra = self.bind('Workspace.combine', args, kwargs, node, skip_self=True)
            if extra or not (isinstance(b['validate'], tt.S) and b['validate'].v is True):
                raise tt.TB('Workspace.combine arguments (line %d)' % ln)
            return self.emit_call('(ws_combine %s %s %s %s)' % (self.need(b['left'], 'ws', node), self.need(b['right'], 'ws', node), self.need(b['join'], STR, node),
                                                               self.need(b['merge_channels'], BOOL, node)), 'ws', True, base='w')
        if tag == 'Workspace.sorted':
            b, extra = self.bind('Workspace.sorted', args, kwargs, node, skip_self=True)
            return self.emit_call('(ws_sorted %s)' % self.need(b['workspace'], 'ws', node), 'ws', True, base='w')
        if tag == 'utils.digest':
            b, extra = self.bind('utils.digest', args, kwargs, node)
            return self.emit_call('(digest %s %s)' % (self.need(b['obj'], 'ws', node), self.need(b['algorithm'], STR, node)), STR, True, base='d')
        if tag == 'set_backend':
            b, extra = self.bind('set_backend', args, kwargs, node)
            if not (isinstance(b['default'], tt.S) and b['default'].v is False):
                raise tt.TB('set_backend(.., default=..) (line %d)' % ln)
            w = self.world(st, node)
            if isinstance(b['backend'], tt.S) and isinstance(b['backend'].v, str) and isinstance(b['custom_optimizer'], tt.S) and b['custom_optimizer'].v is None:
                self.set_world(st, '(set_backend_named %s %s %s)' % (w.s, self.strterm(b['backend']), self.optional(b['precision'], STR, node)))
                return tt.S(None)
            if isinstance(b['backend'], tt.Ext) and b['backend'].tag == 'tensorlib' and isinstance(b['custom_optimizer'], tt.T) and b['custom_optimizer'].ty == 'Opt' \
                    and isinstance(b['precision'], tt.S) and b['precision'].v is None:
                self.set_world(st, '(set_backend_obj %s %s %s)' % (w.s, b['backend'].data.s, b['custom_optimizer'].s))
                return tt.S(None)
            raise tt.TB('set_backend arguments (line %d)' % ln)
        if tag == 'getattr' and len(args) == 2 and not kwargs and isinstance(args[0], tt.Ext) and args[0].tag == 'optimize' and self.is_str(args[1]):
            return tt.T('(get_optimizer %s)' % self.strterm(args[1]), tt.OPTION('OptCls'))
        if tag == 'mle.fit':
            b, extra = self.bind('mle.fit', args, kwargs, node)
            if set(extra) != {'return_fitted_val'} or not all(isinstance(b[k], tt.S) and b[k].v is None for k in ('init_pars', 'par_bounds', 'fixed_params')):
                raise tt.TB('mle.fit arguments (line %d)' % ln)
            return self.emit_call('(mle_fit %s %s %s %s)' % (self.world(st, node).s, self.need(b['data'], 'Data', node), self.need(b['pdf'], 'Model', node),
                                                             self.need(extra['return_fitted_val'], BOOL, node)), 'FitR', True, base='f')
        if tag == 'hypotest':
            b, extra = self.bind('hypotest', args, kwargs, node)
            dfl = dict(init_pars=None, par_bounds=None, fixed_params=None, return_tail_probs=False, return_expected=False, return_expected_set=True, return_calculator=False)
            if set(extra) != {'test_stat'} or not all(isinstance(b[k], tt.S) and b[k].v is v for k, v in dfl.items()):
                raise tt.TB('hypotest arguments (line %d)' % ln)
            return self.emit_call('(hypotest %s %s %s %s %s %s)' % (self.world(st, node).s, self.need(b['poi_test'], 'P', node), self.need(b['data'], 'Data', node),
                                                                    self.need(b['pdf'], 'Model', node), self.need(extra['test_stat'], STR, node),
                                                                    self.need(b['calctype'], STR, node)), tt.PROD('Tensor', tt.LIST('Tensor')), True, base='h')
        if tag == 'tensorlib.tolist' and len(args) == 1 and not kwargs and isinstance(args[0], tt.T) and args[0].ty in ('Tensor', 'FitR'):
            a = args[0].s if args[0].ty == 'Tensor' else '(fit_as_tensor %s)' % args[0].s
            return tt.mk('(tolist %s %s)' % (f.data.s, a), JSON, 2)
        if tag == 'json.dumps' and len(args) == 1:
            return tt.mk(self.dumps(args[0], kwargs, node), STR, 2)
        if tag == 'ps.apply':
            b, extra = self.bind('PatchSet.apply', args, kwargs, node, skip_self=True)
            return self.emit_call('(ps_apply %s %s %s)' % (f.data.s, self.need(b['spec'], 'ws', node), self.optional(b['key'], STR, node)), 'ws', True, base='w')
        if tag == 'ps.verify':
            b, extra = self.bind('PatchSet.verify', args, kwargs, node, skip_self=True)
            return self.emit_call('(ps_verify %s %s)' % (f.data.s, self.need(b['spec'], 'ws', node)), tt.UNIT, True, base='u')
        if tag == 'readxml.parse':
            b, extra = self.bind('readxml.parse', args, kwargs, node)
            return self.emit_call('(xml_parse %s %s %s %s %s)' % (self.need(b['configfile'], STR, node), self.need(b['rootdir'], STR, node),
                                                                  self.need(b['mounts'], tt.LIST('Mount'), node), self.need(b['track_progress'], BOOL, node),
                                                                  self.need(b['validation_as_error'], BOOL, node)), 'ws', True, base='x')
        if tag == 'Path' and len(args) == 1 and not kwargs and self.is_str(args[0]):
            return tt.Ext('path', args[0])
        if tag == 'path.joinpath' and len(args) == 1 and not kwargs and self.is_str(args[0]):
            return tt.T('(path_join %s %s)' % (self.strterm(f.data), self.strterm(args[0])), 'path')
        if tag == 'jsonpatch.JsonPatch' and len(args) == 1 and not kwargs and isinstance(args[0], tt.T) and args[0].ty == JSON:
            return tt.Ext('jsonpatch-object', args[0])
        if tag == 'jsonpatch-object.apply' and len(args) == 1 and not kwargs and isinstance(args[0], tt.T) and args[0].ty == JSON:
            return self.emit_call('(jsonpatch_apply %s %s)' % (f.data.s, args[0].s), JSON, True, base='j')
        if tag == 'writexml.writexml':
            b, extra = self.bind('writexml.writexml', args, kwargs, node)
            pth = lambda v: v.s if isinstance(v, tt.T) and v.ty == 'path' else self.need(v, STR, node)
            r = self.emit_call('(writexml %s %s %s %s)' % (self.need(b['spec'], JSON, node), pth(b['specdir']), pth(b['data_rootdir']), self.need(b['resultprefix'], STR, node)),
                               STR, True, base='x')
            return tt.Ext('xml-bytes', r)
        if tag == 'xml-bytes.decode' and len(args) == 1 and not kwargs and isinstance(args[0], tt.S) and str(args[0].v).lower().replace('-', '') == 'utf8':
            return f.data
        raise tt.TB('call of %r (line %d)' % (f, ln))

    def dumps(self, obj, kwargs, node):
        kw = dict(kwargs)
        ind, sk = kw.pop('indent', None), kw.pop('sort_keys', tt.S(False))
        if kw or not (isinstance(ind, tt.S) and ind.v == 4) or not (isinstance(sk, tt.S) and isinstance(sk.v, bool)):
            raise tt.TB('json.dump(s) options other than indent=4, sort_keys=<constant> (line %d)' % node.lineno)
        j = self.jterm(self.ws_json(obj), node)
        return '(dumps (canon %s))' % j if sk.v else '(dumps %s)' % j

    def ws_json(self, v):
        if isinstance(v, tt.T) and v.ty == 'ws':          # a Workspace is a dict: dumped as its document
            return tt.T(v.s, JSON)
        return v

    def call_value(self, f, args, kwargs, node, st):
        if isinstance(f, tt.T) and f.ty == tt.OPTION('OptCls') and not args and set(kwargs) == {'**'} and isinstance(kwargs['**'], tt.T) and kwargs['**'].ty == 'Conf':
            var = self.fresh_var('c')
            self.pending.append((f.s, var, 'TypeError'))
            return self.emit_call('(make_optimizer %s %s)' % (var, kwargs['**'].s), 'Opt', True, base='o')
        raise tt.TB('call of the value %r (line %d)' % (f, node.lineno))

    def method_ext(self, base, name, args, kwargs, node, st):
        ln = node.lineno
        if isinstance(base, tt.T) and base.ty == 'ws':
            if name == 'prune':
                b, extra = self.bind('Workspace.prune', args, kwargs, node, skip_self=True)
                g = lambda k: self.none_or_list(b[k], node, k) or self.need(b[k], L_STR, node, 'prune(%s)' % k)
                return self.emit_call('(ws_prune %s %s %s %s %s %s)' % (base.s, g('channels'), g('samples'), g('modifiers'), g('modifier_types'), g('measurements')),
                                      'ws', True, base='w')
            if name == 'rename':
                b, extra = self.bind('Workspace.rename', args, kwargs, node, skip_self=True)
                g = lambda k: self.none_or_list(b[k], node, k) or self.need(b[k], tt.DICT(STR, STR), node, 'rename(%s)' % k)
                return self.emit_call('(ws_rename %s %s %s %s %s)' % (base.s, g('channels'), g('samples'), g('modifiers'), g('measurements')), 'ws', True, base='w')
            if name == 'model':
                b, extra = self.bind('Workspace.model', args, kwargs, node, skip_self=True)
                if set(extra) - {'modifier_settings'} or not (isinstance(b['measurement_index'], tt.S) and b['measurement_index'].v is None):
                    raise tt.TB('Workspace.model arguments (line %d)' % ln)
                ms = 'None' if 'modifier_settings' not in extra else '(Some %s)' % self.jterm(extra['modifier_settings'], node)
                return self.emit_call('(ws_model %s %s %s %s %s)' % (self.world(st, node).s, base.s, self.optional(b['measurement_name'], STR, node),
                                                                     self.optional(b['patches'], tt.LIST(JSON), node), ms), 'Model', True, fresh=0, base='m')
            if name == 'data':
                b, extra = self.bind('Workspace.data', args, kwargs, node, skip_self=True)
                if not (isinstance(b['include_auxdata'], tt.S) and b['include_auxdata'].v is True):
                    raise tt.TB('Workspace.data arguments (line %d)' % ln)
                return self.emit_call('(ws_data %s %s %s)' % (self.world(st, node).s, base.s, self.need(b['model'], 'Model', node)), 'Data', True, base='d')
        if self.is_str(base) and isinstance(base, tt.S) and name == 'join' and len(args) == 1 and not kwargs and isinstance(args[0], tt.T) and args[0].ty == L_STR:
            return tt.mk('(String.concat %s %s)' % (self.strterm(base), args[0].s), STR, 2)
        return super().method_ext(base, name, args, kwargs, node, st)

    def method(self, base, name, args, kwargs, node, st):
        if isinstance(base, tt.S) and isinstance(base.v, str):
            return self.method_ext(base, name, args, kwargs, node, st)
        return super().method(base, name, args, kwargs, node, st)

    # ---- comprehensions --------------------------------------------------------------------------------------------------------------------------
    def comprehension(self, e, st):
        """[<raising call on x> for x in l]  ->  mapM"""
        if isinstance(e, (ast.ListComp, ast.GeneratorExp)) and len(e.generators) == 1 and not e.generators[0].ifs and isinstance(e.generators[0].target, ast.Name):
            g = e.generators[0]
            it = self.expr(g.iter, st)
            if isinstance(it, tt.T) and isinstance(it.ty, tuple) and it.ty[0] == 'list':
                var = 'x_' + g.target.id
                st2 = st.copy()
                st2.env[g.target.id] = tt.mk(var, it.ty[1], 0)
                saved, self.pending = self.pending, []
                try:
                    body = self.expr(e.elt, st2)
                    pend = self.pending
                finally:
                    self.pending = saved
                if pend:
                    if len(pend) != 1 or pend[0][0] != 'tpl' or not (isinstance(body, tt.T) and pend[0][1].endswith('| Ok %s => @@0@@ end)' % body.s)) \
                            or st2.attrs.get(WORLD) is not st.attrs.get(WORLD):
                        raise tt.TB('comprehension whose element is more than one raising call (line %d)' % e.lineno)
                    return self.emit_call('(mapM (fun %s => %s) %s)' % (var, self.last_call, it.s), tt.LIST(body.ty), True, base='l')
        return super().comprehension(e, st)

    def dict_comp(self, e, st):
        gens = e.generators
        # {k: v for item in optconf for k, v in item.items()}: the union of the option dictionaries, later ones winning
        if (len(gens) == 2 and not gens[0].ifs and not gens[1].ifs and isinstance(gens[0].target, ast.Name) and isinstance(gens[1].target, ast.Tuple)
                and ast.unparse(gens[1].iter) == '%s.items()' % gens[0].target.id and ast.unparse(gens[1].target) == '(%s, %s)' % (ast.unparse(e.key), ast.unparse(e.value))):
            it = self.expr(gens[0].iter, st)
            if isinstance(it, tt.T) and it.ty == tt.LIST('Conf'):
                return tt.mk('(dict_union %s)' % it.s, 'Conf', 2)
            raise tt.TB('dict comprehension over %r (line %d)' % (it, e.lineno))
        if len(gens) == 1 and not gens[0].ifs:
            g = gens[0]
            it = self.expr(g.iter, st)
            if isinstance(it, tt.T) and isinstance(it.ty, tuple) and it.ty[0] == 'dict':
                it = tt.mk(it.s, tt.LIST(tt.PROD(it.ty[1], it.ty[2])), 1)
            if isinstance(it, tt.Method) and it.fn == 'items' and isinstance(it.obj, tt.T) and isinstance(it.obj.ty, tuple) and it.obj.ty[0] == 'dict':
                it = tt.mk(it.obj.s, tt.LIST(tt.PROD(it.obj.ty[1], it.obj.ty[2])), 1)
            if not (isinstance(it, tt.T) and isinstance(it.ty, tuple) and it.ty[0] == 'list'):
                raise tt.TB('dict comprehension over %r (line %d)' % (it, e.lineno))
            names = [n.id for n in ast.walk(g.target) if isinstance(n, ast.Name)]
            var = 'x_' + '_'.join(names)
            st2 = st.copy()
            self.bind_pattern(g.target, tt.mk(var, it.ty[1], 0), st2, e)
            saved, self.pending = self.pending, []
            try:
                k = self.expr(e.key, st2)
                v = self.expr(e.value, st2)
                pend = self.pending
            finally:
                self.pending = saved
            ks = self.strterm(k, e)
            if pend:
                if len(pend) != 1 or pend[0][0] != 'tpl' or not (isinstance(v, tt.T) and pend[0][1].endswith('| Ok %s => @@0@@ end)' % v.s)):
                    raise tt.TB('dict comprehension whose value is more than one raising call (line %d)' % e.lineno)
                call = '(match %s with Err e => Err e | Ok x_v => Ok (%s, x_v) end)' % (self.last_call, ks)
                r = self.emit_call('(mapM (fun %s => %s) %s)' % (var, call, it.s), tt.LIST(tt.PROD(STR, v.ty)), True, base='l')
                return tt.mk('(dict_of_pairs %s)' % r.s, tt.DICT(STR, v.ty), 2)
            vt = v if isinstance(v, tt.T) else self.as_term(v)
            return tt.mk('(dict_of_pairs (map (fun %s => (%s, %s)) %s))' % (var, ks, vt.s, it.s), tt.DICT(STR, vt.ty), 2)
        raise tt.TB('dict comprehension shape (line %d)' % e.lineno)

    # ---- statements ------------------------------------------------------------------------------------------------------------------------------------
    def with_item(self, item, st):
        v = self.expr(item.context_expr, st)
        if isinstance(v, tt.Ext) and v.tag in ('stream', 'outfile', 'outstream'):
            return v
        raise tt.TB('with %r (line %d)' % (v, item.context_expr.lineno))

    def import_stmt(self, s, st):
        if isinstance(s, ast.ImportFrom) and s.module == 'pyhf' and len(s.names) == 1 and s.names[0].asname is None and s.names[0].name in ('readxml', 'writexml'):
            st.env[s.names[0].name] = tt.Ext(s.names[0].name)
            return None
        raise tt.TB('import inside a command (line %d)' % s.lineno)

    def out(self, st, key, item):
        cur = st.attrs[key]
        st.attrs[key] = tt.mk('(%s ++ [%s])' % (cur.s, item), cur.ty, 2)

    def effect_stmt(self, e, st):
        if isinstance(e, ast.Call) and isinstance(e.func, ast.Name) and e.func.id == 'set_backend' and 'set_backend' not in st.env:
            self.expr(e, st)
            return True
        if not (isinstance(e, ast.Call) and isinstance(e.func, ast.Attribute)):
            return False
        base = e.func.value
        if isinstance(base, ast.Name) and isinstance(st.env.get(base.id), tt.T) and st.env[base.id].ty == 'PS' and e.func.attr == 'verify':
            self.expr(e, st)                      # called for its possible error only
            return True
        if isinstance(base, ast.Name) and base.id in ('click', 'json', 'os') and base.id not in st.env or \
                (isinstance(base, ast.Name) and isinstance(st.env.get(base.id), tt.Ext) and st.env[base.id].tag == 'outstream'):
            f = self.expr(e.func, st)
            args, kwargs = self.call_args(e, st)
            if f.tag in ('click.echo', 'click.secho') and not kwargs and len(args) <= 1:
                if args:
                    self.out(st, OUT, '(%s ++ newline)%%string' % self.strterm(args[0], e))
                else:
                    self.out(st, OUT, 'newline')
                return True
            if f.tag == 'json.dump' and len(args) == 2 and isinstance(args[1], tt.Ext) and args[1].tag == 'outfile':
                self.out(st, FS, '(Write %s %s)' % (self.strterm(args[1].data, e), self.dumps(args[0], kwargs, e)))
                return True
            if f.tag == 'os.makedirs' and len(args) == 1 and set(kwargs) == {'exist_ok'} and isinstance(kwargs['exist_ok'], tt.S) and kwargs['exist_ok'].v is True:
                p_ = args[0].s if isinstance(args[0], tt.T) and args[0].ty == 'path' else self.strterm(args[0], e)
                self.out(st, FS, '(MkDir %s)' % p_)
                return True
            if f.tag == 'outstream.write' and len(args) == 1 and not kwargs:
                self.out(st, FS, '(Write %s %s)' % (f.data.s, self.strterm(args[0], e)))
                return True
            raise tt.TB('call of %r as a statement (line %d)' % (f, e.lineno))
        if isinstance(base, ast.Name) and base.id == 'log' and e.func.attr == 'error':
            return True
        return False

    def mutator(self, e, st):
        # result['metadata'].update(patchset.metadata) on a dict display built in the command
        if (isinstance(e, ast.Call) and isinstance(e.func, ast.Attribute) and e.func.attr == 'update' and isinstance(e.func.value, ast.Subscript)
                and isinstance(e.func.value.value, ast.Name) and isinstance(st.env.get(e.func.value.value.id), tt.Dct)
                and isinstance(e.func.value.slice, ast.Constant) and len(e.args) == 1 and not e.keywords):
            name, key = e.func.value.value.id, e.func.value.slice.value
            d = st.env[name]
            if key not in d.items or getattr(d, 'aliased', False):
                raise tt.TB('update of %s[%r] (line %d)' % (name, key, e.lineno))
            new = tt.Dct(dict(d.items))
            new.items[key] = tt.mk('(jupdate %s %s)' % (self.jterm(d.items[key], e), self.jterm(self.expr(e.args[0], st), e)), JSON, 1)
            new.kwdict = getattr(d, 'kwdict', False)
            st.env[name] = new
            return True
        return super().mutator(e, st)

    def has_effect_stmt(self, body):
        return True

    def mutated_roots(self, body):
        out = super().mutated_roots(body)
        for k in (OUT, FS):
            if ('attr', k) not in out:
                out.append(('attr', k))
        return out

    def stmt(self, s, st, rest):
        # the probe `try: import uproot; assert uproot / except ImportError: log.error(..)` of rootio: not part of the dataflow
        if isinstance(s, ast.Try) and [ast.unparse(x) for x in s.body] == ['import uproot', 'assert uproot'] and len(s.handlers) == 1 \
                and ast.unparse(s.handlers[0].type) == 'ImportError' and not s.orelse and not s.finalbody:
            return None
        # `if <None-able text>:`  ==  `if x is not None: (if x: A else: B) else: B`
        if isinstance(s, ast.If) and isinstance(s.test, ast.Name) and isinstance(st.env.get(s.test.id), tt.T) and st.env[s.test.id].ty == T_OPT:
            inner = ast.If(test=s.test, body=s.body, orelse=s.orelse)
            outer = ast.If(test=ast.Compare(left=s.test, ops=[ast.IsNot()], comparators=[ast.Constant(value=None)]), body=[inner], orelse=s.orelse)
            for n in (inner, outer, outer.test, outer.test.comparators[0]):
                ast.copy_location(n, s)
            return self.stmt(outer, st, rest)
        return super().stmt(s, st, rest)

    def for_stmt(self, s, st, rest):
        # a name the body assigns before it reads it, which also names something outside the loop (for pfile in patch: patch = ..): a temporary of the body
        for b in s.body[:1]:
            if isinstance(b, ast.Assign) and len(b.targets) == 1 and isinstance(b.targets[0], ast.Name) and b.targets[0].id in st.env:
                name = b.targets[0].id
                if not any(isinstance(n, ast.Name) and n.id == name for n in ast.walk(b.value)) and not any(isinstance(n, ast.Name) and n.id == name for r in rest for n in ast.walk(r)):
                    it = self.expr(s.iter, st)
                    new = name + '__loop'

                    class Ren(ast.NodeTransformer):
                        def visit_Name(self, n):
                            return ast.copy_location(ast.Name(id=new, ctx=n.ctx), n) if n.id == name else n
                    body = [Ren().visit(ast.parse(ast.unparse(x)).body[0]) for x in s.body]
                    for x, y in zip(body, s.body):
                        ast.copy_location(x, y)
                        ast.fix_missing_locations(x)
                    ivar = '\x00iter%d' % s.lineno
                    st.env[ivar] = it
                    n2 = ast.For(target=s.target, iter=ast.Name(id=ivar, ctx=ast.Load()), body=body, orelse=s.orelse)
                    ast.copy_location(n2, s)
                    ast.fix_missing_locations(n2)
                    return super().for_stmt(n2, st, rest)
        return super().for_stmt(s, st, rest)


def library_signatures():
    sigs = {}
    wt, _ = facts.parse('workspace.py')
    W = facts.find_class(wt, 'Workspace')
    for m in ('prune', 'rename', 'combine', 'sorted', 'model', 'data'):
        sigs['Workspace.' + m] = facts.find_func(W, m)
    pt, _ = facts.parse('patchset.py')
    P = facts.find_class(pt, 'PatchSet')
    for m in ('apply', 'verify'):
        sigs['PatchSet.' + m] = facts.find_func(P, m)
    sigs['utils.digest'] = facts.find_func(facts.parse('utils.py')[0], 'digest')
    sigs['mle.fit'] = facts.find_func(facts.parse('infer/mle.py')[0], 'fit')
    sigs['hypotest'] = facts.find_func(facts.parse('infer/__init__.py')[0], 'hypotest')
    sigs['set_backend'] = facts.find_func(facts.parse('tensor/manager.py')[0], 'set_backend')
    sigs['readxml.parse'] = facts.find_func(facts.parse('readxml.py')[0], 'parse')
    sigs['writexml.writexml'] = facts.find_func(facts.parse('writexml.py')[0], 'writexml')
    for k in ('Workspace.combine', 'Workspace.sorted'):
        if [ast.unparse(d) for d in sigs[k].decorator_list] != ['classmethod']:
            raise tt.TB('%s is not a classmethod' % k)
    return sigs


def generate():
    sigs = library_signatures()
    text, info = GEN_HEADER + PRELUDE, {}
    trees = {}
    for rel, fname, gname, params in COMMANDS:
        if rel not in trees:
            trees[rel] = facts.parse('cli/' + rel)
        tree, path = trees[rel]
        fn = facts.find_func(tree, fname)
        a = fn.args
        if sorted(x.arg for x in a.args) != sorted(p for p, _ in params) or a.vararg or a.kwarg or a.kwonlyargs or a.defaults:
            raise tt.TB('cli %s: parameters %r are not %r' % (fname, [x.arg for x in a.args], [p for p, _ in params]))
        x = XC(sigs)
        x.locals = tt.assigned_locals(fn)
        env = {}
        for p, ty in params:
            env[p] = tt.T(p, ty, ('name', p))            # (the key: what `is None` refines)
            env[p].fresh = 2 if ty in (STR, BOOL) else 0
        st = tt.St(env=env, attrs={WORLD: tt.mk('bk', 'B', 2), OUT: tt.mk('[]', tt.LIST(STR), 2), FS: tt.mk('[]', tt.LIST('fsop'), 2)})
        try:
            o = x.block(fn.body, st)
            body, r = x.render_fn(o, None, lambda s_: tt.T('(%s, %s, %s)' % (s_.attrs[WORLD].s, s_.attrs[OUT].s, s_.attrs[FS].s), 'out'))
        except tt.TB as e:
            raise tt.TB('cli %s: %s' % (gname, e))
        sig = ' '.join('(%s : %s)' % (p, tt.coqty3(ty)) for p, ty in params)
        text += '\n' + tt.source_comment('cli/' + rel, fn, path)
        text += 'Definition gen_cli_%s %s\n    %s (bk : B) : res E (B * list string * list fsop) :=\n  %s.\n' % (gname, LIB_PARAMS, sig, body if r else '(Ok %s)' % body)
        info['gen_cli_' + gname] = True
    return text, info


def extract(ctx):
    text, info = generate()
    core.write_if_changed(os.path.join(core.COQ, 'gen', GEN_NAME + '.v'), text)
    return dict(file='coq/gen/%s.v' % GEN_NAME, definitions=sorted(info))
