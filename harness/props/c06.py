"""C06 - profile-likelihood test statistics obey their case definitions.

Model: coq/TestStat.v (transcription of pyhf.infer.test_statistics with both fits abstract).
(i)  scripted fits: pyhf.infer.test_statistics.fit / fixed_poi_fit are replaced (harness side) by functions that
     return chosen parameters/values; the model is run inside Coq (vm_compute, exact rationals) with the same
     script (coq/TestStatRun.v) and value + fitted parameters are diffed exactly.
(ii) real fits on one-bin counting models n ~ Pois(mu s + b): the value is compared with the closed form of
     theorem C06_q_closed_form_counting; each comparison |stat_closed(...) - pyhf| <= 1e-5 is a Coq goal proved
     by `interval` about the very definition the theorem is about."""
import json
import logging
import math
import os
import re
from fractions import Fraction

from harness import core, facts

STATS = ['q', 'qtilde', 'q0', 't', 'ttilde']
FUNC = {'q': 'qmu', 'qtilde': 'qmu_tilde', 'q0': 'q0', 't': 'tmu', 'ttilde': 'tmu_tilde'}
SCOQ = {'q': 'SQ', 'qtilde': 'SQtilde', 'q0': 'SQ0', 't': 'ST', 'ttilde': 'STtilde'}
WARN = [(1, 'qmu test statistic used'), (2, 'qmu_tilde test statistic used'), (3, 'tmu test statistic used'),
        (4, 'tmu_tilde test statistic used'), (5, 'q0 test statistic only used')]
TOL_FIT = 1e-5

HEADER = '''From Coq Require Import ZArith QArith Qcanon List.
Require Import PV.Num PV.Run PV.TestStat PV.TestStatRun.
Import ListNotations.
'''


# ---------------------------------------------------------------------------------------
# tie to the source: pyhf/infer/test_statistics.py translated to coq/gen/TestStatGen.v on every run
ENVP = ['data', 'pdf', 'init_pars', 'par_bounds', 'fixed_params']          # what the hand model bundles as `e : Env`
GEN_PARAMS = ('(N : Num) (Env : Type) (fit : Env -> list (V N) * V N) (fixed_poi_fit : V N -> Env -> list (V N) * V N) '
              '(poi_index : Env -> option nat) (poi_lower : Env -> V N)')
GEN_ARGS = 'N Env fit fixed_poi_fit poi_index poi_lower'
WARN_CON = [('qmu test statistic used', 'WQmuBoundedAtZero'), ('qmu_tilde test statistic used', 'WQmuTildeNotBoundedAtZero'),
            ('tmu test statistic used', 'WTmuBoundedAtZero'), ('tmu_tilde test statistic used', 'WTmuTildeNotBoundedAtZero'),
            ('q0 test statistic only used', 'WQ0MuNonzero')]
GEN_HEADER = ('From Coq Require Import ZArith Bool List.\nRequire Import PV.Num PV.TestStat.\nImport ListNotations.\nLocal Open Scope list_scope.\n'
              '(* GENERATED on every run by harness/props/c06.py:extract from $VERIF_REPO/src/pyhf/infer/test_statistics.py - do not edit.\n'
              '   External calls are the Section variables of PV.TestStat: fit e / fixed_poi_fit mu e stand for the calls with\n'
              '   (data, pdf, init_pars, par_bounds, fixed_params) forwarded unchanged and return_fitted_val=True; poi_index e is\n'
              '   pdf.config.poi_index, poi_lower e is par_bounds[pdf.config.poi_index][0]. gen_f is f(.., return_fitted_pars=True),\n'
              '   gen_f_value is f(.., return_fitted_pars=False). *)\n')


def _tie_exec(tree, mle_tree):
    from harness import facts
    from harness.props import tie_translate as tt
    STAT = tt.PROD(tt.NUM, tt.PROD(tt.LIST(tt.NUM), tt.LIST(tt.NUM)))

    class X(tt.Exec):
        def __init__(self):
            super().__init__()
            self.patterns = [(tt.pattern('pdf.config.poi_index'), tt.T('(poi_index e)', tt.OPTION(tt.NAT))),
                             (tt.pattern('par_bounds[pdf.config.poi_index][0]'), tt.T('(poi_lower e)', tt.NUM))]

        def global_name(self, name, st):
            if name in ('get_backend', 'float', 'log', 'fit', 'fixed_poi_fit'):
                return tt.Ext(name)
            if name in ('_tmu_like', '_qmu_like'):
                return tt.Ext('internal', name)
            raise tt.TB('unknown name %s' % name)

        def attr_ext(self, base, attr, node, st):
            if isinstance(base, tt.Ext) and base.tag == 'tensorlib':
                return tt.Ext('tensorlib.' + attr)
            raise tt.TB('attribute .%s of %r (line %d)' % (attr, base, node.lineno))

        def warning(self, msg, node):
            for key, con in WARN_CON:
                if msg.startswith(key):
                    return con
            raise tt.TB('unknown warning text %r (line %d)' % (msg[:40], node.lineno))

        def forwarded(self, bound, what, node):
            for p in ENVP:
                v = bound.get(p)
                if not (isinstance(v, tt.Ext) and v.tag == 'env:' + p):
                    raise tt.TB('%s (line %d) does not receive the caller\'s %s as its %s' % (what, node.lineno, p, p))

        def call_ext(self, f, args, kwargs, node, st):
            if f.tag in ('fit', 'fixed_poi_fit'):
                bound, params, extra = tt.bind_call(facts.find_func(mle_tree, f.tag), args, kwargs, what='call of ' + f.tag)
                self.forwarded(bound, 'call of ' + f.tag, node)
                if list(extra) != ['return_fitted_val'] or not (isinstance(extra['return_fitted_val'], tt.S) and extra['return_fitted_val'].v is True):
                    raise tt.TB('call of %s (line %d): keyword arguments are not exactly return_fitted_val=True' % (f.tag, node.lineno))
                if set(bound) - set(ENVP) - {'poi_val'}:
                    raise tt.TB('call of %s (line %d): unexpected arguments' % (f.tag, node.lineno))
                ty = tt.PROD(tt.LIST(tt.NUM), tt.NUM)
                if f.tag == 'fit':
                    return tt.T('(fit e)', ty)
                return tt.T('(fixed_poi_fit %s e)' % self.num(bound.get('poi_val'), node), ty)
            if f.tag == 'internal':
                bound, params, extra = tt.bind_call(facts.find_func(tree, f.data), args, kwargs, what='call of ' + f.data)
                self.forwarded(bound, 'call of ' + f.data, node)
                rfp = bound.get('return_fitted_pars', tt.S(False))
                if not (isinstance(rfp, tt.S) and isinstance(rfp.v, bool)) or set(bound) - set(ENVP) - {'mu', 'return_fitted_pars'} or extra:
                    raise tt.TB('call of %s (line %d): arguments outside the translator' % (f.data, node.lineno))
                mu = self.num(bound.get('mu'), node)
                name = 'gen' + f.data                        # _tmu_like -> gen_tmu_like
                if rfp.v:
                    return tt.T('(%s %s %s e)' % (name, GEN_ARGS, mu), STAT)
                return tt.T('(%s_value %s %s e)' % (name, GEN_ARGS, mu), tt.NUM)
            raise tt.TB('call of %r (line %d)' % (f, node.lineno))
    return X(), STAT


def generate():
    """returns (Coq text of gen/TestStatGen.v, info).  Raises facts.TieBroken."""
    import ast
    from harness import facts
    from harness.props import tie_translate as tt
    rel = 'infer/test_statistics.py'
    tree, path = facts.parse(rel)
    mle_tree, _ = facts.parse('infer/mle.py')
    text = GEN_HEADER
    info = {}
    for name in ['_tmu_like', '_qmu_like', 'qmu', 'qmu_tilde', 'tmu', 'tmu_tilde', 'q0']:
        fn = facts.find_func(tree, name)
        params = [a.arg for a in fn.args.args]
        dfl = fn.args.defaults
        if (params != ['mu'] + ENVP + ['return_fitted_pars'] or fn.args.vararg or fn.args.kwarg or fn.args.kwonlyargs or len(dfl) != 1
                or not (isinstance(dfl[0], ast.Constant) and dfl[0].value is False)):
            raise tt.TB('%s: signature is not (mu, %s, return_fitted_pars=False)' % (name, ', '.join(ENVP)))
        text += '\n' + tt.source_comment(rel, fn, path)
        for rfp in (True, False):
            x, STAT = _tie_exec(tree, mle_tree)
            env = {'mu': tt.T('mu', tt.NUM), 'return_fitted_pars': tt.S(rfp)}
            env.update({p: tt.Ext('env:' + p) for p in ENVP})
            o = x.block(fn.body, tt.St(env=env))
            vty = 'V N * (list (V N) * list (V N))' if rfp else 'V N'

            def value(v):
                t = x.as_term(v)
                if t.ty != (STAT if rfp else tt.NUM):
                    raise tt.TB('%s returns a %r (return_fitted_pars=%r)' % (name, t.ty, rfp))
                return t.s
            gname = ('gen' + name if name.startswith('_') else 'gen_' + name) + ('' if rfp else '_value')
            if name.startswith('_'):
                o = tt.only_ret(o, name)
                if o.st.warns:
                    raise tt.TB('%s warns' % name)
                body, rty = value(o.val), vty
            else:
                def leaf(l):
                    if isinstance(l, tt.Exc):
                        if l.name != 'UnspecifiedPOI':
                            raise tt.TB('%s raises %s' % (name, l.name))
                        return '(inl EUnspecifiedPOI)'
                    if isinstance(l, tt.Ret):
                        return '(inr (%s, %s))' % (tt.render_warns(l.st.warns), value(l.val))
                    raise tt.TB('%s can end without a return' % name)
                body, rty = tt.render(o, leaf), 'tserr + (list tswarn * (%s))' % vty
            text += 'Definition %s %s (mu : V N) (e : Env) : %s :=\n  %s.\n' % (gname, GEN_PARAMS, rty, body)
            info[gname] = len(body)
    return text, info


def extract(ctx):
    from harness import facts
    text, info = generate()
    core.write_if_changed(os.path.join(core.COQ, 'gen', 'TestStatGen.v'), text)
    return dict(file='coq/gen/TestStatGen.v', definitions=sorted(info))


# ---------------------------------------------------------------------------------------
def fl(tb, x):
    v = tb.tolist(x) if not isinstance(x, (int, float)) else x
    while isinstance(v, list):
        assert len(v) == 1
        v = v[0]
    return float(v)


def fls(tb, x):
    return [float(v) for v in tb.tolist(x)]


class LogCatch(logging.Handler):
    def __init__(self):
        super().__init__()
        self.msgs = []

    def emit(self, record):
        self.msgs.append(record.getMessage())


def warn_codes(msgs):
    out = []
    for m in msgs:
        for code, key in WARN:
            if m.startswith(key):
                out.append(code)
                break
        else:
            out.append(0)
    return out


def models_for_script():
    """real models whose only role is to carry poi_index: 0, 1, None"""
    import pyhf
    m0 = pyhf.simplemodels.uncorrelated_background([5.0], [50.0], [7.0])            # pars: mu, uncorr_bkguncrt
    spec1 = {'channels': [{'name': 'c', 'samples': [
        {'name': 'sig', 'data': [5.0], 'modifiers': [{'name': 'mu', 'type': 'normfactor', 'data': None}]},
        {'name': 'bkg', 'data': [50.0], 'modifiers': [{'name': 'lumi', 'type': 'lumi', 'data': None}]}]}],
        'parameters': [{'name': 'lumi', 'auxdata': [1.0], 'sigmas': [0.1], 'bounds': [[0.5, 1.5]], 'inits': [1.0]}]}
    m1 = pyhf.Model(spec1, poi_name='mu')          # pars: lumi, mu
    mn = pyhf.Model({'channels': m0.spec['channels']}, poi_name=None)
    return {0: m0, 1: m1, None: mn}


ARGS = ['data', 'pdf', 'init_pars', 'par_bounds', 'fixed_params']


def plain(tb, x):
    """argument values as plain python (lists of floats / bools), whatever container they travel in"""
    if x is None or isinstance(x, (bool, int, float, str)):
        return x
    if isinstance(x, (list, tuple)):
        return [plain(tb, v) for v in x]
    try:
        return plain(tb, tb.tolist(x))
    except Exception:
        return repr(x)[:80]


class Scripted:
    """pyhf.infer.test_statistics with both fits replaced by a script; the replacements record what they are called with"""

    def __init__(self, backend):
        import pyhf
        import pyhf.infer.test_statistics as TS
        self.pyhf, self.TS = pyhf, TS
        pyhf.set_backend(backend)
        self.backend = backend
        self.tb, _ = pyhf.get_backend()
        self.models = models_for_script()
        self.script = None
        self.fixed_calls = []
        self.received = []
        self.saved = []

    def __enter__(self):
        tb, TS = self.tb, self.TS

        def fit(data, pdf, init_pars=None, par_bounds=None, fixed_params=None, return_fitted_val=False, **kw):
            sc = self.script
            self.free_calls += 1
            self.received.append(dict(which='fit', data=data, pdf=pdf, init_pars=init_pars, par_bounds=par_bounds, fixed_params=fixed_params, extra=sorted(kw)))
            p = tb.astensor(sc['free_pars'])
            return (p, tb.astensor(sc['free_val'])) if return_fitted_val else p

        def fixed_poi_fit(poi_val, data, pdf, init_pars=None, par_bounds=None, fixed_params=None, return_fitted_val=False, **kw):
            sc = self.script
            mu = float(poi_val)
            self.fixed_calls.append(mu)
            self.received.append(dict(which='fixed_poi_fit', data=data, pdf=pdf, init_pars=init_pars, par_bounds=par_bounds, fixed_params=fixed_params, extra=sorted(kw)))
            pars = list(sc['fixed_pars'])
            if sc['poi'] is not None:
                pars[sc['poi']] = mu
            p = tb.astensor(pars)
            return (p, tb.astensor(sc['a'] + sc['c'] * mu)) if return_fitted_val else p
        for name, f in (('fit', fit), ('fixed_poi_fit', fixed_poi_fit)):
            self.saved.append((name, getattr(TS, name)))
            setattr(TS, name, f)
        self.handler = LogCatch()
        self.logger = logging.getLogger('pyhf.infer.test_statistics')
        self.logger.addHandler(self.handler)
        self.old_level = self.logger.level
        self.logger.setLevel(logging.WARNING)
        return self

    def __exit__(self, *a):
        for name, f in self.saved:
            setattr(self.TS, name, f)
        self.saved = []
        self.logger.removeHandler(self.handler)
        self.logger.setLevel(self.old_level)

    def run(self, sc):
        tb = self.tb
        self.script = sc
        self.fixed_calls = []
        self.received = []
        self.free_calls = 0
        self.handler.msgs = []
        model = self.models[sc['poi']]
        npar = len(sc['free_pars'])
        bounds = [(0.0, 10.0)] * npar
        init = [1.0] * npar
        fixed = [False] * npar
        data = [55.0] + [float(x) for x in model.config.auxdata]
        caller = sc.get('caller')
        if caller:          # caller-chosen arguments, different for every script: both fits must be run with exactly these
            init = [float(x) for x in caller['init_pars']]
            bounds = [(float(lo), float(hi)) for lo, hi in caller['par_bounds']]
            fixed = [bool(x) for x in caller['fixed_params']]
            data = [float(caller['data0'])] + data[1:]
        if sc['poi'] is not None:
            bounds[sc['poi']] = (sc['lower'], bounds[sc['poi']][1])
        passed = dict(data=data, pdf=model, init_pars=init, par_bounds=bounds, fixed_params=fixed)
        if sc.get('via_get_test_stat') and sc['stat'] in ('q', 'qtilde', 'q0'):
            func = self.pyhf.infer.utils.get_test_stat(sc['stat'])
        else:
            func = getattr(self.TS, FUNC[sc['stat']])
        out = {}
        try:
            r = func(sc['mu'], data, model, init, bounds, fixed, return_fitted_pars=True)
            out['value'] = fl(tb, r[0])
            out['pars'] = [fls(tb, r[1][0]), fls(tb, r[1][1])]
            out['warnings'] = warn_codes(self.handler.msgs)
            out['fixed_calls'] = list(self.fixed_calls)
            self.handler.msgs = []
            r2 = func(sc['mu'], data, model, init, bounds, fixed)
            out['value_only'] = fl(tb, r2)
            out['passed'] = {k: plain(tb, v) for k, v in passed.items() if k != 'pdf'}
            out['fit_calls'] = []
            for rc in self.received:
                got = {k: plain(tb, rc[k]) for k in ARGS if k != 'pdf'}
                got['pdf'] = 'the model passed' if rc['pdf'] is model else repr(type(rc['pdf']).__name__)
                wrong = [k for k in ARGS if (rc['pdf'] is not model if k == 'pdf' else got[k] != out['passed'][k])]
                out['fit_calls'].append(dict(which=rc['which'], received=got, differs=wrong, extra=rc['extra']))
        except Exception as e:
            out['exception'] = core.exc_enum(e)
            out['msg'] = str(e)[:160]
        return out


def gen_scripts(rng, n_random):
    """every branch: muhat above / below / at mu, at the lower bound, negative; raw ratio negative / zero / positive"""
    out = []
    D = lambda k: k / 8.0
    for stat in STATS:
        for poi in (0, 1):
            for lower in (0.0, -5.0):
                for mu in (0.0, 1.0, 2.5):
                    for rel in ('above', 'below', 'at', 'lower', 'negative'):
                        muhat = {'above': mu + 0.75, 'below': mu - 0.5, 'at': mu, 'lower': lower, 'negative': -0.25}[rel]
                        for ratio in (-1.5, 0.0, 3.25):
                            free_val = 100.0
                            c = D(rng.randrange(-16, 17))
                            # fixed value a + c*mu_fitted must give the scripted ratio at the mu that is really fitted
                            mu_fit = 0.0 if stat == 'q0' else mu
                            a = free_val + ratio - c * mu_fit
                            free = [D(rng.randrange(0, 40)), D(rng.randrange(0, 40))]
                            free[poi] = muhat
                            fixedp = [D(rng.randrange(0, 40)), D(rng.randrange(0, 40))]
                            out.append(dict(stat=stat, poi=poi, lower=lower, mu=mu, free_pars=free, free_val=free_val, fixed_pars=fixedp,
                                            a=a, c=c, regime='%s/ratio%s' % (rel, '<0' if ratio < 0 else ('=0' if ratio == 0 else '>0'))))
    keep = out if n_random is None else rng.sample(out, min(len(out), n_random))
    # fully random scripts
    for _ in range(len(keep) // 4):
        stat = rng.choice(STATS)
        poi = rng.choice([0, 1])
        free = [D(rng.randrange(-24, 64)), D(rng.randrange(-24, 64))]
        keep.append(dict(stat=stat, poi=poi, lower=rng.choice([0.0, -5.0, 0.5]), mu=D(rng.randrange(0, 48)), free_pars=free,
                         free_val=D(rng.randrange(0, 4000)), fixed_pars=[D(rng.randrange(0, 40)), D(rng.randrange(0, 40))],
                         a=D(rng.randrange(0, 4000)), c=D(rng.randrange(-32, 33)), regime='random'))
    for stat in STATS:       # no POI defined
        keep.append(dict(stat=stat, poi=None, lower=0.0, mu=1.0, free_pars=[1.0, 1.0], free_val=10.0, fixed_pars=[1.0, 1.0], a=11.0, c=0.0, regime='no-poi'))
    for i, sc in enumerate(keep):
        sc['via_get_test_stat'] = bool(i % 2)
        # caller-chosen fit arguments, different for every script (the POI lower bound stays the scripted one)
        sc['caller'] = dict(init_pars=[D(rng.randrange(1, 40)), D(rng.randrange(1, 40))],
                            par_bounds=[[-D(rng.randrange(1, 40)), 10.0 + D(rng.randrange(1, 400))] for _ in range(2)],
                            fixed_params=[rng.random() < 0.3, rng.random() < 0.3], data0=50.0 + D(rng.randrange(0, 80)))
    return keep


def script_expr(sc):
    poi = 'None' if sc['poi'] is None else '(Some %d%%nat)' % sc['poi']
    return 'run_ts %s %s %s %s %s %s %s %s %s' % (SCOQ[sc['stat']], core.q(sc['mu']), core.qlist(sc['free_pars']), core.q(sc['free_val']),
                                               core.qlist(sc['fixed_pars']), core.q(sc['a']), core.q(sc['c']), poi, core.q(sc['lower']))


def decode_script(res):
    v = core.parse_qc(res)
    if v[0] == 'inl':
        return dict(exception='UnspecifiedPOI')
    w, val, p1, p2 = v[1]
    return dict(warnings=list(w), value=core.to_frac(val), pars=[core.to_frac(p1), core.to_frac(p2)])


def spec_value(sc):
    """the property's own wording, evaluated directly on the script (exact rationals)"""
    F = core.frac
    mu_fit = F(0) if sc['stat'] == 'q0' else F(sc['mu'])
    ratio = F(sc['a']) + F(sc['c']) * mu_fit - F(sc['free_val'])
    t = max(F(0), ratio)
    muhat = F(sc['free_pars'][sc['poi']])
    if sc['stat'] in ('q', 'qtilde') and muhat > F(sc['mu']):
        t = F(0)
    if sc['stat'] == 'q0' and muhat < 0:
        t = F(0)
    fixedp = [F(x) for x in sc['fixed_pars']]
    fixedp[sc['poi']] = mu_fit
    return t, [fixedp, [F(x) for x in sc['free_pars']]]


# ---------------------------------------------------------------------------------------
# (ii) real fits on one-bin counting models
def counting_model(s, b, lo, hi):
    """lo is None: the POI is left unconfigured (pyhf's default range and starting value)"""
    import pyhf
    if lo is None:
        spec = {'channels': [{'name': 'c', 'samples': [
            {'name': 'sig', 'data': [float(s)], 'modifiers': [{'name': 'mu', 'type': 'normfactor', 'data': None}]},
            {'name': 'bkg', 'data': [float(b)], 'modifiers': []}]}],
            'observations': [{'name': 'c', 'data': [0.0]}],
            'measurements': [{'name': 'm', 'config': {'poi': 'mu', 'parameters': []}}], 'version': '1.0.0'}
        return pyhf.Workspace(spec).model()
    spec = {'channels': [{'name': 'c', 'samples': [
        {'name': 'sig', 'data': [float(s)], 'modifiers': [{'name': 'mu', 'type': 'normfactor', 'data': None}]},
        {'name': 'bkg', 'data': [float(b)], 'modifiers': []}]}],
        'observations': [{'name': 'c', 'data': [0.0]}],
        'measurements': [{'name': 'm', 'config': {'poi': 'mu', 'parameters': [{'name': 'mu', 'bounds': [[float(lo), float(hi)]], 'inits': [1.0]}]}}],
        'version': '1.0.0'}
    return pyhf.Workspace(spec).model()


def closed_form(st, n, s, b, lo, hi, mu):
    """python floats: only a proposer (regime / pre-screen); the certified comparison is the Coq goal"""
    u = (n - b) / s
    m = max(lo, min(hi, u))
    lam = lambda x: x * s + b
    t = lambda x: 2 * ((lam(x) - lam(m)) - (n * math.log(lam(x) / lam(m)) if n > 0 else 0.0))
    if st in ('t', 'ttilde'):
        return t(mu)
    if st in ('q', 'qtilde'):
        return 0.0 if mu < m else t(mu)
    return 0.0 if m < 0 else t(0.0)


def gen_counting(rng, n_models, thorough):
    out = []
    pool_n = [0, 1, 3, 5, 10, 20, 50, 200]
    pool_sb = [(2, 3), (5, 10), (10, 50), (1, 0.5), (4, 1), (3, 7.5)]
    combos = [(n, s, b, lo) for n in pool_n for (s, b) in pool_sb for lo in (0.0, -0.125)]
    rng.shuffle(combos)
    for (n, s, b, lo) in combos[:n_models]:
        hi = 10.0
        u = (n - b) / s
        m = max(lo, min(hi, u))
        mus = [0.0, 1.0, rng.choice([0.5, 2.0, 3.0, 9.5])]
        if lo < m < hi:
            mus.append(m)            # tested value = best fit
        for mu in dict.fromkeys(mus):
            for st in STATS:
                out.append(dict(stat=st, n=float(n), s=float(s), b=float(b), lo=lo, hi=hi, mu=float(mu),
                                regime=('at-lo' if u <= lo else ('at-hi' if u >= hi else 'interior')) + ('/mu=muhat' if mu == m else '')))
    # POI range and starting value supplied by the CALLER (the model keeps pyhf's default range [0, 10]) and a best fit outside the default range
    wide = [(n, s, b, lo) for (n, s, b, lo) in combos if (n - b) / s > 12.0]
    for (n, s, b, lo) in wide[:max(2, n_models // 3)]:
        u = (n - b) / s
        hi = float(rng.choice([2, 4]) * math.ceil(u))
        for mu in dict.fromkeys([0.0, 1.0, float(math.ceil(u)) + rng.choice([2.0, 5.0, 10.0]), hi, u]):
            for st in STATS:
                out.append(dict(stat=st, n=float(n), s=float(s), b=float(b), lo=lo, hi=hi, mu=float(mu), caller_bounds=True, init=rng.choice([1.0, 5.0, float(math.ceil(u))]),
                                regime='interior/caller-bounds/best-fit-outside-default-range' + ('/mu=muhat' if mu == u else '')))
    return out


def run_counting(cases, optimizer=None):
    import pyhf
    import pyhf.infer.test_statistics as TS
    pyhf.set_backend('numpy', optimizer or 'scipy')
    cache = {}
    outs = []
    logging.getLogger('pyhf.infer.test_statistics').setLevel(logging.ERROR)
    for c in cases:
        key = (c['s'], c['b'], None, None) if c.get('caller_bounds') else (c['s'], c['b'], c['lo'], c['hi'])
        if key not in cache:
            cache[key] = counting_model(*key)
        model = cache[key]
        func = getattr(TS, FUNC[c['stat']])
        init, bounds = model.config.suggested_init(), model.config.suggested_bounds()
        if c.get('caller_bounds'):
            init, bounds = [float(c.get('init', 1.0))], [(float(c['lo']), float(c['hi']))]
        try:
            r, (p1, p2) = func(c['mu'], [c['n']], model, init, bounds,
                               model.config.suggested_fixed(), return_fitted_pars=True)
            outs.append(dict(value=float(r), muhat=float(p2[0]), mu_fixed=float(p1[0])))
        except Exception as e:
            outs.append(dict(exception=core.exc_enum(e), msg=str(e)[:160]))
    return outs


def rat(x):
    f = core.frac(x)
    return '(%d / %d)' % (f.numerator, f.denominator) if f.denominator != 1 else ('(%d)' % f.numerator)


def counting_goal(i, c, impl_value):
    n, s, b, lo, hi, mu = (core.frac(c[k]) for k in ('n', 's', 'b', 'lo', 'hi', 'mu'))
    u = (n - b) / s
    if u <= lo:
        m, path = lo, 'left'
    elif u >= hi:
        m, path = hi, 'right; right'
    else:
        m, path = u, 'right; left'
    args = ' '.join(rat(x) for x in (n, s, b, lo, hi))
    return ('Lemma g_%d : Rabs (stat_closed %s %s %s - %s) <= %s.\n'
            'Proof. assert (E : muhat_c %s = %s) by (apply muhat_c_eq; [lra | %s; split; lra]).\n'
            '  unfold stat_closed, t_closed. rewrite E. try (destruct (Rlt_dec _ _); try (exfalso; lra)); unfold lam; interval. Qed.\n'
            % (i, SCOQ[c['stat']], args, rat(mu), rat(impl_value), rat(TOL_FIT), args, rat(m), path))


GOAL_HEADER = '''From Coq Require Import Reals Lra.
From Interval Require Import Tactic.
Require Import PV.Num PV.TestStat.
Local Open Scope R_scope.
'''


def certify(ctx, name, items):
    """items: list of (index, goal text).  Returns set of indices whose goal Coq rejected, or raises CoqEvalError."""
    import subprocess
    d = os.path.join(ctx.work, name)
    os.makedirs(d, exist_ok=True)
    nfiles = max(1, min(core.NCPU, (len(items) + 14) // 15))
    chunks = [items[k::nfiles] for k in range(nfiles)]
    rejected = set()
    pending = [(k, ch) for k, ch in enumerate(chunks) if ch]
    for _round in range(6):
        procs = []
        for k, ch in pending:
            fn = os.path.join(d, 'goals_%d.v' % k)
            with open(fn, 'w') as f:
                f.write(GOAL_HEADER + ''.join(g for _, g in ch))
            procs.append((k, ch, fn, subprocess.Popen(['timeout', '600', 'coqc', '-w', '-all', '-R', core.COQ, 'PV', fn], cwd=d,
                                                      stdout=subprocess.PIPE, stderr=subprocess.STDOUT, text=True)))
        pending = []
        for k, ch, fn, pr in procs:
            out, _ = pr.communicate()
            if pr.returncode == 0:
                continue
            m = re.search(r'line (\d+), characters', out)
            if not m:
                raise core.CoqEvalError('coqc failed on %s:\n%s' % (fn, out[-1500:]))
            line = int(m.group(1))
            # which lemma does that line belong to
            text = open(fn).read().split('\n')
            idx = None
            for ln in range(line - 1, -1, -1):
                mm = re.match(r'Lemma g_(\d+) ', text[ln])
                if mm:
                    idx = int(mm.group(1))
                    break
            if idx is None:
                raise core.CoqEvalError('coqc failed on %s outside a goal:\n%s' % (fn, out[-1500:]))
            rejected.add(idx)
            rest = [(i, g) for i, g in ch if i != idx]
            if rest:
                pending.append((k, rest))
        if not pending:
            return rejected
    raise core.CoqEvalError('too many rejected goals in %s (%d so far)' % (name, len(rejected)))


# ---------------------------------------------------------------------------------------
def backends_for(ctx):
    others = ['jax', 'pytorch', 'tensorflow']
    return ['numpy', others[ctx.seed % 2]] if ctx.quick else ['numpy'] + others


def load_corpus():
    d = os.path.join(core.VERIF, 'corpus', 'C06')
    scripts, counting = [], []
    if os.path.isdir(d):
        for fn in sorted(os.listdir(d)):
            if fn.endswith('.json'):
                body = json.load(open(os.path.join(d, fn)))
                scripts += body.get('scripts', [])
                counting += body.get('counting', [])
    return scripts, counting


def run(ctx):
    rng = ctx.rng
    tie = None
    try:
        ctx.coverage['translated_from_source'] = extract(ctx)
    except facts.TieBroken as e:
        tie = 'translation of pyhf/infer/test_statistics.py to Gallina failed (harness/props/c06.py:extract): %s' % e
    if tie is None:
        ok, txt = core.prove(ctx)
        if not ok:
            why = ('the functions translated from the source no longer coincide with the hand model (coq/TieTestStat.v, C06_source_is_model_*): '
                   if ('Tie' in txt or 'source_is_model' in txt or 'Gen.v' in txt) else 'proof obligations of props/C06.v no longer check: ')
            tie = why + txt[-1200:]
    rc, mout, _ = core.coq_make(['TestStatRun.vo'])
    if rc != 0:
        tie = tie or ('coq/TestStatRun.v does not build: ' + mout[-800:])
    model_ok = rc == 0          # the hand model is run for the correspondence even when a tie theorem no longer checks
    ctx.trusted += ['harness/props/c06.py:extract + harness/props/tie_translate.py (python ast -> Gallina for _tmu_like, _qmu_like, qmu, qmu_tilde, tmu, '
                    'tmu_tilde, q0; fail closed): C06_source_is_model_* prove the translated definitions equal to the hand model']
    ctx.trusted += ['harness/props/c06.py: replacement of pyhf.infer.test_statistics.fit / fixed_poi_fit by scripted functions',
                    'SLSQP (scipy) as the optimiser behind the real fits of part (ii); closed-form values certified by Interval',
                    'C06_exact_fits_need_no_clip / C06_q_closed_form_counting assume fits that return true minimisers (explicit premises / '
                    'the exact fits cfit, cfixed); real optimisers reach them within the stated 1e-5']
    ctx.assumptions += ['fits of the counting models converge to the global optimum within 1e-5 on the statistic (convex one-parameter problem)']
    corpus_scripts, corpus_counting = load_corpus()

    # ---- (i) scripted fits ----
    scripts = corpus_scripts + gen_scripts(rng, ctx.n(360, None))
    models = None
    if model_ok:
        try:
            res = core.coq_eval(ctx, 'scripts', HEADER, [script_expr(sc) for sc in scripts], shard=max(60, len(scripts) // core.NCPU + 1))
            models = [decode_script(r) for r in res]
        except (core.CoqEvalError, AssertionError) as e:
            tie = tie or ('model evaluation failed: %s' % str(e)[-800:])
    ctx.log('%d scripts evaluated by the model' % len(scripts))
    backends = backends_for(ctx)
    stats = dict(script_regimes={}, stats={}, warnings_compared=0, warnings_differ=0, q0_fixed_fit_calls_checked=0, fit_argument_sets_checked=0,
                 nopoi_cases=0, counting_regimes={}, counting_goals=0, counting_goals_rejected=0)
    sigs = set()
    evaluations = 0
    fails = {}           # signature -> list of (script, backend, impl, expected, text)
    disagree_model = []
    for bi, be in enumerate(backends):
        sel = range(len(scripts)) if (bi == 0 or not ctx.quick) else range(bi, len(scripts), 4)
        with Scripted(be) as S:
            for i in sel:
                sc = scripts[i]
                out = S.run(sc)
                evaluations += 1
                if bi == 0:
                    stats['script_regimes'][sc['regime']] = stats['script_regimes'].get(sc['regime'], 0) + 1
                    stats['stats'][sc['stat']] = stats['stats'].get(sc['stat'], 0) + 1
                    if sc['poi'] is not None:
                        sigs.add(json.dumps([sc[k] for k in ('stat', 'poi', 'lower', 'mu', 'free_pars', 'free_val', 'fixed_pars', 'a', 'c')]))
                if sc['poi'] is None:
                    stats['nopoi_cases'] += 1
                    if out.get('exception') != 'UnspecifiedPOI':
                        ctx.notes.append('no POI: %s gives %r (model: UnspecifiedPOI) [diagnostic]' % (sc['stat'], out.get('exception', 'a value')))
                    continue
                if 'exception' in out:
                    fails.setdefault('exception:%s' % sc['stat'], []).append((sc, be, out, 'a value', 'raises %s: %s' % (out['exception'], out['msg'])))
                    continue
                sv, sp = spec_value(sc)
                m = models[i] if models is not None else None
                if m is not None and (m.get('value') != sv or m.get('pars') != sp):
                    raise RuntimeError('harness bug: Coq model and the python rendering of the case definition differ on %r' % sc)
                exact = be != 'never'
                okv = core.frac(out['value']) == sv and core.frac(out['value_only']) == sv
                okp = [[core.frac(x) for x in p] for p in out['pars']] == sp
                if not okv:
                    kind = 'zeroing' if (sv == 0) != (out['value'] == 0) else 'value'
                    fails.setdefault('%s:%s:%s' % (kind, sc['stat'], sc['regime'].split('/')[0] if kind == 'zeroing' else sc['regime'].split('/')[-1]), []).append(
                        (sc, be, out, dict(value=str(sv)), 'value %r (value-only call %r), case definition gives %s' % (out['value'], out['value_only'], float(sv))))
                if not okp:
                    fails.setdefault('fitted-pars:%s' % sc['stat'], []).append(
                        (sc, be, out, dict(pars=[[float(x) for x in p] for p in sp]), 'returned fitted parameters %r, the fits gave %r' % (out['pars'], [[float(x) for x in p] for p in sp])))
                for fc in out.get('fit_calls', []):
                    stats['fit_argument_sets_checked'] += 1
                    for arg in fc['differs']:
                        fails.setdefault('fit-arguments:%s:%s:%s' % (sc['stat'], fc['which'], arg), []).append(
                            (sc, be, out, dict(received_by=fc['which'], argument=arg, expected=out['passed'].get(arg, 'the model passed')),
                             '%s runs %s with %s = %r, the caller passed %r: the statistic is not the likelihood ratio of the two fits of the caller\'s problem'
                             % (FUNC[sc['stat']], fc['which'], arg, fc['received'][arg], out['passed'].get(arg, 'the model'))))
                if sc['stat'] == 'q0':
                    stats['q0_fixed_fit_calls_checked'] += 1
                if m is not None:
                    stats['warnings_compared'] += 1
                    if sorted(m['warnings']) != sorted(w for w in out['warnings']):
                        stats['warnings_differ'] += 1
        ctx.log('%s: %d scripted runs' % (be, len(sel)))

    # ---- (ii) real fits on counting models ----
    ccases = [dict(c) for c in corpus_counting] + gen_counting(rng, ctx.n(9, 60), not ctx.quick)
    couts = run_counting(ccases)
    ctx.log('%d real-fit statistics computed' % len(ccases))
    items = []
    pre_bad = set()
    for i, (c, o) in enumerate(zip(ccases, couts)):
        evaluations += 1
        stats['counting_regimes'][c['regime']] = stats['counting_regimes'].get(c['regime'], 0) + 1
        sigs.add(json.dumps([c[k] for k in ('stat', 'n', 's', 'b', 'lo', 'hi', 'mu')]))
        if 'exception' in o:
            fails.setdefault('exception-real-fit:%s' % c['stat'], []).append((c, 'numpy', o, 'a value', 'raises %s: %s' % (o['exception'], o['msg'])))
            continue
        ref = closed_form(c['stat'], c['n'], c['s'], c['b'], c['lo'], c['hi'], c['mu'])
        if not (o['value'] == o['value']) or abs(o['value'] - ref) > 5 * TOL_FIT:
            pre_bad.add(i)          # far off: no need to ask Coq
        else:
            items.append((i, counting_goal(i, c, o['value'])))
    rejected = set()
    if model_ok:
        try:
            rejected = certify(ctx, 'counting', items)
            stats['counting_goals'] = len(items)
            stats['counting_goals_rejected'] = len(rejected)
        except core.CoqEvalError as e:
            tie = tie or ('certification of the closed-form comparisons failed: %s' % str(e)[-800:])
    ctx.log('%d closed-form comparisons certified by interval, %d rejected, %d far off' % (len(items), len(rejected), len(pre_bad)))
    for i in sorted(pre_bad | rejected):
        c, o = ccases[i], couts[i]
        ref = closed_form(c['stat'], c['n'], c['s'], c['b'], c['lo'], c['hi'], c['mu'])
        zero = (ref == 0.0) != (abs(o['value']) < TOL_FIT)
        fails.setdefault('counting:%s:%s' % (c['stat'], 'zeroing' if zero else 'value'), []).append(
            (c, 'numpy', o, dict(closed_form=ref), 'one-bin counting model n=%g s=%g b=%g mu in [%g,%g], tested mu=%g: %s = %r, closed form %r (fitted muhat %r)'
             % (c['n'], c['s'], c['b'], c['lo'], c['hi'], c['mu'], FUNC[c['stat']], o['value'], ref, o.get('muhat'))))

    # ---- decide ----
    found = False
    for sig in sorted(fails, key=lambda x: (not x.startswith('fit-arguments'), x))[:10]:
        lst = fails[sig]
        sc, be, out, exp, text = min(lst, key=lambda f: (f[1] != 'numpy', len(json.dumps(f[0]))))
        found = True
        ctx.violation(sig, '%s [%s, backend %s]' % (text, 'scripted fits' if 'free_pars' in sc else 'real fits', be),
                      dict(kind='script' if 'free_pars' in sc else 'counting', case=sc, backend=be, impl=out, expected=exp, n_failing_cases=len(lst),
                           theorem=('the model\'s fit e / fixed_poi_fit mu e: both fits are run on the caller\'s (data, pdf, init_pars, par_bounds, fixed_params)' if sig.startswith('fit-arguments') else
                                    'C06_value_cases / C06_qmu_zero_above / C06_q0_zero_below / C06_q0_tests_zero / C06_tmu_no_zeroing / C06_pars_are_the_fits')
                           if 'free_pars' in sc else 'C06_q_closed_form_counting'))
    if tie and not found:
        ctx.violation('tie-broken', tie[:300], dict(kind='tie', detail=tie, theorem='props/C06.v'), nofail=True)
    ctx.coverage.update(
        evaluations=evaluations, distinct_nontrivial=len(sigs),
        rule='(i) scripted fits: {q, qtilde, q0, t, ttilde} x POI index {0, 1} x POI lower bound {0, -5} x tested mu {0, 1, 2.5} x fitted POI '
             '{above, below, at mu, at the lower bound, negative} x raw ratio {<0, =0, >0}, plus random scripts and no-POI models; the fixed-POI '
             'fit value is affine in the mu it is called with, so the mu actually fitted is visible; every script passes its own caller-chosen '
             'data / init_pars / par_bounds / fixed_params and the recording replacements of both fits must have received exactly those. '
             '(ii) real SLSQP fits on one-bin counting '
             'models over n, (s, b), lower bound {0, -0.125}, tested mu incl. mu = muhat, 5 statistics; POI range either configured in the model or '
             'supplied by the caller with the best fit outside the range of an unconfigured POI. non-trivial = a POI is defined; '
             'distinct by the full script / model tuple',
        backends=backends, stats=stats,
        samples=[dict(script=scripts[len(corpus_scripts)], model_value=str(models[len(corpus_scripts)].get('value')) if models else None),
                 dict(counting=ccases[0], impl=couts[0])])


def replay(body):
    if body.get('kind') == 'tie':
        print(body.get('detail'))
        return 0
    c = body['case']
    if body.get('kind') == 'script':
        with Scripted(body.get('backend', 'numpy')) as S:
            out = S.run(c)
        sv, sp = spec_value(c) if c['poi'] is not None else (None, None)
        print('pyhf returns:', json.dumps(out))
        print('case definition:', None if sv is None else float(sv), None if sp is None else [[float(x) for x in p] for p in sp])
        for fc in out.get('fit_calls', []):
            print('%s received %s' % (fc['which'], 'exactly the caller\'s arguments' if not fc['differs'] else
                                      '; '.join('%s = %r (caller passed %r)' % (a, fc['received'][a], out['passed'].get(a, 'the model')) for a in fc['differs'])))
    else:
        out = run_counting([c])[0]
        print('pyhf returns:', json.dumps(out))
        print('closed form:', closed_form(c['stat'], c['n'], c['s'], c['b'], c['lo'], c['hi'], c['mu']))
    return 0
