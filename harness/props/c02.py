"""C02 - the log-likelihood is exactly the HistFactory template."""
import copy
import json
import logging
import math
import re
from fractions import Fraction

from harness import core, engine
from harness.props import c01


# ---- densities of the model's terms, evaluated independently of pyhf (mpmath, 40 digits) ----
def logdens(kind, vals):
    import mpmath as mp
    mp.mp.dps = 40
    v = [mp.mpf(x.numerator) / mp.mpf(x.denominator) for x in vals]
    if kind == 'pois':
        n, lam = v
        if lam == 0:
            return mp.mpf(0) if n == 0 else mp.mpf('-inf')
        if lam < 0:
            return mp.nan
        return n * mp.log(lam) - lam - mp.loggamma(n + 1)
    x, mu, var = v
    return -((x - mu) ** 2) / (2 * var) - mp.log(mp.sqrt(2 * mp.pi * var))


class Recorder:
    """wrap the numpy backend's density primitives at class level (distribution objects create fresh backend instances)"""

    def __init__(self):
        self.terms = []
        self.on = False

    def install(self):
        from pyhf.tensor import numpy_backend as nb
        cls = nb.numpy_backend
        self.cls = cls
        self.orig = (cls.poisson_logpdf, cls.normal_logpdf, cls.poisson, cls.normal)
        rec = self

        def poisson_logpdf(slf, n, lam):
            if rec.on:
                import numpy as np
                nn, ll = np.broadcast_arrays(np.asarray(n, dtype=float), np.asarray(lam, dtype=float))
                rec.terms += [('pois', (float(a), float(b))) for a, b in zip(nn.ravel(), ll.ravel())]
            return rec.orig[0](slf, n, lam)

        def normal_logpdf(slf, x, mu, sigma):
            if rec.on:
                import numpy as np
                xx, mm, ss = np.broadcast_arrays(np.asarray(x, dtype=float), np.asarray(mu, dtype=float), np.asarray(sigma, dtype=float))
                rec.terms += [('norm', (float(a), float(b), float(c))) for a, b, c in zip(xx.ravel(), mm.ravel(), ss.ravel())]
            return rec.orig[1](slf, x, mu, sigma)
        cls.poisson_logpdf = poisson_logpdf
        cls.normal_logpdf = normal_logpdf

    def remove(self):
        self.cls.poisson_logpdf, self.cls.normal_logpdf = self.orig[0], self.orig[1]


def canon_terms_impl(terms):
    out = []
    for k, v in terms:
        if k == 'norm':
            out.append(('norm', (v[0], v[1], v[2] * v[2])))
        else:
            out.append((k, v))
    return sorted(out)


def match_terms(impl_terms, model_terms, rtol=1e-9):
    """multiset comparison: model terms exact (Fractions), impl floats; sigma compared as variance"""
    it = canon_terms_impl(impl_terms)
    mt = sorted((k, tuple(float(x) for x in v)) for k, v in model_terms)
    if len(it) != len(mt):
        return 'count %d vs %d' % (len(it), len(mt))
    used = [False] * len(mt)
    for k, v in it:
        hit = None
        for j, (mk, mv) in enumerate(mt):
            if used[j] or mk != k:
                continue
            if all(a == b or abs(a - b) <= rtol * max(abs(a), abs(b), 1e-300) + 1e-13 for a, b in zip(v, mv)):
                hit = j
                break
        if hit is None:
            return 'no partner for %s%r' % (k, v)
        used[hit] = True
    return None


def tables(cfg, pars, data):
    th = [(n, pars[a:b]) for n, (a, b) in zip(cfg['par_order'], cfg['par_slices'])]
    ob = [(cn, data[a:b]) for (cn, a, b) in cfg['slices']]
    auxd = data[cfg['nmaindata']:]
    sizes = dict(zip(cfg['par_order'], [b - a for a, b in cfg['par_slices']]))
    ax = []
    k = 0
    for n in cfg['aux_order']:
        ax.append((n, auxd[k:k + sizes[n]]))
        k += sizes[n]
    return th, ob, ax


def tb_coq(tb):
    return core.clist(tb, lambda e: '(%s, %s)' % (core.cstr(e[0]), engine.qlist(e[1])))


# ---- the decidable block comparison of coq/RefineTermsBlocks.v (template constraint families vs the model's constrained
# parameter sets: names, kinds, component indices, variances / factors), the auxdata-size premise of C02_length_cterms_auxdata and
# the access-field layout premise of C02_logpdf_terms_refines_partial, evaluated in Coq for every generated model.  The theorems
# accepted_families / accepted_names_covered / accepted_family_names_nodup (RefineTermsFinal.v) say the comparison holds for every
# accepted specification: this is their cross-check on the executed instance.
OKB_NAMES = ['names_okb', 'alpha_okb', 'lumi_okb', 'stat_okb', 'shapesys_okb', 'aux_sizes_okb', 'layout_okb']
OKB_HEADER = engine.HEADER + '''
Require Import PV.RefineTop PV.RefineTerms PV.RefineTermsBlocks.
Definition c02_okb (sp : qspec) : string * list bool :=
  match build QcNum sp with
  | Err e => (err_code e, [])
  | Ok m => let ps := md_psets QcNum m in
            ("ok", [names_okb QcNum sp ps; alpha_okb QcNum sp ps; lumi_okb QcNum sp ps; stat_okb QcNum sp ps;
                    shapesys_okb QcNum sp ps; aux_sizes_okb QcNum ps; layout_okb QcNum sp m]) end.
'''


def parse_okb(txt):
    flags = re.findall(r'\b(true|false)\b', txt)
    status = re.search(r'"(\w*)"', txt)
    return (status.group(1) if status else '?'), [f == 'true' for f in flags]


def run(ctx):
    import pyhf
    logging.getLogger('pyhf').setLevel(logging.CRITICAL)
    rng = ctx.rng
    ok, txt = core.prove(ctx, extra=['EngineRun.vo'])
    tie = None if ok else 'proof obligations of props/C02.v no longer check: ' + txt[-1500:]
    pyhf.set_backend('numpy')
    n = ctx.n(110, 2000)
    cases = c01.gen_cases(ctx, n)
    for c in cases:
        c['st'] = {k: v for k, v in c['st'].items() if k in ('normsys', 'histosys')}       # clipping is C01's business
    rec = Recorder()
    rec.install()
    exprs, refexprs, okbexprs, impls = [], [], [], []
    found = False
    evaluations = 0
    sigs = set()
    stats = dict(terms_pois=0, terms_norm=0, overrides=0, nan_logpdf=0, premises_evaluated=0, premises_false=0)
    try:
        for case in cases:
            spec, poi, st = case['spec'], case['poi'], case['st']
            prng = core.random.Random(rng.randrange(1 << 30))
            try:
                m = engine.impl_build(spec, poi, st)
            except Exception as e:
                ctx.violation('wellformed-refused:' + core.exc_enum(e), 'well-formed specification refused: ' + str(e)[:200], dict(case=case))
                found = True
                impls.append(None)
                exprs.append(None)
                refexprs.append(None)
                okbexprs.append(None)
                continue
            cfg = engine.impl_config(m)
            pts = []
            for _ in range(2):
                pars = engine.gen_point(prng, spec, cfg)
                # keep every rate strictly positive so that the log-density is finite: positive factors only
                pars = [abs(p) if t != 'normal' or nme == 'lumi' or nme.startswith('staterror') else p
                        for p, (nme, t) in zip(pars, [(nn, tt) for nn, (a, b), tt in zip(cfg['par_order'], cfg['par_slices'], cfg['ptypes']) for _ in range(b - a)])]
                maind = [engine.dy(prng, 0, 60, 0.5 if prng.random() < 0.3 else 1.0) for _ in range(cfg['nmaindata'])]
                auxd = [engine.dy(prng, 0.25, 3, 0.25) if True else 0 for _ in range(cfg['nauxdata'])]     # arbitrary auxiliary data
                pts.append((pars, maind + auxd))
            ev = []
            for pars, data in pts:
                evaluations += 1
                rec.terms = []
                rec.on = True
                try:
                    full = float(m.logpdf(pars, data)[0])
                    rec.on = False
                    terms = list(rec.terms)
                    tp, td = pyhf.tensorlib.astensor(pars), pyhf.tensorlib.astensor(data)
                    mainl = float(m.mainlogpdf(td[:cfg['nmaindata']], tp))
                    cons = float(m.constraint_logpdf(td[cfg['nmaindata']:], tp)) if cfg['nauxdata'] else 0.0
                    dens = float(m.pdf(pars, data)[0])
                    expaux = [float(x) for x in engine.tolist(m.expected_auxdata(pars))] if cfg['nauxdata'] else []
                    ev.append(dict(logpdf=full, main=mainl, constraint=cons, pdf=dens, terms=terms, expected_aux=expaux))
                except Exception as e:
                    rec.on = False
                    ev.append(dict(error=core.exc_enum(e), msg=str(e)[:200]))
            impls.append(dict(cfg=cfg, points=pts, evals=ev))
            stats['overrides'] += len(spec.get('parameters', []))
            if engine.nontrivial(spec):
                sigs.add(engine.shape_signature(spec))
            exprs.append(engine.case_expr(spec, poi, st, pts))
            okbexprs.append('c02_okb %s' % engine.spec_to_coq(spec, poi))
            refexprs.append('run_ref_terms [] %s %s %s' % (engine.spec_to_coq(spec, poi), engine.settings_to_coq(st), core.clist(
                [tables(cfg, p, d) for p, d in pts], lambda t: '(%s, %s, %s)' % (tb_coq(t[0]), tb_coq(t[1]), tb_coq(t[2])))))
    finally:
        rec.remove()
    idx = [i for i, e in enumerate(exprs) if e is not None]
    ndis = 0
    try:
        res = dict(zip(idx, core.coq_eval(ctx, 'impl', engine.HEADER, [exprs[i] for i in idx], shard=15)))
        rres = dict(zip(idx, core.coq_eval(ctx, 'ref', engine.HEADER, [refexprs[i] for i in idx], shard=15)))
        okres = dict(zip(idx, core.coq_eval(ctx, 'okb', OKB_HEADER, [okbexprs[i] for i in idx], shard=15)))
    except core.CoqEvalError as e:
        res = None
        tie = tie or ('model evaluation failed: ' + str(e)[-1200:])
    for i in (idx if res is not None else []):
        case, im = cases[i], impls[i]
        mo = engine.decode_case(res[i])
        refterms = core.parse_qc(rres[i])
        if mo['build'] != 'ok':
            ndis += 1
            tie = tie or 'model refuses a spec the implementation builds: %s' % mo['build']
            continue
        # premises of the refinement theorems, decidable forms: all must evaluate to true
        okst, okflags = parse_okb(okres[i])
        stats['premises_evaluated'] += 1
        if okst != 'ok' or len(okflags) != len(OKB_NAMES) or not all(okflags):
            ndis += 1
            failing = [nm for nm, f in zip(OKB_NAMES, okflags) if not f] or [okst]
            stats['premises_false'] += 1
            if 'first_premise_failure' not in ctx.coverage:
                ctx.coverage['first_premise_failure'] = dict(case=case, failing=failing)
            tie = tie or 'premise of the term-list refinement evaluates to false on an accepted model: %r' % (failing,)
        for j, ((pars, data), ev) in enumerate(zip(im['points'], im['evals'])):
            if 'error' in ev:
                ctx.violation('logpdf-error:' + ev['error'], 'logpdf evaluation failed on a well-formed model: ' + ev['msg'], dict(case=case, pars=pars, data=data))
                found = True
                continue
            rt = [('pois' if k == 0 else 'norm', [engine.F(x) for x in vals]) for k, vals in refterms[j]]
            stats['terms_pois'] += sum(1 for k, _ in rt if k == 'pois')
            stats['terms_norm'] += sum(1 for k, _ in rt if k == 'norm')
            # (a) the property: the terms pyhf evaluates are the template's terms (Ref, evaluated in Coq) ...
            why = match_terms(ev['terms'], rt)
            # ... and the reported numbers are their sums
            lsum = sum(logdens(k, v) for k, v in rt)
            lmain = sum(logdens(k, v) for k, v in rt[:im['cfg']['nmaindata']])
            lcons = sum(logdens(k, v) for k, v in rt[im['cfg']['nmaindata']:])
            def near(a, b):
                b = float(b)
                return (a != a and b != b) or a == b or abs(a - b) <= 1e-9 * max(1.0, abs(b))
            if ev['logpdf'] != ev['logpdf']:
                stats['nan_logpdf'] += 1
            # a negative Poisson rate (a parameter point outside the physical region): log Poisson(n | rate) is undefined there, the
            # property says nothing about the number reported (numpy gives nan for n > 0 and a finite number for n = 0); the TERMS are
            # still compared, the sums only where they are defined
            nm = im['cfg']['nmaindata']
            undef_main = any(k == 'pois' and v[1] < 0 for k, v in rt[:nm])
            undef_cons = any(k == 'pois' and v[1] < 0 for k, v in rt[nm:])
            if undef_main or undef_cons:
                stats['undefined_rate_points'] = stats.get('undefined_rate_points', 0) + 1
            bad = []
            if why:
                bad.append('terms: ' + why)
            if not (undef_main or undef_cons) and not near(ev['logpdf'], lsum):
                bad.append('logpdf %r vs template %r' % (ev['logpdf'], float(lsum)))
            if not undef_main and not near(ev['main'], lmain):
                bad.append('mainlogpdf %r vs %r' % (ev['main'], float(lmain)))
            if not undef_cons and not near(ev['constraint'], lcons):
                bad.append('constraint_logpdf %r vs %r' % (ev['constraint'], float(lcons)))
            if not near(ev['main'] + ev['constraint'], ev['logpdf']):
                bad.append('main + constraint %r != full %r' % (ev['main'] + ev['constraint'], ev['logpdf']))
            if not (near(ev['pdf'], math.exp(ev['logpdf'])) if ev['logpdf'] == ev['logpdf'] and ev['logpdf'] > -700 else True):
                bad.append('pdf %r != exp(logpdf) %r' % (ev['pdf'], math.exp(ev['logpdf'])))
            if bad:
                ctx.violation('likelihood-template:' + bad[0].split(':')[0].split(' ')[0], 'log-likelihood differs from the HistFactory template: ' + '; '.join(bad)[:400],
                              dict(case=case, pars=pars, data=data, impl={k: v for k, v in ev.items() if k != 'terms'},
                                   impl_terms=ev['terms'][:40], expected_terms=[(k, [float(x) for x in v]) for k, v in rt][:40],
                                   theorem='C02_logpdf_terms_refines'))
                found = True
            # (b) correspondence with the transcription
            me = mo['evals'][j]
            d = []
            if isinstance(me['terms'], str):
                d.append(('terms', 'ok', me['terms']))
            else:
                w2 = match_terms(ev['terms'], me['terms'])
                if w2:
                    d.append(('terms', w2, None))
            d += engine.diff_vec('expected_auxdata', ev['expected_aux'], me['expected_aux'])
            if d:
                ndis += 1
                if ndis == 1:
                    ctx.coverage['first_disagreement'] = dict(case=case, pars=pars, data=data, diffs=[str(x)[:300] for x in d[:3]])
                    tie = tie or 'model and implementation disagree: %r' % (d[:2],)
    if tie and not found:
        ctx.violation('tie-broken', tie[:300], dict(kind='tie', detail=tie, theorem='props/C02.v / Impl correspondence',
                                                     first_disagreement=ctx.coverage.get('first_disagreement')), nofail=True)
    ctx.assumptions += ['C02_logpdf_terms_refines: JSON-schema shapes of modifier data (shape_ok, list_shape_ok), per-sample clip not positive '
                        '(clip_guard, C01 known finding); number laws: ring, sound boolean equality, a/b = a*inv b (proved for Qc and R). '
                        'The _partial variants additionally carry layout_okb, which RefineLayout.accepted_layout derives from build = Ok '
                        '(still evaluated per generated model as a cross-check)',
                        'C02_length_cterms_auxdata: no constrained parameter set of size 0 (empty sample data, refused by the schema); '
                        'the excluded corner is refuted by C02_auxdata_length_refuted']
    ctx.trusted += ['density primitives are parameters of the engine (property C04); reference sums use mpmath at 40 digits',
                    'term interception wraps numpy_backend.poisson_logpdf/normal_logpdf at class level (harness side)']
    ctx.coverage.update(evaluations=evaluations, distinct_nontrivial=len(sigs), stats=stats, model_impl_disagreements=ndis,
                        rule='C01 spec generator with measurement overrides; 2 points per spec with arbitrary (non-nominal) auxiliary data and '
                             'integer/half-integer main data; observables: the (n,lambda)/(x,mu,sigma) arrays pyhf hands to the density '
                             'primitives as multisets vs Ref terms (Coq) and vs Impl terms (Coq), logpdf/mainlogpdf/constraint_logpdf/pdf vs '
                             'sums of mpmath densities of the Ref terms, expected_auxdata; per model the decidable premises/block comparison '
                             + '/'.join(OKB_NAMES) + ' evaluated in Coq (must be true). non-trivial/distinct as in C01',
                        samples=[dict(spec=cases[0]['spec'], point=impls[0]['points'][0] if impls[0] else None,
                                      impl={k: v for k, v in (impls[0]['evals'][0] if impls[0] else {}).items() if k != 'terms'})])


def replay(body):
    import pyhf
    case = body['case']
    m = engine.impl_build(case['spec'], case['poi'], case['st'])
    print('logpdf', m.logpdf(body['pars'], body['data']))
    return 0
