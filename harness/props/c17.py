"""C17 - patch sets look up, verify and apply patches exactly."""
import ast
import copy
import hashlib
import itertools
import json

from harness import core, facts
from harness.jsoncoq import json_to_coq

NAMES_INTERNAL = ['name', 'values', 'metadata', 'patch', 'patches', 'labels', 'digests', 'version']


# ---------------------------------------------------------------------------------------
def extract(ctx):
    tree, _ = facts.parse('patchset.py')
    init = facts.find_func(facts.find_class(tree, 'PatchSet'), '__init__')
    keys = None
    for n in ast.walk(init):
        if isinstance(n, ast.Assign) and len(n.targets) == 1 and isinstance(n.targets[0], ast.Attribute) \
                and n.targets[0].attr == '_patches_by_key':
            if keys is not None:
                raise facts.TieBroken('_patches_by_key assigned twice')
            if isinstance(n.value, ast.Dict) and all(isinstance(k, ast.Constant) and isinstance(k.value, str) for k in n.value.keys):
                keys = [k.value for k in n.value.keys]
            elif isinstance(n.value, ast.Call) and isinstance(n.value.func, ast.Name) and n.value.func.id == 'dict' \
                    and not n.value.args and not n.value.keywords:
                keys = []
            else:
                raise facts.TieBroken('_patches_by_key initialiser not a literal dict')
    if keys is None:
        raise facts.TieBroken('_patches_by_key initialiser not found')
    utree, _ = facts.parse('utils.py')
    dig = facts.find_func(utree, 'digest')
    sort_keys = False
    for n in ast.walk(dig):
        if isinstance(n, ast.Call) and isinstance(n.func, ast.Attribute) and n.func.attr == 'dumps':
            v = facts.kw(n, 'sort_keys')
            sort_keys = isinstance(v, ast.Constant) and v.value is True
    facts.write_gen('FactsC17', 'Definition patchset_init_keys : list string := %s.\nDefinition digest_sort_keys : bool := %s.\n'
                    % (facts.coq_strlist(keys), core.cbool(sort_keys)))
    return dict(init_keys=keys, sort_keys=sort_keys)


# ---------------------------------------------------------------------------------------
def gen_doc(rng):
    nlab = rng.choice([1, 1, 2, 3])
    npatch = rng.choice([1, 2, 3, 4, 6])
    namepool = NAMES_INTERNAL[:rng.choice([0, 2, 2, 4, 8])] + ['p%d' % i for i in range(rng.choice([2, 4, 8]))]
    valpool = [0, 1, 1.0, 2, 2.5, -1, 'a', 'b', 100, 1e3]
    patches = []
    for _ in range(npatch):
        n = rng.choice(namepool)
        k = nlab if rng.random() < 0.93 else rng.choice([0, nlab + 1])
        vals = [rng.choice(valpool[:rng.choice([3, 5, 10])]) for _ in range(k)]
        patches.append({'metadata': {'name': n, 'values': vals},
                        'patch': [{'op': 'add', 'path': '/x%d' % rng.randrange(3), 'value': rng.randrange(5)}]})
    if rng.random() < 0.6:   # make names unique to reach the deeper checks more often
        seen = set()
        for i, p in enumerate(patches):
            while p['metadata']['name'] in seen:
                p['metadata']['name'] = rng.choice(namepool) + ('_%d' % i if rng.random() < 0.7 else '')
            seen.add(p['metadata']['name'])
    if rng.random() < 0.5:
        seen = []
        for i, p in enumerate(patches):
            while any(tuple(p['metadata']['values']) == s for s in seen) and p['metadata']['values']:
                p['metadata']['values'][rng.randrange(len(p['metadata']['values']))] = rng.randrange(50) + 3
            seen.append(tuple(p['metadata']['values']))
    return {'metadata': {'references': {'hepdata': 'ins1234567'}, 'description': 'd',
                         'digests': {'md5': '0' * 32}, 'labels': ['l%d' % i for i in range(nlab)]},
            'patches': patches, 'version': '1.0.0'}


def lookup_keys(rng, doc):
    ks = []
    for p in doc['patches']:
        ks.append(('name', p['metadata']['name']))
        ks.append(('tuple', list(p['metadata']['values'])))
        ks.append(('list', list(p['metadata']['values'])))
    for s in NAMES_INTERNAL[:4] + ['nope', '']:
        ks.append(('name', s))
    ks.append(('tuple', [rng.choice([0, 1, 7.5, 'a']) for _ in doc['metadata']['labels']]))
    ks.append(('tuple', []))
    ks.append(('other', rng.randrange(5)))
    # a one-element tuple holding a patch name is not that name
    ks.append(('tuple', [doc['patches'][0]['metadata']['name']]))
    return ks


def impl_doc(doc, keys):
    import pyhf
    before = copy.deepcopy(doc)
    try:
        ps = pyhf.PatchSet(doc)
    except Exception as e:
        return dict(construct=core.exc_enum(e), msg=str(e)[:120], lookups=[], mutated=doc != before)
    out = []
    for kind, k in keys:
        key = k if kind in ('name', 'list', 'other') else tuple(k)
        try:
            r = ps[key]
            idx = [i for i, p in enumerate(ps.patches) if p is r]
            out.append(idx[0] if idx else 'not-a-patch:' + type(r).__name__)
        except Exception as e:
            out.append(core.exc_enum(e))
    return dict(construct='ok', lookups=out, mutated=doc != before, npatches=len(ps), names=[p.name for p in ps])


def pv(v):
    return '(PStr %s)' % core.cstr(v) if isinstance(v, str) else '(PNum %s)' % core.q(v)


def model_expr(doc, keys):
    ps = core.clist(doc['patches'], lambda p: '{| ps_name := %s; ps_values := %s; ps_ops := [] |}' % (
        core.cstr(p['metadata']['name']), core.clist(p['metadata']['values'], pv)))
    ks = core.clist(keys, lambda kk: ('(KName %s)' % core.cstr(kk[1])) if kk[0] == 'name' else
                    ('(KOther %d)' % kk[1]) if kk[0] == 'other' else '(KVals %s)' % core.clist(kk[1], pv))
    return 'run_doc patchset_init_keys %d %s %s' % (len(doc['metadata']['labels']), ps, ks)


HEADER = '''From Coq Require Import ZArith QArith Qcanon String List.
Require Import PV.Num PV.Run PV.Json PV.PatchSet PV.gen.FactsC17.
Import ListNotations. Open Scope string_scope.
Definition code_got (g : got) : Z := match g with GPatch i => Z.of_nat i | GBook => (-2)%Z | GLookupError => (-1)%Z end.
Definition run_doc init n ps ks : list Z :=
  match construct init n ps with
  | inl t => 0%Z :: map (fun k => code_got (getitem t k)) ks
  | inr (DupName _) => [1%Z] | inr (DupValues _) => [2%Z] | inr (BadLength _) => [3%Z] end.
'''


def decode_model(res):
    v = core.parse_qc(res.replace('%Z', ''))
    if v[0] != 0:
        return dict(construct='InvalidPatchSet', sub=v[0], lookups=[])
    return dict(construct='ok', lookups=[x if x >= 0 else ('InvalidPatchLookup' if x == -1 else 'not-a-patch:dict') for x in v[1:]])


# ---------------------------------------------------------------------------------------
def ws_small(rng):
    """a small JSON document with nested objects/arrays, ints and floats"""
    def val(d):
        r = rng.random()
        if d <= 0 or r < 0.35:
            return rng.choice([0, 1, 1.0, 2.5, -3, 'a', 'b', True, None, 10])
        if r < 0.65:
            return [val(d - 1) for _ in range(rng.randrange(1, 4))]
        return {k: val(d - 1) for k in rng.sample(['a', 'b', 'c', 'name', 'z1', 'B'], rng.randrange(1, 4))}
    return {k: val(3) for k in rng.sample(['channels', 'observations', 'measurements', 'version', 'x'], rng.randrange(2, 5))}


def shuffle_keys(rng, j):
    if isinstance(j, dict):
        items = list(j.items())
        rng.shuffle(items)
        return {k: shuffle_keys(rng, v) for k, v in items}
    if isinstance(j, list):
        return [shuffle_keys(rng, v) for v in j]
    return j


def leaves(j, path=()):
    if isinstance(j, dict):
        for k, v in j.items():
            yield from leaves(v, path + (k,))
        if not j:
            yield path
    elif isinstance(j, list):
        for i, v in enumerate(j):
            yield from leaves(v, path + (i,))
        if not j:
            yield path
    else:
        yield path


def corrupt(rng, j, path):
    j = copy.deepcopy(j)
    cur = j
    for p in path[:-1]:
        cur = cur[p]
    old = cur[path[-1]]
    if isinstance(old, bool):
        new = not old
    elif isinstance(old, int):
        new = rng.choice([float(old), old + 1])       # 1 -> 1.0 must be noticed
    elif isinstance(old, float):
        new = rng.choice([int(old) if old == int(old) else old + 0.5, old * 2 + 1])
    elif isinstance(old, str):
        new = old + 'x'
    elif old is None:
        new = 0
    else:
        new = None
    cur[path[-1]] = new
    return j


def impl_verify(doc_digests, ws):
    import pyhf
    doc = {'metadata': {'references': {'hepdata': 'ins1234567'}, 'description': 'd', 'digests': doc_digests, 'labels': ['x']},
           'patches': [{'metadata': {'name': 'p', 'values': [1]}, 'patch': []}], 'version': '1.0.0'}
    ps = pyhf.PatchSet(doc)
    before = copy.deepcopy(ws)
    try:
        ps.verify(ws)
        r = 'ok'
    except Exception as e:
        r = core.exc_enum(e)
    return r, ws != before or json.dumps(ws) != json.dumps(before)


def ref_digest(ws, alg):
    return getattr(hashlib, alg)(json.dumps(ws, sort_keys=True, ensure_ascii=False).encode('utf8')).hexdigest()


# ---------------------------------------------------------------------------------------
def apply_cases(rng, n):
    import pyhf
    out = []
    for i in range(n):
        nb = rng.choice([1, 2, 3])
        model = pyhf.simplemodels.uncorrelated_background([5.0 + i] * nb, [50.0] * nb, [7.0] * nb)
        ws = {'channels': copy.deepcopy(model.spec['channels']),
              'observations': [{'name': 'singlechannel', 'data': [float(rng.randrange(40, 70)) for _ in range(nb)]}],
              'measurements': [{'name': 'm', 'config': {'poi': 'mu', 'parameters': []}}], 'version': '1.0.0'}
        opsets = {
            'sig2': [{'op': 'replace', 'path': '/channels/0/samples/0/data', 'value': [float(rng.randrange(1, 9))] * nb}],
            'addsample': [{'op': 'add', 'path': '/channels/0/samples/-', 'value':
                           {'name': 'extra', 'data': [1.0] * nb, 'modifiers': [{'name': 'k', 'type': 'normfactor', 'data': None}]}}],
            'rm_then_test': [{'op': 'test', 'path': '/version', 'value': '1.0.0'}, {'op': 'remove', 'path': '/channels/0/samples/1/modifiers/0'}],
            'bad_test': [{'op': 'test', 'path': '/version', 'value': '2'}],
            'invalidates': [{'op': 'remove', 'path': '/channels'}],
            'move': [{'op': 'copy', 'from': '/observations/0/data', 'path': '/channels/0/samples/0/data'}],
            # a later operation writes INSIDE a value that an earlier operation of the same patch added
            'grow_added': [{'op': 'add', 'path': '/channels/0/samples/-', 'value': {'name': 'extra', 'data': [1.0] * nb, 'modifiers': []}},
                           {'op': 'copy', 'from': '/channels/0/samples/0/modifiers/0', 'path': '/channels/0/samples/2/modifiers/-'}],
            'edit_replaced': [{'op': 'replace', 'path': '/measurements/0/config', 'value': {'poi': 'mu', 'parameters': []}},
                              {'op': 'add', 'path': '/measurements/0/config/parameters/-', 'value': {'name': 'mu', 'bounds': [[0.0, 5.0]]}}],
        }
        names = rng.sample(sorted(opsets), 3)
        if rng.random() < 0.5 and not any(n_ in names for n_ in ('grow_added', 'edit_replaced')):
            names[rng.randrange(3)] = rng.choice(['grow_added', 'edit_replaced'])
        algs = rng.choice([['md5'], ['sha256'], ['sha256', 'md5'], ['md5', 'sha256']])
        wrong = rng.random() < 0.25
        digests = {a: (ref_digest(ws, a) if not (wrong and a == algs[-1]) else ('0' * (32 if a == 'md5' else 64))) for a in algs}
        doc = {'metadata': {'references': {'hepdata': 'ins1234567'}, 'description': 'd', 'digests': digests, 'labels': ['m']},
               'patches': [{'metadata': {'name': nm, 'values': [k]}, 'patch': opsets[nm]} for k, nm in enumerate(names)], 'version': '1.0.0'}
        key = rng.choice([('name', names[0]), ('name', names[-1]), ('tuple', [1]), ('list', [2.0]), ('name', 'absent'), ('tuple', [9])])
        # doc0: pristine copy of the document; expectations are computed from it (the PatchSet object holds references into doc)
        out.append(dict(ws=ws, doc=doc, doc0=copy.deepcopy(doc), key=key, wrong_digest=wrong))
    return out


def impl_apply_on(ps, case):
    """apply through an EXISTING PatchSet object (histories); expectation computed statelessly"""
    import pyhf
    import jsonpatch
    ws, doc, (kind, k) = case['ws'], case['doc'], case['key']
    doc0 = case.get('doc0') or copy.deepcopy(doc)
    key = tuple(k) if kind == 'tuple' else k
    before = copy.deepcopy(ws)
    try:
        res = ps.apply(ws, key)
        got = ('ok', json.loads(json.dumps(dict(res))))
    except Exception as e:
        got = (core.exc_enum(e), None)
    exp = None
    for a, d in doc0['metadata']['digests'].items():
        if ref_digest(ws, a) != d:
            exp = ('PatchSetVerificationError', None)
            break
    if exp is None:
        sel = [p for p in copy.deepcopy(doc0)['patches'] if (kind == 'name' and p['metadata']['name'] == k) or
               (kind != 'name' and tuple(p['metadata']['values']) == tuple(k))]
        if not sel:
            exp = ('InvalidPatchLookup', None)
        else:
            try:
                patched = jsonpatch.JsonPatch(sel[0]['patch']).apply(copy.deepcopy(ws))
                exp = ('ok', json.loads(json.dumps(dict(pyhf.Workspace(patched)))))
            except Exception as e:
                exp = (core.exc_enum(e), None)
    return got, exp, ws != before


def impl_apply(case):
    import pyhf
    import jsonpatch
    ws, doc, (kind, k) = case['ws'], case['doc'], case['key']
    doc0 = case.get('doc0') or copy.deepcopy(doc)
    key = tuple(k) if kind == 'tuple' else k
    before = copy.deepcopy(ws)
    ps = pyhf.PatchSet(doc)
    try:
        res = ps.apply(ws, key)
        got = ('ok', json.loads(json.dumps(dict(res))))
    except Exception as e:
        got = (core.exc_enum(e), None)
    # what the property promises, computed without pyhf.PatchSet: verify (reference digests), look up, jsonpatch, Workspace
    exp = None
    for a, d in doc0['metadata']['digests'].items():
        if ref_digest(ws, a) != d:
            exp = ('PatchSetVerificationError', None)
            break
    if exp is None:
        sel = [p for p in copy.deepcopy(doc0)['patches'] if (kind == 'name' and p['metadata']['name'] == k) or
               (kind != 'name' and tuple(p['metadata']['values']) == tuple(k))]
        if not sel:
            exp = ('InvalidPatchLookup', None)
        else:
            try:
                patched = jsonpatch.JsonPatch(sel[0]['patch']).apply(copy.deepcopy(ws))
                exp = ('ok', json.loads(json.dumps(dict(pyhf.Workspace(patched)))))
            except Exception as e:
                exp = (core.exc_enum(e), None)
    return got, exp, ws != before


# ---------------------------------------------------------------------------------------
def search(ctx, tie):
    """property-directed search on the implementation alone: names that are internal words, lookups of such words."""
    import pyhf
    found = False
    for nm in NAMES_INTERNAL + ['name_', 'p0']:
        doc = {'metadata': {'references': {'hepdata': 'ins1234567'}, 'description': 'd', 'digests': {'md5': '0' * 32}, 'labels': ['x']},
               'patches': [{'metadata': {'name': nm, 'values': [1]}, 'patch': []}], 'version': '1.0.0'}
        try:
            ps = pyhf.PatchSet(doc)
            ok = ps[nm] is ps.patches[0]
            outcome = 'ok' if ok else 'wrong-lookup'
        except Exception as e:
            outcome = core.exc_enum(e)
        if outcome != 'ok':
            ctx.violation('patch-name-rejected:' + nm, 'schema-valid patch set with one patch named %r is not accepted/looked up (%s)' % (nm, outcome),
                          dict(kind='construct', doc=doc, keys=[['name', nm]], impl=outcome, expected='accepted; lookup returns the patch',
                               theorem='C17_accepts_iff_distinct / C17_lookup_exact'))
            found = True
    doc = {'metadata': {'references': {'hepdata': 'ins1234567'}, 'description': 'd', 'digests': {'md5': '0' * 32}, 'labels': ['x']},
           'patches': [{'metadata': {'name': 'p', 'values': [1]}, 'patch': []}], 'version': '1.0.0'}
    ps = pyhf.PatchSet(doc)
    for k in NAMES_INTERNAL + ['q', ('p',), (2,), 3]:
        try:
            r = ps[k]
            outcome = 'returned ' + type(r).__name__
        except Exception as e:
            outcome = core.exc_enum(e)
        if outcome != 'InvalidPatchLookup':
            ctx.violation('foreign-key-lookup:' + str(k), 'lookup of key %r that names no patch gives %s instead of InvalidPatchLookup' % (k, outcome),
                          dict(kind='construct', doc=doc, keys=[['name', k] if isinstance(k, str) else ['tuple', list(k)] if isinstance(k, tuple) else ['other', k]],
                               impl=outcome, expected='InvalidPatchLookup', theorem='C17_other_key_raises'))
            found = True
    return found


def run(ctx):
    rng = ctx.rng
    tie = None
    try:
        fx = extract(ctx)
        ctx.coverage['extracted_facts'] = fx
    except facts.TieBroken as e:
        tie = 'fact extraction failed: %s' % e
    if tie is None:
        ok, txt = core.prove(ctx)
        if not ok:
            tie = 'proof obligations of props/C17.v no longer check: ' + txt[-1200:]
    ctx.trusted += ['harness/props/c17.py:extract (python ast -> FactsC17.v: initial keys of the lookup table, sort_keys flag)',
                    'hashlib digests assumed collision-free (Section hypothesis H_inj of verify_recorded_iff_same/digest_value_sensitive)',
                    'jsonpatch library and pyhf.Workspace schema validation are used as oracles for the apply step (not modelled)']
    ctx.assumptions += ['json.dumps is injective on canonical trees; SHA/MD5 collision freeness']
    found_concrete = False

    # ---- correspondence 1: construction and lookup, model evaluated in Coq ----
    n = ctx.n(300, 4000)
    docs = [gen_doc(rng) for _ in range(n)]
    keys = [lookup_keys(rng, d) for d in docs]
    impl = [impl_doc(copy.deepcopy(d), k) for d, k in zip(docs, keys)]
    sigs = set()
    stats = dict(accepted=0, dup_name=0, dup_values=0, bad_length=0, internal_names=0)
    disagree = []
    if tie is None or 'fact extraction' not in tie:
        try:
            res = core.coq_eval(ctx, 'docs', HEADER, [model_expr(d, k) for d, k in zip(docs, keys)])
            models = [decode_model(r) for r in res]
        except core.CoqEvalError as e:
            models = None
            tie = tie or ('model evaluation failed: %s' % str(e)[-800:])
    else:
        models = None
    for i, (d, k, im) in enumerate(zip(docs, keys, impl)):
        sig = (len(d['patches']), len(d['metadata']['labels']), im['construct'],
               tuple(sorted(set(p['metadata']['name'] for p in d['patches']) & set(NAMES_INTERNAL))))
        if len(d['patches']) >= 2 or sig[3]:
            sigs.add(json.dumps([sig, [p['metadata'] for p in d['patches']]], sort_keys=True))
        stats['internal_names'] += bool(sig[3])
        if im['mutated']:
            ctx.violation('construct-mutates-input', 'PatchSet(...) modified the caller\'s document', dict(kind='construct', doc=d, keys=k))
            found_concrete = True
        if models is None:
            continue
        mo = models[i]
        if mo['construct'] == 'ok':
            stats['accepted'] += 1
        else:
            stats[{1: 'dup_name', 2: 'dup_values', 3: 'bad_length'}[mo['sub']]] += 1
        if mo['construct'] != im['construct'] or mo['lookups'] != im['lookups']:
            disagree.append((i, mo, im))
    # a disagreement with the model is a broken correspondence; decide whether the *property* fails on that input.
    # The property (with the theorems proved for an empty initial table) says: accepted iff distinct names/tuples/length;
    # lookups exact.  Evaluate that specification directly.
    for i, mo, im in disagree[:20]:
        d, k = docs[i], keys[i]
        names = [p['metadata']['name'] for p in d['patches']]
        vals = [tuple(p['metadata']['values']) for p in d['patches']]
        distinct = len(set(names)) == len(names) and len(set(vals)) == len(vals) and all(len(v) == len(d['metadata']['labels']) for v in vals)
        spec_construct = 'ok' if distinct else 'InvalidPatchSet'
        spec_lookups = []
        if distinct:
            for kind, kk in k:
                if kind == 'name':
                    spec_lookups.append(names.index(kk) if kk in names else 'InvalidPatchLookup')
                elif kind == 'other':
                    spec_lookups.append('InvalidPatchLookup')
                else:
                    spec_lookups.append(vals.index(tuple(kk)) if tuple(kk) in vals else 'InvalidPatchLookup')
        if im['construct'] != spec_construct or (distinct and im['lookups'] != spec_lookups):
            bad = [kk for kk, a, b in zip(k, im['lookups'], spec_lookups) if a != b] if distinct and im['construct'] == 'ok' else []
            # shrink: a single patch reproducing it?
            sig = 'construct:%s-vs-%s' % (im['construct'], spec_construct) if im['construct'] != spec_construct else 'lookup-mismatch'
            ctx.violation(sig, 'PatchSet construction/lookup differs from the specification (impl %s, spec %s)' % (im['construct'], spec_construct),
                          dict(kind='construct', doc=d, keys=k, impl=im, expected=dict(construct=spec_construct, lookups=spec_lookups),
                               bad_keys=bad, model=mo, theorem='C17_accepts_iff_distinct / C17_lookup_exact / C17_other_key_raises'))
            found_concrete = True
    if disagree and not found_concrete:
        tie = tie or ('model and implementation disagree on %d documents (first: %r)' % (len(disagree), disagree[0][1:]))

    # ---- correspondence 2: verify <-> sameness of documents (jsame evaluated in Coq) ----
    nver = ctx.n(40, 400)
    vcases = []
    for _ in range(nver):
        ws0 = ws_small(rng)
        algs = rng.choice([['md5'], ['sha256'], ['md5', 'sha256'], ['sha256', 'md5']])
        digs = {a: ref_digest(ws0, a) for a in algs}
        vcases.append((ws0, digs, shuffle_keys(rng, ws0), 'shuffle'))
        ls = list(leaves(ws0))
        for p in (ls if not ctx.quick else rng.sample(ls, min(len(ls), 4))):
            if p:
                vcases.append((ws0, digs, corrupt(rng, ws0, p), 'corrupt' + '/'.join(map(str, p))))
        # a digest wrong for exactly one listed algorithm (at any position) must fail
        for pos, a in enumerate(algs):
            digs2 = dict(digs)
            digs2[a] = '0' * len(digs[a])
            vcases.append((ws0, digs2, ws0, 'wrong-digest-at-%d-of-%d' % (pos, len(algs))))
    vimpl = [impl_verify(dg, copy.deepcopy(ws)) for ws0, dg, ws, _ in vcases]
    vhead = HEADER.replace('Open Scope string_scope.', 'Open Scope string_scope.')
    try:
        vres = core.coq_eval(ctx, 'verify', vhead, ['jsame %s %s' % (json_to_coq(ws0), json_to_coq(ws)) for ws0, dg, ws, _ in vcases], shard=200)
    except core.CoqEvalError as e:
        vres = None
        tie = tie or ('model evaluation failed: %s' % str(e)[-800:])
    vstats = dict(verified=0, refused=0)
    for i, ((ws0, dg, ws, kind), (r, mut)) in enumerate(zip(vcases, vimpl)):
        if mut:
            ctx.violation('verify-mutates-input', 'verify modified the workspace', dict(kind='verify', ws0=ws0, ws=ws, digests=dg))
            found_concrete = True
        same = (vres[i] == 'true') if vres is not None else (json.dumps(ws0, sort_keys=True) == json.dumps(ws, sort_keys=True))
        recorded_ok = all(ref_digest(ws0, a) == d for a, d in dg.items())
        expected = 'ok' if (same and recorded_ok) else 'PatchSetVerificationError'
        vstats['verified' if r == 'ok' else 'refused'] += 1
        if r != expected:
            ctx.violation('verify:%s-vs-%s:%s' % (r, expected, kind.split('/')[0][:7]),
                          'verify gives %s where the digest rule gives %s (%s)' % (r, expected, kind),
                          dict(kind='verify', ws0=ws0, ws=ws, digests=dg, impl=r, expected=expected, theorem='C17_verify_recorded_iff_same'))
            found_concrete = True
        if len(sigs) < 100000:
            sigs.add('v' + json.dumps([kind, ws], sort_keys=True)[:200])

    # ---- correspondence 3: apply = verify ; look up ; jsonpatch ; Workspace, input untouched ----
    acases = apply_cases(rng, ctx.n(30, 300))
    astats = {}
    for c in acases:
        got, exp, mut = impl_apply(c)
        astats[got[0]] = astats.get(got[0], 0) + 1
        if mut:
            ctx.violation('apply-mutates-input', 'apply modified the background workspace', dict(kind='apply', **c))
            found_concrete = True
        if got != exp:
            ctx.violation('apply:%s-vs-%s' % (got[0], exp[0]), 'apply returns %s, verify-lookup-patch gives %s' % (got[0], exp[0]),
                          dict(kind='apply', impl=got, expected=exp, theorem='C17_apply_spec', **c))
            found_concrete = True
        sigs.add('a' + json.dumps([c['key'], [p['metadata']['name'] for p in c['doc']['patches']], c['wrong_digest']]))
        # the same call once more on a PatchSet that has already applied each of its patches once: still the patch as written
        if got[0] == 'ok' and got == exp:
            import pyhf
            c2 = dict(c, doc=copy.deepcopy(c['doc0']))
            ps2 = pyhf.PatchSet(c2['doc'])
            first = [impl_apply_on(ps2, dict(c2, key=('name', p['metadata']['name'])))[0][0] for p in c2['doc0']['patches']]
            got2, exp2, mut2 = impl_apply_on(ps2, c2)
            astats['repeat'] = astats.get('repeat', 0) + 1
            if got2 != exp2:
                ctx.violation('apply:differs-on-repeat', 'the second PatchSet.apply with key %r on the same PatchSet object does not return the workspace patched as written '
                              '(the first application wrote into the stored patch: patch-set document %s)' % (c['key'][1], 'modified' if c2['doc'] != c2['doc0'] else 'unchanged'),
                              dict(kind='apply-repeat', impl=got2, expected=exp2, first_round=first, theorem='C17_apply_spec', ws=c['ws'], doc0=c['doc0'], key=c['key']))
                found_concrete = True

    # ---- correspondence 4: histories on ONE PatchSet and ONE workspace object: every call is decided by its current arguments ----
    import pyhf
    hstats = dict(histories=0, steps=0)
    for c in apply_cases(rng, ctx.n(12, 120)):
        if c['wrong_digest']:
            continue
        ws, doc = c['ws'], c['doc']
        ps = pyhf.PatchSet(doc)
        names = [p['metadata']['name'] for p in doc['patches']]
        hist = []
        leaf = ('observations', 0, 'data', 0)
        orig = ws['observations'][0]['data'][0]
        for step in range(rng.choice([4, 6, 8])):
            op = rng.choice(['apply', 'apply', 'corrupt', 'restore', 'verify', 'lookup-miss'])
            hstats['steps'] += 1
            if op == 'corrupt':
                ws['observations'][0]['data'][0] = orig + 1.0
                hist.append(['corrupt'])
                continue
            if op == 'restore':
                ws['observations'][0]['data'][0] = orig
                hist.append(['restore'])
                continue
            good = ws['observations'][0]['data'][0] == orig
            if op == 'lookup-miss':
                try:
                    ps['no-such-patch']
                    r = 'returned'
                except Exception as e:
                    r = core.exc_enum(e)
                exp = 'InvalidPatchLookup'
            elif op == 'verify':
                try:
                    ps.verify(ws)
                    r = 'ok'
                except Exception as e:
                    r = core.exc_enum(e)
                exp = 'ok' if good else 'PatchSetVerificationError'
            else:
                key = rng.choice(names)
                sub = dict(c, key=('name', key))
                got, ex, mut = impl_apply_on(ps, sub)
                r, exp = got[0], ex[0]
                if got != ex:
                    r = r + ':different-result'
            hist.append([op, r] + ([key] if op == 'apply' else []))
            if r != exp:
                ctx.violation('history:%s:%s-vs-%s' % (op, r, exp), 'after the history %r, %s gives %s where the stateless rule gives %s' % (hist[:-1], op, r, exp),
                              dict(kind='history', ws=c['ws'], doc=c['doc0'], history=hist, expected=exp, theorem='C17_verify_iff (apply/verify depend on their arguments only)'))
                found_concrete = True
                break
        hstats['histories'] += 1
        sigs.add('h' + json.dumps(hist))

    # ---- decide ----
    if tie and not found_concrete:
        if not search(ctx, tie):
            ctx.violation('tie-broken', tie[:300], dict(kind='tie', detail=tie, theorem='props/C17.v'), nofail=True)
    ctx.coverage.update(evaluations=len(docs) + len(vcases) + len(acases), distinct_nontrivial=len(sigs),
                        rule='documents: 1-3 labels, 1-6 patches, names from a pool incl. internal words, value tuples from a pool with 1/1.0 '
                             'and strings, 7% wrong lengths; non-trivial = >=2 patches or an internal-word name; distinct by full metadata. '
                             'verify cases: key shuffles and single-leaf corruptions of random JSON trees; apply cases: real workspaces x op lists x keys',
                        construct_stats=stats, verify_stats=vstats, apply_stats=astats, history_stats=hstats,
                        samples=[dict(doc_patches=[p['metadata'] for p in docs[0]['patches']], keys=keys[0][:5], impl=impl[0]),
                                 dict(verify_case=vcases[1][3], ws=vcases[1][2], impl=vimpl[1][0])])


def _try(f):
    try:
        f()
        return 'ok'
    except Exception as e:
        return core.exc_enum(e)


def replay(body):
    kind = body.get('kind')
    if kind == 'construct':
        print(json.dumps(impl_doc(body['doc'], [tuple(k) for k in body['keys']]), indent=1, default=str))
    elif kind == 'verify':
        print(impl_verify(body['digests'], body['ws']))
    elif kind == 'apply':
        if body.get('doc0'):
            body = dict(body, doc=copy.deepcopy(body['doc0']))
        print(impl_apply(body)[:2])
    elif kind == 'apply-repeat':
        import pyhf
        doc = copy.deepcopy(body['doc0'])
        ps = pyhf.PatchSet(doc)
        c = dict(ws=body['ws'], doc=doc, doc0=body['doc0'], key=body['key'])
        for p in body['doc0']['patches']:
            impl_apply_on(ps, dict(c, key=('name', p['metadata']['name'])))
        got, ex, _ = impl_apply_on(ps, c)
        print('second application equals the patch as written:', got == ex, ' patch-set document unchanged:', doc == body['doc0'])
    elif kind == 'history':
        import pyhf
        doc0 = body['doc']
        ps = pyhf.PatchSet(copy.deepcopy(doc0))
        ws = copy.deepcopy(body['ws'])
        orig = None
        for h in body['history']:
            if h[0] == 'corrupt':
                orig = ws['observations'][0]['data'][0] if orig is None else orig
                ws['observations'][0]['data'][0] = orig + 1.0
            elif h[0] == 'restore' and orig is not None:
                ws['observations'][0]['data'][0] = orig
            elif h[0] == 'apply':
                got, ex, mut = impl_apply_on(ps, dict(ws=ws, doc=doc0, doc0=doc0, key=('name', h[2] if len(h) > 2 else doc0['patches'][0]['metadata']['name'])))
                print('apply ->', got[0], ' stateless rule ->', ex[0], ' same result:', got == ex)
            elif h[0] == 'verify':
                print('verify ->', impl_apply_on.__name__ and _try(lambda: ps.verify(ws)))
    else:
        print(body.get('detail'))
    return 0
