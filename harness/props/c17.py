"""C17 - patch sets look up, verify and apply patches exactly."""
import ast
import copy
import hashlib
import itertools
import json
import os
import unicodedata

from harness import core, facts

NAMES_INTERNAL = ['name', 'values', 'metadata', 'patch', 'patches', 'labels', 'digests', 'version']

# ---------------------------------------------------------------------------------------
# text.  JSON strings are arbitrary Unicode; the digest is taken of the UTF-8 bytes of the dump, names are compared
# code point by code point.  The Coq model represents a string by its UTF-8 bytes (Coq `string` = list of bytes;
# two Python strings are equal iff their UTF-8 encodings are, and byte order = code-point order for the key sort),
# so text that is canonically / compatibility-equivalent, differs in case, or only looks the same is DIFFERENT text.
UTEXT = ['\u00b5_sig',          # MICRO SIGN                      (NFKC -> U+03BC)
         '\u03bc_sig',          # GREEK SMALL LETTER MU
         'SR_m\u00b2',          # SUPERSCRIPT TWO                 (NFKC -> '2')
         'caf\u00e9',           # precomposed e-acute             (NFD  -> e + U+0301)
         'cafe\u0301',          # e + COMBINING ACUTE ACCENT      (NFC  -> U+00E9)
         '\ufb01t',             # LATIN SMALL LIGATURE FI         (NFKC -> 'fi')
         '\u212b',              # ANGSTROM SIGN                   (NFC  -> U+00C5)
         '\u2126_b',            # OHM SIGN                        (NFC  -> U+03A9)
         '\uff21\uff11',        # fullwidth 'A1'                  (NFKC -> 'A1')
         'stra\u00dfe',         # sharp s                         (casefold -> 'ss')
         'a\u00a0b',            # NO-BREAK SPACE                  (NFKC -> ' ')
         'x\u200by',            # ZERO WIDTH SPACE (no normal form removes it)
         '\u4fe1\u53f7',        # CJK
         'q\u0323\u0307',       # two combining marks             (NFC reorders nothing, NFD order is canonical)
         'q\u0307\u0323',       # the same marks in the other order (canonically equivalent to the previous)
         '\U0001d707',          # MATHEMATICAL ITALIC SMALL MU, outside the BMP (NFKC -> U+03BC)
         '\U0001f600',          # emoji, outside the BMP
         'Signal', ' pad ', 'tab\there', 'quote"back\\slash', '']
HOMOGLYPH = {'a': '\u0430', 'e': '\u0435', 'o': '\u043e', 'c': '\u0441', 'p': '\u0440', 'A': '\u0391', 'B': '\u0392', 'S': '\u0405', 'x': '\u0445'}


def text_variants(s):
    """strings that differ from s but are equivalent to it under some notion other than code-point equality"""
    out = []
    for t in [unicodedata.normalize(f, s) for f in ('NFC', 'NFD', 'NFKC', 'NFKD')] + [
            s.casefold(), s.lower(), s.upper(), s.swapcase(), s.strip(), s + ' ', ' ' + s, s + '\u200b', s + '\u0301',
            ''.join(HOMOGLYPH.get(c, c) for c in s), s.replace(' ', '\u00a0'), s.encode('utf8').decode('latin-1')]:
        if t != s and t not in out:
            out.append(t)
    return out


def ucstr(s):
    """Coq term for the UTF-8 byte string of s"""
    if all(32 <= ord(c) < 127 for c in s):
        return core.cstr(s)
    return '(ub [%s]%%nat)' % ';'.join(str(b) for b in s.encode('utf8'))


UB = 'Definition ub (l : list nat) : string := fold_right (fun n s => String (Ascii.ascii_of_nat n) s) EmptyString l.\n'


def json_to_coq(j):
    """python JSON value -> Coq term of type PV.Json.json (as harness/jsoncoq.py, any Unicode text)"""
    if j is None:
        return 'JNull'
    if isinstance(j, bool):
        return '(JBool %s)' % core.cbool(j)
    if isinstance(j, int):
        return '(JNum false %s)' % core.q(j)
    if isinstance(j, float):
        return '(JNum true %s)' % core.q(j)
    if isinstance(j, str):
        return '(JStr %s)' % ucstr(j)
    if isinstance(j, (list, tuple)):
        return '(JArr %s)' % core.clist(j, json_to_coq)
    if isinstance(j, dict):
        return '(JObj %s)' % core.clist(j.items(), lambda kv: '(%s, %s)' % (ucstr(kv[0]), json_to_coq(kv[1])))
    raise TypeError(type(j))


# ---------------------------------------------------------------------------------------
def extract(ctx):
    tree, _ = facts.parse('patchset.py')
    init = facts.find_func(facts.find_class(tree, 'PatchSet'), '__init__')
    keys = None
    for n in ast.walk(init):
        if isinstance(n, ast.Assign) and len(n.targets) == 1 and isinstance(n.targets[0], ast.Attribute) \
                and n.targets[0].attr == '_patches_by_key':
            if keys is not None:
                raise facts.TieBroken('_patches_by_key assigned twice')
            if isinstance(n.value, ast.Dict) and all(isinstance(k, ast.Constant) and isinstance(k.value, str) for k in n.value.keys):
                keys = [k.value for k in n.value.keys]
            elif isinstance(n.value, ast.Call) and isinstance(n.value.func, ast.Name) and n.value.func.id == 'dict' \
                    and not n.value.args and not n.value.keywords:
                keys = []
            else:
                raise facts.TieBroken('_patches_by_key initialiser not a literal dict')
    if keys is None:
        raise facts.TieBroken('_patches_by_key initialiser not found')
    utree, _ = facts.parse('utils.py')
    dig = facts.find_func(utree, 'digest')
    sort_keys = False
    for n in ast.walk(dig):
        if isinstance(n, ast.Call) and isinstance(n.func, ast.Attribute) and n.func.attr == 'dumps':
            v = facts.kw(n, 'sort_keys')
            sort_keys = isinstance(v, ast.Constant) and v.value is True
    facts.write_gen('FactsC17', 'Definition patchset_init_keys : list string := %s.\nDefinition digest_sort_keys : bool := %s.\n'
                    % (facts.coq_strlist(keys), core.cbool(sort_keys)))
    # tie to the source: coq/gen/PatchSetGen.v is written from $VERIF_REPO/src on every run (harness/props/c17_tie.py)
    from harness.props import c17_tie
    return dict(init_keys=keys, sort_keys=sort_keys, translated_from_source=c17_tie.extract(ctx))


def generate():
    from harness.props import c17_tie
    return c17_tie.generate()


# ---------------------------------------------------------------------------------------
def gen_doc(rng):
    nlab = rng.choice([1, 1, 2, 3])
    npatch = rng.choice([1, 2, 3, 4, 6])
    namepool = NAMES_INTERNAL[:rng.choice([0, 2, 2, 4, 8])] + ['p%d' % i for i in range(rng.choice([2, 4, 8]))]
    valpool = [0, 1, 1.0, 2, 2.5, -1, 'a', 'b', 100, 1e3]
    if rng.random() < 0.35:
        # string values are arbitrary text (the schema restricts patch NAMES to [a-zA-Z0-9_]+): non-ASCII values together with
        # texts equivalent to them, and names differing in case only -- all of them pairwise distinct keys
        base = rng.sample(UTEXT[:17], 2)
        valpool = valpool[:3] + base + [rng.choice(text_variants(b)) for b in base] + valpool[3:]
        namepool += ['Sig_1', 'sig_1', 'SIG_1', 'P0']
    patches = []
    for _ in range(npatch):
        n = rng.choice(namepool)
        k = nlab if rng.random() < 0.93 else rng.choice([0, nlab + 1])
        vals = [rng.choice(valpool[:rng.choice([3, 5, 10])]) for _ in range(k)]
        patches.append({'metadata': {'name': n, 'values': vals},
                        'patch': [{'op': 'add', 'path': '/x%d' % rng.randrange(3), 'value': rng.randrange(5)}]})
    if rng.random() < 0.6:   # make names unique to reach the deeper checks more often
        seen = set()
        for i, p in enumerate(patches):
            while p['metadata']['name'] in seen:
                p['metadata']['name'] = rng.choice(namepool) + ('_%d' % i if rng.random() < 0.7 else '')
            seen.add(p['metadata']['name'])
    if rng.random() < 0.5:
        seen = []
        for i, p in enumerate(patches):
            while any(tuple(p['metadata']['values']) == s for s in seen) and p['metadata']['values']:
                p['metadata']['values'][rng.randrange(len(p['metadata']['values']))] = rng.randrange(50) + 3
            seen.append(tuple(p['metadata']['values']))
    return {'metadata': {'references': {'hepdata': 'ins1234567'}, 'description': 'd',
                         'digests': {'md5': '0' * 32}, 'labels': ['l%d' % i for i in range(nlab)]},
            'patches': patches, 'version': '1.0.0'}


def lookup_keys(rng, doc):
    ks = []
    for p in doc['patches']:
        ks.append(('name', p['metadata']['name']))
        ks.append(('tuple', list(p['metadata']['values'])))
        ks.append(('list', list(p['metadata']['values'])))
    for s in NAMES_INTERNAL[:4] + ['nope', '']:
        ks.append(('name', s))
    # texts equivalent to a patch name / a string value (other normal form, other case, look-alike) are other keys
    for p in doc['patches'][:3]:
        vs = [p['metadata']['name'].upper(), p['metadata']['name'].swapcase()]
        if vs:
            ks.append(('name', rng.choice(vs)))
        for i, v in enumerate(p['metadata']['values']):
            if isinstance(v, str) and text_variants(v):
                ks.append(('tuple', p['metadata']['values'][:i] + [rng.choice(text_variants(v))] + p['metadata']['values'][i + 1:]))
                break
    ks.append(('tuple', [rng.choice([0, 1, 7.5, 'a']) for _ in doc['metadata']['labels']]))
    ks.append(('tuple', []))
    ks.append(('other', rng.randrange(5)))
    # a one-element tuple holding a patch name is not that name
    ks.append(('tuple', [doc['patches'][0]['metadata']['name']]))
    return ks


def impl_doc(doc, keys):
    import pyhf
    before = copy.deepcopy(doc)
    try:
        ps = pyhf.PatchSet(doc)
    except Exception as e:
        return dict(construct=core.exc_enum(e), msg=str(e)[:120], lookups=[], mutated=doc != before)
    out = []
    for kind, k in keys:
        key = k if kind in ('name', 'list', 'other') else tuple(k)
        try:
            r = ps[key]
            idx = [i for i, p in enumerate(ps.patches) if p is r]
            out.append(idx[0] if idx else 'not-a-patch:' + type(r).__name__)
        except Exception as e:
            out.append(core.exc_enum(e))
    return dict(construct='ok', lookups=out, mutated=doc != before, npatches=len(ps), names=[p.name for p in ps])


def pv(v):
    return '(PStr %s)' % ucstr(v) if isinstance(v, str) else '(PNum %s)' % core.q(v)


def model_expr(doc, keys):
    ps = core.clist(doc['patches'], lambda p: '{| ps_name := %s; ps_values := %s; ps_ops := [] |}' % (
        ucstr(p['metadata']['name']), core.clist(p['metadata']['values'], pv)))
    ks = core.clist(keys, lambda kk: ('(KName %s)' % ucstr(kk[1])) if kk[0] == 'name' else
                    ('(KOther %d)' % kk[1]) if kk[0] == 'other' else '(KVals %s)' % core.clist(kk[1], pv))
    return 'run_doc patchset_init_keys %d %s %s' % (len(doc['metadata']['labels']), ps, ks)


HEADER = '''From Coq Require Import ZArith QArith Qcanon String List.
Require Import PV.Num PV.Run PV.Json PV.PatchSet PV.gen.FactsC17.
Import ListNotations. Open Scope string_scope.
''' + UB + '''Definition code_got (g : got) : Z := match g with GPatch i => Z.of_nat i | GBook => (-2)%Z | GLookupError => (-1)%Z end.
Definition run_doc init n ps ks : list Z :=
  match construct init n ps with
  | inl t => 0%Z :: map (fun k => code_got (getitem t k)) ks
  | inr (DupName _) => [1%Z] | inr (DupValues _) => [2%Z] | inr (BadLength _) => [3%Z] end.
'''


def decode_model(res):
    v = core.parse_qc(res.replace('%Z', ''))
    if v[0] != 0:
        return dict(construct='InvalidPatchSet', sub=v[0], lookups=[])
    return dict(construct='ok', lookups=[x if x >= 0 else ('InvalidPatchLookup' if x == -1 else 'not-a-patch:dict') for x in v[1:]])


# ---------------------------------------------------------------------------------------
def ws_small(rng):
    """a small JSON document with nested objects/arrays, ints and floats"""
    uni = rng.random() < 0.5          # half of the documents carry non-ASCII text (values and keys)
    keys = ['a', 'b', 'c', 'name', 'z1', 'B'] + (rng.sample(UTEXT[:17], 3) if uni else [])

    def val(d):
        r = rng.random()
        if d <= 0 or r < 0.35:
            if uni and rng.random() < 0.45:
                return rng.choice(UTEXT)
            return rng.choice([0, 1, 1.0, 2.5, -3, 'a', 'b', True, None, 10, 0.0, '', 1e-7, 1e16])
        if r < 0.65:
            return [val(d - 1) for _ in range(rng.randrange(1, 4))]
        return {k: val(d - 1) for k in rng.sample(keys, rng.randrange(1, 4))}
    return {k: val(3) for k in rng.sample(['channels', 'observations', 'measurements', 'version', 'x'], rng.randrange(2, 5))}


def shuffle_keys(rng, j):
    if isinstance(j, dict):
        items = list(j.items())
        rng.shuffle(items)
        return {k: shuffle_keys(rng, v) for k, v in items}
    if isinstance(j, list):
        return [shuffle_keys(rng, v) for v in j]
    return j


def leaves(j, path=()):
    if isinstance(j, dict):
        for k, v in j.items():
            yield from leaves(v, path + (k,))
        if not j:
            yield path
    elif isinstance(j, list):
        for i, v in enumerate(j):
            yield from leaves(v, path + (i,))
        if not j:
            yield path
    else:
        yield path


def key_paths(j, path=()):
    """paths of all object members (for renaming a key)"""
    if isinstance(j, dict):
        for k, v in j.items():
            yield path + (k,)
            yield from key_paths(v, path + (k,))
    elif isinstance(j, list):
        for i, v in enumerate(j):
            yield from key_paths(v, path + (i,))


def get_at(j, path):
    for p in path:
        j = j[p]
    return j


def set_at(j, path, new):
    """copy of j with the leaf at path replaced"""
    j = copy.deepcopy(j)
    get_at(j, path[:-1])[path[-1]] = new
    return j


def rename_key(j, path, new):
    """copy of j with the member key at path renamed (position kept); None when the new key is already taken"""
    j = copy.deepcopy(j)
    d = get_at(j, path[:-1])
    if new in d:
        return None
    items = [(new if k == path[-1] else k, v) for k, v in d.items()]
    d.clear()
    d.update(items)
    return j


def text_corruptions(rng, j, cap):
    """every string leaf / member key that has equivalent-but-different spellings, replaced by one of them (at most cap cases,
    non-ASCII text first): (document, tag)"""
    cands = []
    for p in leaves(j):
        if p and isinstance(get_at(j, p), str) and text_variants(get_at(j, p)):
            cands.append(('value', p, get_at(j, p)))
    for p in key_paths(j):
        if len(p) > 1 and text_variants(p[-1]):
            cands.append(('key', p, p[-1]))
    rng.shuffle(cands)
    cands.sort(key=lambda c: c[2].isascii())
    out = []
    for what, p, old in cands[:cap]:
        vs = text_variants(old)
        new = rng.choice(vs[:4]) if rng.random() < 0.7 else rng.choice(vs)      # the four normal forms come first
        doc = set_at(j, p, new) if what == 'value' else rename_key(j, p, new)
        if doc is not None:
            out.append((doc, 'corrupt-text-%s' % what + '/' + '/'.join(map(str, p))))
    return out


def corrupt(rng, j, path):
    j = copy.deepcopy(j)
    cur = j
    for p in path[:-1]:
        cur = cur[p]
    old = cur[path[-1]]
    if isinstance(old, bool):
        new = not old
    elif isinstance(old, int):
        new = rng.choice([float(old), old + 1])       # 1 -> 1.0 must be noticed
    elif isinstance(old, float):
        new = rng.choice([int(old) if old == int(old) else old + 0.5, old * 2 + 1])
    elif isinstance(old, str):
        new = rng.choice([old + 'x'] + text_variants(old))
    elif old is None:
        new = 0
    else:
        new = None
    cur[path[-1]] = new
    return j


def impl_verify(doc_digests, ws):
    import pyhf
    doc = {'metadata': {'references': {'hepdata': 'ins1234567'}, 'description': 'd', 'digests': doc_digests, 'labels': ['x']},
           'patches': [{'metadata': {'name': 'p', 'values': [1]}, 'patch': []}], 'version': '1.0.0'}
    ps = pyhf.PatchSet(doc)
    before = copy.deepcopy(ws)
    try:
        ps.verify(ws)
        r = 'ok'
    except Exception as e:
        r = core.exc_enum(e)
    return r, ws != before or json.dumps(ws) != json.dumps(before)


def ref_digest(ws, alg):
    return getattr(hashlib, alg)(json.dumps(ws, sort_keys=True, ensure_ascii=False).encode('utf8')).hexdigest()


def impl_digest(ws, alg):
    import pyhf
    try:
        return pyhf.utils.digest(copy.deepcopy(ws), algorithm=alg)
    except Exception as e:
        return 'raised ' + core.exc_enum(e)


def has_non_ascii(j):
    return not json.dumps(j, ensure_ascii=False).isascii()


def corpus_cases(kind):
    d = os.path.join(core.VERIF, 'corpus', 'C17')
    out = []
    if os.path.isdir(d):
        for fn in sorted(os.listdir(d)):
            if fn.endswith('.json'):
                body = json.load(open(os.path.join(d, fn)))
                out += [dict(c, corpus=fn) for c in body.get('cases', [body]) if c.get('kind') == kind]
    return out


# ---------------------------------------------------------------------------------------
def pointers(j, path=''):
    """JSON pointers of every node below the root"""
    if isinstance(j, dict):
        for k, v in j.items():
            pp = path + '/' + k.replace('~', '~0').replace('/', '~1')
            yield pp
            yield from pointers(v, pp)
    elif isinstance(j, list):
        for i, v in enumerate(j):
            yield '%s/%d' % (path, i)
            yield from pointers(v, '%s/%d' % (path, i))


def resolve(j, ptr):
    for tok in ptr.split('/')[1:]:
        tok = tok.replace('~1', '/').replace('~0', '~')
        j = j[int(tok)] if isinstance(j, list) else j[tok]
    return j


def random_ops(rng, ws):
    """an RFC-6902 operation list over the pointers of ws (all six operations; `from` and `path` anywhere in the document, also in
    different top-level sections; now and then a pointer that does not resolve).  What it must produce is decided by jsonpatch on a copy."""
    ops = []
    cur = copy.deepcopy(ws)
    for _ in range(rng.choice([1, 1, 2, 3])):
        ptrs = list(pointers(cur))
        arrays = [p for p in ptrs if isinstance(resolve(cur, p), list)]
        kind = rng.choice(['add', 'remove', 'replace', 'move', 'move', 'copy', 'test'])
        path = rng.choice(ptrs)
        if rng.random() < 0.06:
            path += '/nope'
        if kind in ('move', 'copy'):
            src = rng.choice(ptrs)
            dst = rng.choice(arrays) + '/' + rng.choice(['-', '0']) if rng.random() < 0.6 else path
            if kind == 'move' and (dst + '/').startswith(src + '/'):
                continue                                   # a location cannot be moved into one of its children
            op = {'op': kind, 'from': src, 'path': dst}
        elif kind == 'remove':
            op = {'op': 'remove', 'path': path}
        elif kind == 'test':
            try:
                v = copy.deepcopy(resolve(cur, path))
            except Exception:
                v = 1
            op = {'op': 'test', 'path': path, 'value': v if rng.random() < 0.8 else 'something else'}
        else:
            if kind == 'add' and rng.random() < 0.5:
                path = rng.choice(arrays) + '/-'
            try:
                like = resolve(cur, path if not path.endswith('/-') else path[:-2] + '/0')
            except Exception:
                like = 1.0
            v = copy.deepcopy(like) if rng.random() < 0.5 else rng.choice([1.0, 7, 'new', [2.0], {'name': 'n', 'data': [1.0], 'modifiers': []}])
            op = {'op': kind, 'path': path, 'value': v}
        ops.append(op)
        try:
            import jsonpatch
            cur = jsonpatch.JsonPatch([copy.deepcopy(op)]).apply(cur)
        except Exception:
            break
    return ops


def relabel_text(rng, ws):
    """the same workspace with non-ASCII names (channel, signal sample, modifiers, measurement, POI)"""
    m = {'singlechannel': rng.choice(['SR_m\u00b2', 'caf\u00e9', 'cafe\u0301', '\uff21\uff11']), 'signal': rng.choice(['\ufb01t', '\u4fe1\u53f7']),
         'mu': rng.choice(['\u00b5', '\u03bc', '\U0001d707']), 'uncorr_bkguncrt': rng.choice(['\u212b_unc', 'q\u0323\u0307']),
         'm': rng.choice(['m\u00e9as', 'me\u0301as'])}

    def go(j):
        if isinstance(j, str):
            return m.get(j, j)
        if isinstance(j, list):
            return [go(x) for x in j]
        if isinstance(j, dict):
            return {k: go(v) for k, v in j.items()}
        return j
    return go(ws)


def apply_cases(rng, n):
    import pyhf
    out = []
    for c in corpus_cases('apply'):
        out.append(dict(ws=c['ws'], doc=copy.deepcopy(c['doc0']), doc0=c['doc0'], key=tuple(c['key']), wrong_digest=False))
    for i in range(n):
        nb = rng.choice([1, 2, 3])
        model = pyhf.simplemodels.uncorrelated_background([5.0 + i] * nb, [50.0] * nb, [7.0] * nb)
        ws = {'channels': copy.deepcopy(model.spec['channels']),
              'observations': [{'name': 'singlechannel', 'data': [float(rng.randrange(40, 70)) for _ in range(nb)]}],
              'measurements': [{'name': 'm', 'config': {'poi': 'mu', 'parameters': []}}], 'version': '1.0.0'}
        if rng.random() < 0.4:
            ws = relabel_text(rng, ws)
        poi = ws['measurements'][0]['config']['poi']
        opsets = {
            'sig2': [{'op': 'replace', 'path': '/channels/0/samples/0/data', 'value': [float(rng.randrange(1, 9))] * nb}],
            'addsample': [{'op': 'add', 'path': '/channels/0/samples/-', 'value':
                           {'name': 'extra', 'data': [1.0] * nb, 'modifiers': [{'name': 'k', 'type': 'normfactor', 'data': None}]}}],
            'rm_then_test': [{'op': 'test', 'path': '/version', 'value': '1.0.0'}, {'op': 'remove', 'path': '/channels/0/samples/1/modifiers/0'}],
            'bad_test': [{'op': 'test', 'path': '/version', 'value': '2'}],
            'invalidates': [{'op': 'remove', 'path': '/channels'}],
            'copy_across': [{'op': 'copy', 'from': '/observations/0/data', 'path': '/channels/0/samples/0/data'}],
            # `move` takes its value out of one place of the document: the source may lie in a section no `path` mentions
            'move_across': [{'op': 'move', 'from': '/measurements/0/config/parameters', 'path': '/channels/0/samples/0/modifiers/0/data'},
                            {'op': 'add', 'path': '/measurements/0/config/parameters', 'value': []}][:rng.choice([1, 2])],
            'move_leaf': [{'op': 'move', 'from': '/observations/0/data/0', 'path': '/channels/0/samples/1/data/-'}],
            'move_within': [{'op': 'move', 'from': '/channels/0/samples/1', 'path': '/channels/0/samples/0'}],
            'random_a': random_ops(rng, ws), 'random_b': random_ops(rng, ws),
            # a later operation writes INSIDE a value that an earlier operation of the same patch added
            'grow_added': [{'op': 'add', 'path': '/channels/0/samples/-', 'value': {'name': 'extra', 'data': [1.0] * nb, 'modifiers': []}},
                           {'op': 'copy', 'from': '/channels/0/samples/0/modifiers/0', 'path': '/channels/0/samples/2/modifiers/-'}],
            'edit_replaced': [{'op': 'replace', 'path': '/measurements/0/config', 'value': {'poi': poi, 'parameters': []}},
                              {'op': 'add', 'path': '/measurements/0/config/parameters/-', 'value': {'name': poi, 'bounds': [[0.0, 5.0]]}}],
        }
        names = rng.sample(sorted(opsets), 3)
        if rng.random() < 0.5 and not any(n_ in names for n_ in ('grow_added', 'edit_replaced')):
            names[rng.randrange(3)] = rng.choice(['grow_added', 'edit_replaced'])
        algs = rng.choice([['md5'], ['sha256'], ['sha256', 'md5'], ['md5', 'sha256']])
        wrong = rng.random() < 0.25
        digests = {a: (ref_digest(ws, a) if not (wrong and a == algs[-1]) else ('0' * (32 if a == 'md5' else 64))) for a in algs}
        doc = {'metadata': {'references': {'hepdata': 'ins1234567'}, 'description': 'd', 'digests': digests, 'labels': ['m']},
               'patches': [{'metadata': {'name': nm, 'values': [k]}, 'patch': opsets[nm]} for k, nm in enumerate(names)], 'version': '1.0.0'}
        key = rng.choice([('name', names[0]), ('name', names[-1]), ('tuple', [1]), ('list', [2.0]), ('name', 'absent'), ('tuple', [9])])
        # doc0: pristine copy of the document; expectations are computed from it (the PatchSet object holds references into doc)
        out.append(dict(ws=ws, doc=doc, doc0=copy.deepcopy(doc), key=key, wrong_digest=wrong))
    return out


def impl_apply_on(ps, case):
    """apply through an EXISTING PatchSet object (histories); expectation computed statelessly"""
    import pyhf
    import jsonpatch
    ws, doc, (kind, k) = case['ws'], case['doc'], case['key']
    doc0 = case.get('doc0') or copy.deepcopy(doc)
    key = tuple(k) if kind == 'tuple' else k
    before = copy.deepcopy(ws)
    try:
        res = ps.apply(ws, key)
        got = ('ok', json.loads(json.dumps(dict(res))))
    except Exception as e:
        got = (core.exc_enum(e), None)
    exp = None
    for a, d in doc0['metadata']['digests'].items():
        if ref_digest(before, a) != d:         # `before`: the workspace as it was handed over (the call may have damaged ws)
            exp = ('PatchSetVerificationError', None)
            break
    if exp is None:
        sel = [p for p in copy.deepcopy(doc0)['patches'] if (kind == 'name' and p['metadata']['name'] == k) or
               (kind != 'name' and tuple(p['metadata']['values']) == tuple(k))]
        if not sel:
            exp = ('InvalidPatchLookup', None)
        else:
            try:
                patched = jsonpatch.JsonPatch(sel[0]['patch']).apply(copy.deepcopy(before))
                exp = ('ok', json.loads(json.dumps(dict(pyhf.Workspace(patched)))))
            except Exception as e:
                exp = (core.exc_enum(e), None)
    return got, exp, ws != before


def impl_apply(case):
    import pyhf
    import jsonpatch
    ws, doc, (kind, k) = case['ws'], case['doc'], case['key']
    doc0 = case.get('doc0') or copy.deepcopy(doc)
    key = tuple(k) if kind == 'tuple' else k
    before = copy.deepcopy(ws)
    ps = pyhf.PatchSet(doc)
    try:
        res = ps.apply(ws, key)
        got = ('ok', json.loads(json.dumps(dict(res))))
    except Exception as e:
        got = (core.exc_enum(e), None)
    # what the property promises, computed without pyhf.PatchSet: verify (reference digests), look up, jsonpatch, Workspace
    exp = None
    for a, d in doc0['metadata']['digests'].items():
        if ref_digest(before, a) != d:         # `before`: the workspace as it was handed over (the call may have damaged ws)
            exp = ('PatchSetVerificationError', None)
            break
    if exp is None:
        sel = [p for p in copy.deepcopy(doc0)['patches'] if (kind == 'name' and p['metadata']['name'] == k) or
               (kind != 'name' and tuple(p['metadata']['values']) == tuple(k))]
        if not sel:
            exp = ('InvalidPatchLookup', None)
        else:
            try:
                patched = jsonpatch.JsonPatch(sel[0]['patch']).apply(copy.deepcopy(before))
                exp = ('ok', json.loads(json.dumps(dict(pyhf.Workspace(patched)))))
            except Exception as e:
                exp = (core.exc_enum(e), None)
    return got, exp, ws != before


# ---------------------------------------------------------------------------------------
def search(ctx, tie):
    """property-directed search on the implementation alone: names that are internal words, lookups of such words."""
    import pyhf
    found = False
    for nm in NAMES_INTERNAL + ['name_', 'p0']:
        doc = {'metadata': {'references': {'hepdata': 'ins1234567'}, 'description': 'd', 'digests': {'md5': '0' * 32}, 'labels': ['x']},
               'patches': [{'metadata': {'name': nm, 'values': [1]}, 'patch': []}], 'version': '1.0.0'}
        try:
            ps = pyhf.PatchSet(doc)
            ok = ps[nm] is ps.patches[0]
            outcome = 'ok' if ok else 'wrong-lookup'
        except Exception as e:
            outcome = core.exc_enum(e)
        if outcome != 'ok':
            ctx.violation('patch-name-rejected:' + nm, 'schema-valid patch set with one patch named %r is not accepted/looked up (%s)' % (nm, outcome),
                          dict(kind='construct', doc=doc, keys=[['name', nm]], impl=outcome, expected='accepted; lookup returns the patch',
                               theorem='C17_accepts_iff_distinct / C17_lookup_exact'))
            found = True
    doc = {'metadata': {'references': {'hepdata': 'ins1234567'}, 'description': 'd', 'digests': {'md5': '0' * 32}, 'labels': ['x']},
           'patches': [{'metadata': {'name': 'p', 'values': [1]}, 'patch': []}], 'version': '1.0.0'}
    ps = pyhf.PatchSet(doc)
    for k in NAMES_INTERNAL + ['q', ('p',), (2,), 3]:
        try:
            r = ps[k]
            outcome = 'returned ' + type(r).__name__
        except Exception as e:
            outcome = core.exc_enum(e)
        if outcome != 'InvalidPatchLookup':
            ctx.violation('foreign-key-lookup:' + str(k), 'lookup of key %r that names no patch gives %s instead of InvalidPatchLookup' % (k, outcome),
                          dict(kind='construct', doc=doc, keys=[['name', k] if isinstance(k, str) else ['tuple', list(k)] if isinstance(k, tuple) else ['other', k]],
                               impl=outcome, expected='InvalidPatchLookup', theorem='C17_other_key_raises'))
            found = True
    return found


def run(ctx):
    rng = ctx.rng
    tie = None
    try:
        fx = extract(ctx)
        ctx.coverage['extracted_facts'] = fx
    except facts.TieBroken as e:
        tie = 'translation of pyhf/patchset.py and utils.digest to Gallina / fact extraction failed (harness/props/c17_tie.py, c17.py:extract): %s' % e
    if tie is None:
        ok, txt = core.prove(ctx)
        if not ok:
            why = ('the functions translated from the source no longer coincide with the hand model (coq/TiePatchSet.v, C17_source_is_model_*): '
                   if ('TiePatchSet' in txt or 'source_is_model' in txt or 'PatchSetGen' in txt) else 'proof obligations of props/C17.v no longer check: ')
            tie = why + txt[-1200:]
    if tie is not None and os.path.exists(os.path.join(core.COQ, 'gen', 'FactsC17.v')):
        core.coq_make(['PatchSet.vo', 'gen/FactsC17.vo'])         # the hand model is run for the correspondence even when a tie theorem no longer checks
    ctx.trusted += ['harness/props/c17_tie.py + harness/props/tie_translate.py (python ast -> Gallina for utils.digest, Patch.__init__ / name / values / apply, '
                    'PatchSet.__init__ / __getitem__ / verify / apply; fail closed): C17_source_is_model_* prove the translated definitions equal to the hand '
                    'model; the reading of the python values (patch objects = positions, the lookup dict = table, json.dumps(sort_keys) = canon, hashlib / '
                    'jsonpatch / Workspace as opaque functions, private-copy tracking) is stated in the header of coq/gen/PatchSetGen.v',
                    'harness/props/c17.py:extract (python ast -> FactsC17.v: initial keys of the lookup table, sort_keys flag)',
                    'hashlib digests assumed collision-free (Section hypothesis H_inj of verify_recorded_iff_same/digest_value_sensitive)',
                    'jsonpatch library and pyhf.Workspace schema validation are used as oracles for the apply step (not modelled)']
    ctx.assumptions += ['json.dumps is injective on canonical trees; SHA/MD5 collision freeness',
                        'text is modelled by its UTF-8 byte string (PV.Json strings are byte lists): equality and ordering of Python str agree with those of '
                        'the UTF-8 encodings for well-formed text (no lone surrogates are generated); no Unicode equivalence is part of the model or the property']
    found_concrete = False

    # ---- correspondence 1: construction and lookup, model evaluated in Coq ----
    n = ctx.n(300, 4000)
    docs = [gen_doc(rng) for _ in range(n)]
    keys = [lookup_keys(rng, d) for d in docs]
    impl = [impl_doc(copy.deepcopy(d), k) for d, k in zip(docs, keys)]
    sigs = set()
    stats = dict(accepted=0, dup_name=0, dup_values=0, bad_length=0, internal_names=0)
    disagree = []
    if tie is None or 'fact extraction' not in tie or os.path.exists(os.path.join(core.COQ, 'gen', 'FactsC17.v')):
        try:
            res = core.coq_eval(ctx, 'docs', HEADER, [model_expr(d, k) for d, k in zip(docs, keys)])
            models = [decode_model(r) for r in res]
        except core.CoqEvalError as e:
            models = None
            tie = tie or ('model evaluation failed: %s' % str(e)[-800:])
    else:
        models = None
    for i, (d, k, im) in enumerate(zip(docs, keys, impl)):
        sig = (len(d['patches']), len(d['metadata']['labels']), im['construct'],
               tuple(sorted(set(p['metadata']['name'] for p in d['patches']) & set(NAMES_INTERNAL))))
        if len(d['patches']) >= 2 or sig[3]:
            sigs.add(json.dumps([sig, [p['metadata'] for p in d['patches']]], sort_keys=True))
        stats['internal_names'] += bool(sig[3])
        if im['mutated']:
            ctx.violation('construct-mutates-input', 'PatchSet(...) modified the caller\'s document', dict(kind='construct', doc=d, keys=k))
            found_concrete = True
        if models is None:
            continue
        mo = models[i]
        if mo['construct'] == 'ok':
            stats['accepted'] += 1
        else:
            stats[{1: 'dup_name', 2: 'dup_values', 3: 'bad_length'}[mo['sub']]] += 1
        if mo['construct'] != im['construct'] or mo['lookups'] != im['lookups']:
            disagree.append((i, mo, im))
    # a disagreement with the model is a broken correspondence; decide whether the *property* fails on that input.
    # The property (with the theorems proved for an empty initial table) says: accepted iff distinct names/tuples/length;
    # lookups exact.  Evaluate that specification directly.
    for i, mo, im in disagree[:20]:
        d, k = docs[i], keys[i]
        names = [p['metadata']['name'] for p in d['patches']]
        vals = [tuple(p['metadata']['values']) for p in d['patches']]
        distinct = len(set(names)) == len(names) and len(set(vals)) == len(vals) and all(len(v) == len(d['metadata']['labels']) for v in vals)
        spec_construct = 'ok' if distinct else 'InvalidPatchSet'
        spec_lookups = []
        if distinct:
            for kind, kk in k:
                if kind == 'name':
                    spec_lookups.append(names.index(kk) if kk in names else 'InvalidPatchLookup')
                elif kind == 'other':
                    spec_lookups.append('InvalidPatchLookup')
                else:
                    spec_lookups.append(vals.index(tuple(kk)) if tuple(kk) in vals else 'InvalidPatchLookup')
        if im['construct'] != spec_construct or (distinct and im['lookups'] != spec_lookups):
            bad = [kk for kk, a, b in zip(k, im['lookups'], spec_lookups) if a != b] if distinct and im['construct'] == 'ok' else []
            # shrink: a single patch reproducing it?
            sig = 'construct:%s-vs-%s' % (im['construct'], spec_construct) if im['construct'] != spec_construct else 'lookup-mismatch'
            ctx.violation(sig, 'PatchSet construction/lookup differs from the specification (impl %s, spec %s)' % (im['construct'], spec_construct),
                          dict(kind='construct', doc=d, keys=k, impl=im, expected=dict(construct=spec_construct, lookups=spec_lookups),
                               bad_keys=bad, model=mo, theorem='C17_accepts_iff_distinct / C17_lookup_exact / C17_other_key_raises'))
            found_concrete = True
    if disagree and not found_concrete:
        tie = tie or ('model and implementation disagree on %d documents (first: %r)' % (len(disagree), disagree[0][1:]))

    # ---- correspondence 2: verify <-> sameness of documents (jsame evaluated in Coq) ----
    nver = ctx.n(40, 400)
    vcases = []
    for c in corpus_cases('verify'):     # minimized past failures first
        vcases.append((c['ws0'], {a: ref_digest(c['ws0'], a) for a in c['algs']}, c['ws'], c.get('tag', 'corpus')))
    for _ in range(nver):
        ws0 = ws_small(rng)
        algs = rng.choice([['md5'], ['sha256'], ['md5', 'sha256'], ['sha256', 'md5']])      # the algorithms a patch set may list
        digs = {a: ref_digest(ws0, a) for a in algs}
        vcases.append((ws0, digs, shuffle_keys(rng, ws0), 'shuffle'))
        ls = list(leaves(ws0))
        for p in (ls if not ctx.quick else rng.sample(ls, min(len(ls), 4))):
            if p:
                vcases.append((ws0, digs, corrupt(rng, ws0, p), 'corrupt' + '/'.join(map(str, p))))
        # text replaced by an equivalent spelling (other normal form, other case, look-alike), as a value and as a member key
        for doc, tag in text_corruptions(rng, ws0, ctx.n(4, 40)):
            vcases.append((ws0, digs, doc, tag))
        # a digest wrong for exactly one listed algorithm (at any position) must fail
        for pos, a in enumerate(algs):
            digs2 = dict(digs)
            digs2[a] = '0' * len(digs[a])
            vcases.append((ws0, digs2, ws0, 'wrong-digest-at-%d-of-%d' % (pos, len(algs))))
    vimpl = [impl_verify(dg, copy.deepcopy(ws)) for ws0, dg, ws, _ in vcases]
    vhead = HEADER
    try:
        vres = core.coq_eval(ctx, 'verify', vhead, ['jsame %s %s' % (json_to_coq(ws0), json_to_coq(ws)) for ws0, dg, ws, _ in vcases], shard=200)
    except core.CoqEvalError as e:
        vres = None
        tie = tie or ('model evaluation failed: %s' % str(e)[-800:])
    vstats = dict(verified=0, refused=0, non_ascii=0, text_corruptions=0, digests_compared=0)
    # the digest itself: hash of the UTF-8 bytes of the key-sorted dump (what a recorded digest is made with), for every
    # document of the verify cases and every algorithm they list
    seen_dig = set()
    for ws0, dg, ws, kind in vcases:
        for doc in (ws0, ws):
            for a in list(dg) + [rng.choice(['sha1', 'sha512', 'sha3_256', 'blake2b', 'sha384'])]:
                k = (a, json.dumps(doc, sort_keys=True))
                if k in seen_dig:
                    continue
                seen_dig.add(k)
                vstats['digests_compared'] += 1
                got, exp = impl_digest(doc, a), ref_digest(doc, a)
                if got != exp:
                    ctx.violation('digest:not-hash-of-canonical-json:%s' % ('non-ascii' if has_non_ascii(doc) else 'ascii'),
                                  'pyhf.utils.digest(doc, %r) = %s, the %s of the key-sorted UTF-8 JSON dump is %s' % (a, got, a, exp),
                                  dict(kind='digest', ws=doc, algorithm=a, impl=got, expected=exp, theorem='C17_verify_iff (digest = H alg (canon doc))'))
                    found_concrete = True
    for i, ((ws0, dg, ws, kind), (r, mut)) in enumerate(zip(vcases, vimpl)):
        vstats['non_ascii'] += has_non_ascii(ws0)
        vstats['text_corruptions'] += kind.startswith('corrupt-text')
        if mut:
            ctx.violation('verify-mutates-input', 'verify modified the workspace', dict(kind='verify', ws0=ws0, ws=ws, digests=dg))
            found_concrete = True
        same = (vres[i] == 'true') if vres is not None else (json.dumps(ws0, sort_keys=True) == json.dumps(ws, sort_keys=True))
        recorded_ok = all(ref_digest(ws0, a) == d for a, d in dg.items())
        expected = 'ok' if (same and recorded_ok) else 'PatchSetVerificationError'
        vstats['verified' if r == 'ok' else 'refused'] += 1
        if r != expected:
            ctx.violation('verify:%s-vs-%s:%s' % (r, expected, kind.split('/')[0][:7] if not kind.startswith('corrupt-text') else 'equivalent-text'),
                          'verify gives %s where the digest rule gives %s (%s)' % (r, expected, kind),
                          dict(kind='verify', ws0=ws0, ws=ws, digests=dg, impl=r, expected=expected, theorem='C17_verify_recorded_iff_same'))
            found_concrete = True
        # the same question with the digests recorded by the implementation itself (a patch set written with `pyhf digest`):
        # verification of ws against the digests of ws0 succeeds iff the two are the same document, whatever the digest function does
        if recorded_ok and not kind.startswith('wrong-digest'):
            own = {a: impl_digest(ws0, a) for a in dg}
            tag = kind.split('/')[0][:7] if not kind.startswith('corrupt-text') else 'equivalent-text'
            if all(len(d) == len(dg[a]) for a, d in own.items()):
                r2, _ = impl_verify(own, copy.deepcopy(ws))
                exp2 = 'ok' if same else 'PatchSetVerificationError'
                vstats['own_digest_verifications'] = vstats.get('own_digest_verifications', 0) + 1
                if r2 != exp2:
                    ctx.violation('verify-own-digests:%s-vs-%s:%s' % (r2, exp2, tag),
                                  'against the digests pyhf.utils.digest gives for one document, verify of %s gives %s (%s)' % (
                                      'the same document' if same else 'a DIFFERENT document', r2, kind),
                                  dict(kind='verify', ws0=ws0, ws=ws, digests=own, impl=r2, expected=exp2, theorem='C17_digest_value_sensitive / C17_digest_key_order_insensitive'))
                    found_concrete = True
        if len(sigs) < 100000:
            sigs.add('v' + json.dumps([kind, ws], sort_keys=True)[:200])

    # ---- correspondence 3: apply = verify ; look up ; jsonpatch ; Workspace, input untouched ----
    acases = apply_cases(rng, ctx.n(30, 300))
    astats = {}
    for c in acases:
        handed = copy.deepcopy(c['ws'])
        got, exp, mut = impl_apply(c)
        astats[got[0]] = astats.get(got[0], 0) + 1
        astats['non_ascii_workspaces'] = astats.get('non_ascii_workspaces', 0) + has_non_ascii(handed)
        sel_ops = [o['op'] for p_ in c['doc0']['patches'] for o in p_['patch']
                   if (c['key'][0] == 'name' and p_['metadata']['name'] == c['key'][1]) or (c['key'][0] != 'name' and tuple(p_['metadata']['values']) == tuple(c['key'][1]))]
        for o in sel_ops:
            astats['op:' + o] = astats.get('op:' + o, 0) + 1
        if mut:
            ctx.violation('apply-mutates-input', 'apply modified the background workspace',
                          dict(kind='apply', impl=dict(outcome=got[0], workspace_after_the_call=c['ws']), expected='workspace untouched',
                               theorem='C17_apply_spec', **dict(c, ws=handed)))
            found_concrete = True
            c['ws'] = handed
        if got != exp:
            ctx.violation('apply:%s-vs-%s' % (got[0], exp[0]), 'apply returns %s, verify-lookup-patch gives %s' % (got[0], exp[0]),
                          dict(kind='apply', impl=got, expected=exp, theorem='C17_apply_spec', **c))
            found_concrete = True
        sigs.add('a' + json.dumps([c['key'], [p['metadata']['name'] for p in c['doc']['patches']], c['wrong_digest']]))
        # the same call once more on a PatchSet that has already applied each of its patches once: still the patch as written
        if got[0] == 'ok' and got == exp:
            import pyhf
            c2 = dict(c, doc=copy.deepcopy(c['doc0']))
            ps2 = pyhf.PatchSet(c2['doc'])
            first = [impl_apply_on(ps2, dict(c2, key=('name', p['metadata']['name'])))[0][0] for p in c2['doc0']['patches']]
            got2, exp2, mut2 = impl_apply_on(ps2, c2)
            astats['repeat'] = astats.get('repeat', 0) + 1
            if got2 != exp2:
                ctx.violation('apply:differs-on-repeat', 'the second PatchSet.apply with key %r on the same PatchSet object does not return the workspace patched as written '
                              '(the first application wrote into the stored patch: patch-set document %s)' % (c['key'][1], 'modified' if c2['doc'] != c2['doc0'] else 'unchanged'),
                              dict(kind='apply-repeat', impl=got2, expected=exp2, first_round=first, theorem='C17_apply_spec', ws=c['ws'], doc0=c['doc0'], key=c['key']))
                found_concrete = True

    # ---- correspondence 4: histories on ONE PatchSet and ONE workspace object: every call is decided by its current arguments ----
    import pyhf
    hstats = dict(histories=0, steps=0)
    for c in apply_cases(rng, ctx.n(12, 120)):
        if c['wrong_digest']:
            continue
        ws, doc = c['ws'], c['doc']
        ps = pyhf.PatchSet(doc)
        names = [p['metadata']['name'] for p in doc['patches']]
        hist = []
        leaf = ('observations', 0, 'data', 0)
        orig = ws['observations'][0]['data'][0]
        orig_name = ws['observations'][0]['name']
        ws_pristine = copy.deepcopy(ws)
        for step in range(rng.choice([4, 6, 8])):
            op = rng.choice(['apply', 'apply', 'corrupt', 'restore', 'verify', 'lookup-miss'])
            hstats['steps'] += 1
            if op == 'corrupt':
                if rng.random() < 0.5:      # ... of a number, or of a text by an equivalent spelling of it
                    ws['observations'][0]['data'][0] = orig + 1.0
                    hist.append(['corrupt'])
                else:
                    ws['observations'][0]['name'] = rng.choice(text_variants(orig_name)[:4])
                    hist.append(['corrupt-text', ws['observations'][0]['name']])
                continue
            if op == 'restore':
                ws['observations'][0]['data'][0] = orig
                ws['observations'][0]['name'] = orig_name
                hist.append(['restore'])
                continue
            good = ws['observations'][0]['data'][0] == orig and ws['observations'][0]['name'] == orig_name
            if op == 'lookup-miss':
                try:
                    ps['no-such-patch']
                    r = 'returned'
                except Exception as e:
                    r = core.exc_enum(e)
                exp = 'InvalidPatchLookup'
            elif op == 'verify':
                try:
                    ps.verify(ws)
                    r = 'ok'
                except Exception as e:
                    r = core.exc_enum(e)
                exp = 'ok' if good else 'PatchSetVerificationError'
            else:
                key = rng.choice(names)
                sub = dict(c, key=('name', key))
                got, ex, mut = impl_apply_on(ps, sub)
                r, exp = got[0], ex[0]
                if got != ex:
                    r = r + ':different-result'
                if mut:
                    hist.append([op, r, key])
                    ctx.violation('apply-mutates-input', 'apply modified the background workspace',
                                  dict(kind='history', ws=ws_pristine, doc=c['doc0'], history=hist, expected='workspace untouched', theorem='C17_apply_spec'))
                    found_concrete = True
                    break
            hist.append([op, r] + ([key] if op == 'apply' else []))
            if r != exp:
                ctx.violation('history:%s:%s-vs-%s' % (op, r, exp), 'after the history %r, %s gives %s where the stateless rule gives %s' % (hist[:-1], op, r, exp),
                              dict(kind='history', ws=ws_pristine, doc=c['doc0'], history=hist, expected=exp, theorem='C17_verify_iff (apply/verify depend on their arguments only)'))
                found_concrete = True
                break
        hstats['histories'] += 1
        sigs.add('h' + json.dumps(hist))

    # ---- decide ----
    if tie:
        ctx.notes.append('tie: ' + tie[:600])
        ctx.log('tie broken: ' + ' '.join(tie.split())[:300])
    if tie and not found_concrete:
        if not search(ctx, tie):
            ctx.violation('tie-broken', tie[:300], dict(kind='tie', detail=tie, theorem='props/C17.v'), nofail=True)
    ctx.coverage.update(evaluations=len(docs) + len(vcases) + len(acases), distinct_nontrivial=len(sigs),
                        rule='documents: 1-3 labels, 1-6 patches, names from a pool incl. internal words and names differing in case only, value tuples '
                             'from a pool with 1/1.0 and strings (a third of the documents with non-ASCII strings and equivalent spellings of them), 7% wrong '
                             'lengths; non-trivial = >=2 patches or an internal-word name; distinct by full metadata. '
                             'verify cases: key shuffles and single-leaf corruptions of random JSON trees, half of them with non-ASCII text (precomposed / '
                             'combining / compatibility / non-BMP characters) as values and keys, text corruptions by another normal form, case, look-alike or '
                             'invisible characters; digests compared with the hash of the canonical dump and verification repeated against digests recorded by '
                             'pyhf.utils.digest itself; apply cases: real workspaces (40% relabelled with non-ASCII names) x op lists (fixed pool incl. move '
                             'across sections + random RFC-6902 lists over all six operations) x keys',
                        construct_stats=stats, verify_stats=vstats, apply_stats=astats, history_stats=hstats,
                        samples=[dict(doc_patches=[p['metadata'] for p in docs[0]['patches']], keys=keys[0][:5], impl=impl[0]),
                                 dict(verify_case=vcases[1][3], ws=vcases[1][2], impl=vimpl[1][0])])


def _try(f):
    try:
        f()
        return 'ok'
    except Exception as e:
        return core.exc_enum(e)


def replay(body):
    kind = body.get('kind')
    if kind == 'construct':
        print(json.dumps(impl_doc(body['doc'], [tuple(k) for k in body['keys']]), indent=1, default=str))
    elif kind == 'verify':
        print(impl_verify(body['digests'], body['ws']))
    elif kind == 'digest':
        print(json.dumps(dict(impl=impl_digest(body['ws'], body['algorithm']), hash_of_canonical_json=ref_digest(body['ws'], body['algorithm']))))
    elif kind == 'apply':
        if body.get('doc0'):
            body = dict(body, doc=copy.deepcopy(body['doc0']))
        got, exp, mut = impl_apply(body)
        print(json.dumps(dict(impl=got, expected=exp, input_workspace_modified=mut), default=str)[:3000])
    elif kind == 'apply-repeat':
        import pyhf
        doc = copy.deepcopy(body['doc0'])
        ps = pyhf.PatchSet(doc)
        c = dict(ws=body['ws'], doc=doc, doc0=body['doc0'], key=body['key'])
        for p in body['doc0']['patches']:
            impl_apply_on(ps, dict(c, key=('name', p['metadata']['name'])))
        got, ex, _ = impl_apply_on(ps, c)
        print('second application equals the patch as written:', got == ex, ' patch-set document unchanged:', doc == body['doc0'])
    elif kind == 'history':
        import pyhf
        doc0 = body['doc']
        ps = pyhf.PatchSet(copy.deepcopy(doc0))
        ws = copy.deepcopy(body['ws'])
        orig = ws['observations'][0]['data'][0]
        orig_name = ws['observations'][0]['name']
        for h in body['history']:
            if h[0] == 'corrupt':
                ws['observations'][0]['data'][0] = orig + 1.0
            elif h[0] == 'corrupt-text':
                ws['observations'][0]['name'] = h[1]
            elif h[0] == 'restore':
                ws['observations'][0]['data'][0] = orig
                ws['observations'][0]['name'] = orig_name
            elif h[0] == 'apply':
                got, ex, mut = impl_apply_on(ps, dict(ws=ws, doc=doc0, doc0=doc0, key=('name', h[2] if len(h) > 2 else doc0['patches'][0]['metadata']['name'])))
                print('apply ->', got[0], ' stateless rule ->', ex[0], ' same result:', got == ex)
            elif h[0] == 'verify':
                print('verify ->', impl_apply_on.__name__ and _try(lambda: ps.verify(ws)))
    else:
        print(body.get('detail'))
    return 0
