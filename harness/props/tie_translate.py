"""Fail-closed symbolic translator (python `ast` -> Gallina text) for the small decision / formula functions of
pyhf.infer (test_statistics.py, calculators.py, infer/__init__.py).  Shared by C06, C07, C08, C14: each of those
harness modules has an `extract(ctx)` that subclasses `Exec` with the meaning of the *external* names of its
functions (the Section variables / constructors of the hand model) and writes coq/gen/<Name>Gen.v.

The translation is a symbolic execution of the function body:
  * every local is inlined (so renaming a local or reordering independent assignments changes nothing);
  * an `if` whose test is known at translation time (a flag fixed by the caller of the translator, a string
    compared with a string, a comparison with float('-inf')) selects its branch; an `if` with a symbolic test whose
    branches both fall through is merged variable by variable (`if c then a else b`); otherwise the rest of the
    function is continued in both branches;
  * `x is None` on an option-typed value becomes a `match`;
  * `raise X(..)` ends a path with the exception class name, `log.warning(..)` appends to the path's warning list.
Whitelist (anything else raises facts.TieBroken): see `Exec.expr`, `Exec.call`, `Exec.block`.

Conventions (the trusted reading of Python by this translator):
  number literals 0, 1, 2 become n0, n1, n1+n1 of the number record; other integer literals k become nofZ k; a list
  of integer literals iterated over becomes map nofZ [..]; float('-inf') compared with a (finite) number is decided
  at translation time; `ones(shape(x)) * float('nan')` is nan and `where(c, x, nan)` is `if c then Some x else None`;
  tensor comparisons / where / sum over a rank-1 tensor are map / fold over the list."""
import ast
import math
from fractions import Fraction

from harness import facts

TB = facts.TieBroken

NUM = 'num'
BOOL = 'bool'
ZT = 'Z'
NAT = 'nat'
OPTNUM = 'optnum'


def LIST(t):
    return ('list', t)


def PROD(*ts):
    out = ts[0]
    for t in ts[1:]:
        out = ('prod', out, t)
    return out


def OPTION(t):
    return ('option', t)


class S:
    """python constant known at translation time (int, float, str, bool, None)"""

    def __init__(self, v):
        self.v = v

    def __repr__(self):
        return 'S(%r)' % (self.v,)


class T:
    """Coq term (text) of type ty"""

    def __init__(self, s, ty, key=None):
        self.s, self.ty, self.key = s, ty, key       # key: ('attr'|'name', k) - what `is None` refines

    def __repr__(self):
        return 'T(%s : %r)' % (self.s, self.ty)


class Tup:
    def __init__(self, items):
        self.items = list(items)


class Lst:
    def __init__(self, items):
        self.items = list(items)


class Vec:
    """rank-1 tensor given elementwise: [body | var <- src]"""

    def __init__(self, src, var, body):
        self.src, self.var, self.body = src, var, body


class Shape:
    def __init__(self, of):
        self.of = of


class Clo:
    def __init__(self, fn):
        self.fn = fn


class Ext:
    """opaque external thing (module, function, object) known by a tag only"""

    def __init__(self, tag, data=None):
        self.tag, self.data = tag, data

    def __repr__(self):
        return 'Ext(%s)' % self.tag


class IsNone:
    """the test `x is None` (neg: `is not None`) on an option-typed term; key: what to rebind in the Some branch"""

    def __init__(self, term, key, neg=False):
        self.term, self.key, self.neg = term, key, neg


# ---- outcomes of a block ---------------------------------------------------------------------------------------
class Fall:
    def __init__(self, st):
        self.st = st


class Ret:
    def __init__(self, val, st):
        self.val, self.st = val, st


class Exc:
    def __init__(self, name, st):
        self.name, self.st = name, st


class Branch:
    """kind 'if': scrut is a bool term, cases (then, else); kind 'opt': scrut an option term, cases (none, some), var"""

    def __init__(self, kind, scrut, cases, var=None):
        self.kind, self.scrut, self.cases, self.var = kind, scrut, cases, var


class St:
    def __init__(self, env=None, attrs=None, warns=None):
        self.env = dict(env or {})
        self.attrs = dict(attrs or {})
        self.warns = list(warns or [])       # Coq terms of type list <warning>

    def copy(self):
        return St(self.env, self.attrs, self.warns)


def render_warns(segs):
    if not segs:
        return '[]'
    if len(segs) == 1:
        return segs[0]
    return '(' + ' ++ '.join(segs) + ')'


def numlit(x):
    if isinstance(x, bool):
        raise TB('boolean used as a number')
    if isinstance(x, float) and (math.isinf(x) or math.isnan(x)):
        raise TB('non-finite literal %r used as a number' % x)
    f = Fraction(x)
    if f.denominator == 1:
        n = f.numerator
        if n == 0:
            return '(n0 N)'
        if n == 1:
            return '(n1 N)'
        if n == 2:
            return '(nadd N (n1 N) (n1 N))'
        return '(nofZ N (%d))' % n
    return '(ndiv N (nofZ N (%d)) (nofZ N (%d)))' % (f.numerator, f.denominator)


def is_static_num(v):
    return isinstance(v, S) and isinstance(v.v, (int, float)) and not isinstance(v.v, bool)


def dump(e):
    return ast.dump(e, annotate_fields=False, include_attributes=False)


def pattern(src):
    return dump(ast.parse(src, mode='eval').body)


def bind_call(fn, call_args, call_kwargs, skip_self=False, what=''):
    """bind positional / keyword arguments to the parameters of the FunctionDef fn; returns ({param: value}, **-dict or None)"""
    a = fn.args
    if a.posonlyargs or a.vararg or a.kwonlyargs:
        raise TB('%s: signature outside the translator' % (what or fn.name))
    params = [x.arg for x in a.args]
    if skip_self:
        if params[:1] != ['self']:
            raise TB('%s: first parameter is not self' % fn.name)
        params = params[1:]
    if len(call_args) > len(params):
        raise TB('%s: too many positional arguments' % (what or fn.name))
    out = dict(zip(params, call_args))
    extra = {}
    for k, v in call_kwargs.items():
        if k in out:
            raise TB('%s: %s bound twice' % (what or fn.name, k))
        if k in params:
            out[k] = v
        elif a.kwarg is not None:
            extra[k] = v
        else:
            raise TB('%s: unknown keyword %s' % (what or fn.name, k))
    return out, params, extra


def defaults_of(fn, skip_self=False):
    params = [x.arg for x in fn.args.args]
    ds = fn.args.defaults
    out = dict(zip(params[len(params) - len(ds):], ds))
    return out


# ----------------------------------------------------------------------------------------------------------------
class Exec:
    """symbolic executor; subclasses give meaning to external names"""
    nan_some = True
    dflt = {NUM: '(n0 N)'}          # default element for `nth` per element type

    def __init__(self):
        self.patterns = []           # (ast dump, value) looked up before anything else
        self.fresh_n = 0

    # ---- to be overridden ------------------------------------------------------------------------
    def global_name(self, name, st):
        raise TB('unknown name %s' % name)

    def call_ext(self, f, args, kwargs, node, st):
        raise TB('call of %r (line %d)' % (f, node.lineno))

    def attr_ext(self, base, attr, node, st):
        raise TB('attribute .%s of %r (line %d)' % (attr, base, node.lineno))

    def self_attr(self, attr, node, st):
        raise TB('self.%s (line %d)' % (attr, node.lineno))

    def warning(self, msg, node):
        raise TB('log.warning outside the translator (line %d)' % node.lineno)

    def list_term(self, lst):
        """Coq list term of a python list of values"""
        items = lst.items
        if all(isinstance(x, T) for x in items) and len({x.ty for x in items}) == 1 and items:
            return T('[' + '; '.join(x.s for x in items) + ']', LIST(items[0].ty))
        if items and all(is_static_num(x) and isinstance(x.v, int) for x in items):
            return T('(map (nofZ N) [' + '; '.join('%d' % x.v for x in items) + ']%Z)', LIST(NUM))
        raise TB('python list that is not a homogeneous list of terms')

    # ---- helpers ---------------------------------------------------------------------------------
    def fresh(self, base):
        self.fresh_n += 1
        return 'x_%s%s' % (base, '' if self.fresh_n == 0 else '')

    def num(self, v, node=None):
        if isinstance(v, T) and v.ty == NUM:
            return v.s
        if is_static_num(v):
            return numlit(v.v)
        raise TB('a number was expected%s, got %r' % (' (line %d)' % node.lineno if node is not None else '', v))

    def boolterm(self, v):
        if isinstance(v, T) and v.ty == BOOL:
            return v.s
        if isinstance(v, S) and isinstance(v.v, bool):
            return 'true' if v.v else 'false'
        raise TB('a boolean was expected, got %r' % (v,))

    def optnum(self, v):
        if isinstance(v, T) and v.ty == OPTNUM:
            return v.s
        if isinstance(v, S) and isinstance(v.v, float) and math.isnan(v.v):
            return 'None'
        return '(Some %s)' % self.num(v)

    # ---- expressions -----------------------------------------------------------------------------
    def expr(self, e, st):
        d = dump(e)
        for pd, val in self.patterns:
            if pd == d:
                return val(st) if callable(val) else val
        if isinstance(e, ast.Constant):
            if isinstance(e.value, (bool, int, float, str)) or e.value is None:
                return S(e.value)
            raise TB('literal %r' % (e.value,))
        if isinstance(e, ast.JoinedStr):
            return Ext('fstring')
        if isinstance(e, ast.Name):
            if e.id in st.env:
                return st.env[e.id]
            return self.global_name(e.id, st)
        if isinstance(e, ast.Attribute):
            if isinstance(e.value, ast.Name) and e.value.id == 'self' and 'self' not in st.env:
                if e.attr in st.attrs:
                    return st.attrs[e.attr]
                return self.self_attr(e.attr, e, st)
            base = self.expr(e.value, st)
            return self.attr_ext(base, e.attr, e, st)
        if isinstance(e, ast.Tuple):
            return Tup([self.expr(x, st) for x in e.elts])
        if isinstance(e, ast.List):
            return Lst([self.expr(x, st) for x in e.elts])
        if isinstance(e, ast.UnaryOp):
            if isinstance(e.op, ast.Not):
                return self.not_(self.test(e.operand, st))
            x = self.expr(e.operand, st)
            if isinstance(e.op, ast.USub):
                if is_static_num(x):
                    return S(-x.v)
                return T('(nopp N %s)' % self.num(x, e), NUM)
            raise TB('unary operator %s (line %d)' % (type(e.op).__name__, e.lineno))
        if isinstance(e, ast.BinOp):
            return self.binop(type(e.op).__name__, self.expr(e.left, st), self.expr(e.right, st), e)
        if isinstance(e, (ast.Compare, ast.BoolOp)):
            return self.test(e, st)
        if isinstance(e, ast.IfExp):
            c = self.test(e.test, st)
            if isinstance(c, S):
                return self.expr(e.body if self.truth(c) else e.orelse, st)
            if isinstance(c, IsNone):
                raise TB('conditional expression on `is None` (line %d)' % e.lineno)
            return self.merge(self.boolterm(c), self.expr(e.body, st), self.expr(e.orelse, st))
        if isinstance(e, ast.Call):
            return self.call(e, st)
        if isinstance(e, ast.Subscript):
            return self.subscript(self.expr(e.value, st), self.expr(e.slice, st), e)
        if isinstance(e, (ast.ListComp, ast.GeneratorExp)):
            return self.comprehension(e, st)
        raise TB('expression %s (line %d)' % (type(e).__name__, getattr(e, 'lineno', 0)))

    def truth(self, c):
        if isinstance(c.v, (bool, int, float, str)) or c.v is None:
            return bool(c.v)
        raise TB('truth value of %r' % (c,))

    def not_(self, c):
        if isinstance(c, S):
            return S(not self.truth(c))
        if isinstance(c, IsNone):
            return IsNone(c.term, c.key, not c.neg)
        return T('(negb %s)' % self.boolterm(c), BOOL)

    def binop(self, op, a, b, node):
        if isinstance(a, S) and isinstance(b, S):
            try:
                if op == 'Add':
                    return S(a.v + b.v)
                if op == 'Sub':
                    return S(a.v - b.v)
                if op == 'Mult':
                    return S(a.v * b.v)
            except TypeError:
                raise TB('static %s of %r and %r' % (op, a, b))
            raise TB('static operator %s (line %d)' % (op, node.lineno))
        for x, y in ((a, b), (b, a)):
            if isinstance(x, S) and isinstance(x.v, float) and math.isnan(x.v) and op == 'Mult':
                return S(float('nan'))            # nan * anything = nan
        if op == 'Div' and (getattr(a, 'ty', None) == OPTNUM or getattr(b, 'ty', None) == OPTNUM):
            return T('(match %s, %s with Some x, Some y => Some (ndiv N x y) | _, _ => None end)' % (self.optnum(a), self.optnum(b)), OPTNUM)
        if op == 'Div' and getattr(a, 'ty', None) == ZT and getattr(b, 'ty', None) == ZT:
            return T('(ndiv N (nofZ N %s) (nofZ N %s))' % (a.s, b.s), NUM)       # true division of integers
        f = {'Add': 'nadd', 'Sub': 'nsub', 'Mult': 'nmul', 'Div': 'ndiv'}.get(op)
        if f is None:
            raise TB('binary operator %s (line %d)' % (op, node.lineno))
        return T('(%s N %s %s)' % (f, self.num(a, node), self.num(b, node)), NUM)

    def compare1(self, op, a, b, node):
        opn = type(op).__name__
        if opn in ('Is', 'IsNot'):
            if not (isinstance(b, S) and b.v is None):
                raise TB('`is` with something else than None (line %d)' % node.lineno)
            if isinstance(a, S):
                return S((a.v is None) == (opn == 'Is'))
            if isinstance(a, T) and isinstance(a.ty, tuple) and a.ty[0] == 'option':
                return IsNone(a, getattr(a, 'key', None), neg=(opn == 'IsNot'))
            if isinstance(a, (T, Tup, Lst, Vec)):
                return S(opn != 'Is')
            raise TB('`is None` on %r (line %d)' % (a, node.lineno))
        if opn in ('In', 'NotIn'):
            if isinstance(a, S) and isinstance(b, (Lst, Tup)) and all(isinstance(x, S) for x in b.items):
                return S((a.v in [x.v for x in b.items]) == (opn == 'In'))
            raise TB('`in` on non-literals (line %d)' % node.lineno)
        if isinstance(a, S) and isinstance(b, S):
            if isinstance(a.v, str) != isinstance(b.v, str):
                raise TB('comparison of a string with a number (line %d)' % node.lineno)
            import operator
            f = {'Eq': operator.eq, 'NotEq': operator.ne, 'Lt': operator.lt, 'LtE': operator.le, 'Gt': operator.gt, 'GtE': operator.ge}.get(opn)
            if f is None:
                raise TB('comparison %s (line %d)' % (opn, node.lineno))
            return S(f(a.v, b.v))
        # elementwise on a rank-1 tensor
        for x, y, flip in ((a, b, False), (b, a, True)):
            if isinstance(x, T) and x.ty == LIST(NUM):
                x = Vec(x.s, 'x_s', T('x_s', NUM))
            if isinstance(x, Vec) and not isinstance(y, Vec):
                l, r = (y, x.body) if flip else (x.body, y)
                return Vec(x.src, x.var, self.compare1(op, l, r, node))
        # float('-inf') / float('inf') against a (finite) number: decided here
        for x, y, flip in ((a, b, False), (b, a, True)):
            if isinstance(x, S) and isinstance(x.v, float) and math.isinf(x.v):
                self.num(y, node)                           # the other side must be a number
                neg = x.v < 0
                o = opn if not flip else {'Lt': 'Gt', 'LtE': 'GtE', 'Gt': 'Lt', 'GtE': 'LtE'}.get(opn, opn)
                # now: (x=+-inf) o y
                if o in ('Lt', 'LtE'):
                    return S(neg)
                if o in ('Gt', 'GtE'):
                    return S(not neg)
                if o == 'Eq':
                    return S(False)
                if o == 'NotEq':
                    return S(True)
        if getattr(a, 'ty', None) == NAT or getattr(b, 'ty', None) == NAT:
            def nat(v):
                if isinstance(v, T) and v.ty == NAT:
                    return v.s
                if isinstance(v, S) and isinstance(v.v, int) and not isinstance(v.v, bool) and v.v >= 0:
                    return '%d' % v.v
                raise TB('a natural number was expected (line %d)' % node.lineno)
            x, y = nat(a), nat(b)
            m = {'Gt': '(Nat.ltb %s %s)' % (y, x), 'GtE': '(Nat.leb %s %s)' % (y, x), 'Lt': '(Nat.ltb %s %s)' % (x, y),
                 'LtE': '(Nat.leb %s %s)' % (x, y), 'Eq': '(Nat.eqb %s %s)' % (x, y), 'NotEq': '(negb (Nat.eqb %s %s))' % (x, y)}
            if opn not in m:
                raise TB('comparison %s (line %d)' % (opn, node.lineno))
            return T(m[opn], BOOL)
        x, y = self.num(a, node), self.num(b, node)
        m = {'Gt': '(nltb N %s %s)' % (y, x), 'GtE': '(nleb N %s %s)' % (y, x), 'Lt': '(nltb N %s %s)' % (x, y),
             'LtE': '(nleb N %s %s)' % (x, y), 'Eq': '(neqb N %s %s)' % (x, y), 'NotEq': '(negb (neqb N %s %s))' % (x, y)}
        if opn not in m:
            raise TB('comparison %s (line %d)' % (opn, node.lineno))
        return T(m[opn], BOOL)

    def test(self, e, st):
        if isinstance(e, ast.Compare):
            terms = [self.expr(e.left, st)] + [self.expr(c, st) for c in e.comparators]
            parts = [self.compare1(op, a, b, e) for op, a, b in zip(e.ops, terms, terms[1:])]
            if len(parts) == 1:
                return parts[0]
            return self.boolop('And', parts, e)
        if isinstance(e, ast.BoolOp):
            vals = [self.expr(v, st) for v in e.values]
            if any(isinstance(v, Ext) for v in vals):
                return self.ext_boolop(type(e.op).__name__, vals, e, st)
            return self.boolop(type(e.op).__name__, vals, e)
        if isinstance(e, ast.UnaryOp) and isinstance(e.op, ast.Not):
            return self.not_(self.test(e.operand, st))
        v = self.expr(e, st)
        if isinstance(v, (S, IsNone)) or (isinstance(v, T) and v.ty == BOOL) or isinstance(v, Vec):
            return v
        raise TB('test on %r (line %d)' % (v, e.lineno))

    def ext_boolop(self, op, vals, node, st):
        raise TB('and/or on external values (line %d)' % node.lineno)

    def boolop(self, op, parts, node):
        out = None
        for p in parts:
            if isinstance(p, IsNone) or isinstance(p, Vec):
                raise TB('and/or over `is None` / tensors (line %d)' % node.lineno)
            if isinstance(p, S):
                b = self.truth(p)
                if (op == 'And' and not b) or (op == 'Or' and b):
                    return S(b) if out is None else T('(%s %s %s)' % ('andb' if op == 'And' else 'orb', out, 'true' if b else 'false'), BOOL)
                continue
            s = self.boolterm(p)
            out = s if out is None else '(%s %s %s)' % ('andb' if op == 'And' else 'orb', out, s)
        if out is None:
            return S(op == 'And')
        return T(out, BOOL)

    def subscript(self, base, idx, node):
        if isinstance(base, (Tup, Lst)) and isinstance(idx, S) and isinstance(idx.v, int):
            if not -len(base.items) <= idx.v < len(base.items):
                raise TB('index out of range (line %d)' % node.lineno)
            return base.items[idx.v]
        if isinstance(base, Shape) and isinstance(idx, S) and idx.v == 0:
            return T('(Z.of_nat (length %s))' % base.of, ZT)
        if isinstance(base, T) and isinstance(base.ty, tuple) and base.ty[0] == 'list':
            el = base.ty[1]
            if isinstance(idx, S) and isinstance(idx.v, int) and idx.v >= 0:
                if el not in self.dflt:
                    raise TB('no default element for lists of %r' % (el,))
                return T('(nth %d %s %s)' % (idx.v, base.s, self.dflt[el]), el)
            if isinstance(idx, T) and idx.ty == OPTION(NAT) and el in self.dflt:
                # x[pdf.config.poi_index]: python fails on None; the hand model returns the default there
                return T('(match %s with Some i => nth i %s %s | None => %s end)' % (idx.s, base.s, self.dflt[el], self.dflt[el]), el)
        raise TB('subscript of %r by %r (line %d)' % (base, idx, node.lineno))

    def comprehension(self, e, st):
        if len(e.generators) != 1 or e.generators[0].ifs or e.generators[0].is_async:
            raise TB('comprehension shape (line %d)' % e.lineno)
        g = e.generators[0]
        if not isinstance(g.target, ast.Name):
            raise TB('comprehension target (line %d)' % e.lineno)
        it = self.expr(g.iter, st)
        if isinstance(it, Tup) or (isinstance(it, Lst) and not all(is_static_num(x) for x in it.items)):
            out = []
            for x in it.items:
                st2 = st.copy()
                st2.env[g.target.id] = x
                out.append(self.expr(e.elt, st2))
            return Lst(out) if isinstance(it, Lst) else Tup(out)
        if isinstance(it, Lst):
            it = self.list_term(it)
        if isinstance(it, T) and isinstance(it.ty, tuple) and it.ty[0] == 'list':
            var = 'x_' + g.target.id
            st2 = st.copy()
            st2.env[g.target.id] = T(var, it.ty[1])
            body = self.expr(e.elt, st2)
            if not isinstance(body, T):
                body = self.as_term(body)
            if body.s == var:
                return it                                   # [x for x in l]
            return T('(map (fun %s => %s) %s)' % (var, body.s, it.s), LIST(body.ty))
        raise TB('comprehension over %r (line %d)' % (it, e.lineno))

    def as_term(self, v):
        """a value as one Coq term"""
        if isinstance(v, T):
            return v
        if is_static_num(v):
            return T(numlit(v.v), NUM)
        if isinstance(v, S) and isinstance(v.v, bool):
            return T('true' if v.v else 'false', BOOL)
        if isinstance(v, Tup) and v.items:
            ts = [self.as_term(x) for x in v.items]
            return T('(' + ', '.join(t.s for t in ts) + ')', PROD(*[t.ty for t in ts]))
        if isinstance(v, Lst):
            return self.list_term(v)
        if isinstance(v, Vec):
            return T('(map (fun %s => %s) %s)' % (v.var, self.as_term(v.body).s, v.src), LIST(self.as_term(v.body).ty))
        raise TB('value %r has no Coq term' % (v,))

    # ---- merging the two sides of an `if` ----------------------------------------------------------
    def merge(self, c, a, b):
        if a is b:
            return a
        if isinstance(a, S) and isinstance(b, S) and type(a.v) is type(b.v) and (a.v == b.v or (a.v != a.v and b.v != b.v)):
            return a
        if isinstance(a, Ext) and isinstance(b, Ext) and a.tag == b.tag:
            return a
        if isinstance(a, Clo) and isinstance(b, Clo) and a.fn is b.fn:
            return a
        if isinstance(a, Tup) and isinstance(b, Tup) and len(a.items) == len(b.items):
            return Tup([self.merge(c, x, y) for x, y in zip(a.items, b.items)])
        if isinstance(a, T) and isinstance(b, T) and a.ty == b.ty and a.s == b.s:
            return a
        nan = lambda v: isinstance(v, S) and isinstance(v.v, float) and math.isnan(v.v)
        if nan(a) or nan(b) or getattr(a, 'ty', None) == OPTNUM or getattr(b, 'ty', None) == OPTNUM:
            return T('(if %s then %s else %s)' % (c, self.optnum(a), self.optnum(b)), OPTNUM)
        try:
            ta, tb_ = self.as_term(a), self.as_term(b)
        except TB as e:
            raise TB('cannot merge %r and %r under a condition: %s' % (a, b, e))
        if ta.ty != tb_.ty:
            raise TB('cannot merge values of types %r and %r under a condition' % (ta.ty, tb_.ty))
        return T('(if %s then %s else %s)' % (c, ta.s, tb_.s), ta.ty)

    def merge_states(self, c, s1, s2):
        out = St()
        for k in s1.env:
            if k in s2.env:
                try:
                    out.env[k] = self.merge(c, s1.env[k], s2.env[k])
                except TB as e:
                    out.env[k] = Ext('unmergeable', str(e))       # using it later fails closed
        for k in s1.attrs:
            if k in s2.attrs:
                out.attrs[k] = self.merge(c, s1.attrs[k], s2.attrs[k])
            else:
                raise TB('self.%s assigned under a condition only' % k)
        for k in s2.attrs:
            if k not in s1.attrs:
                raise TB('self.%s assigned under a condition only' % k)
        n = 0
        while n < len(s1.warns) and n < len(s2.warns) and s1.warns[n] == s2.warns[n]:
            n += 1
        out.warns = s1.warns[:n]
        if len(s1.warns) > n or len(s2.warns) > n:
            out.warns.append('(if %s then %s else %s)' % (c, render_warns(s1.warns[n:]), render_warns(s2.warns[n:])))
        return out

    # ---- calls -----------------------------------------------------------------------------------------
    def call(self, e, st):
        # list(map(list, zip(*X)))  -- transposition of a sequence of triples
        if (isinstance(e.func, ast.Name) and e.func.id == 'list' and len(e.args) == 1 and not e.keywords
                and dump(e.args[0]).startswith("Call(Name('map', Load()), [Name('list', Load()), Call(Name('zip', Load()), [Starred(")):
            inner = e.args[0].args[1]
            if len(inner.args) != 1 or inner.keywords or len(e.args[0].args) != 2:
                raise TB('zip(*..) shape (line %d)' % e.lineno)
            x = self.expr(inner.args[0].value, st)
            x = x if isinstance(x, T) else self.as_term(x)
            if not (isinstance(x.ty, tuple) and x.ty[0] == 'list' and isinstance(x.ty[1], tuple) and x.ty[1][0] == 'prod'
                    and isinstance(x.ty[1][1], tuple) and x.ty[1][1][0] == 'prod'):
                raise TB('zip(*X): X is not a sequence of triples (line %d)' % e.lineno)
            (_, (_, t1, t2), t3) = x.ty[1]
            if not (t1 == t2 == t3):
                raise TB('zip(*X): triples of mixed types (line %d)' % e.lineno)
            return T('[map (fun r => fst (fst r)) %s; map (fun r => snd (fst r)) %s; map (fun r => snd r) %s]' % (x.s, x.s, x.s), LIST(LIST(t1)))
        f = self.expr(e.func, st)
        if any(isinstance(a, ast.Starred) for a in e.args) or any(k.arg is None for k in e.keywords):
            return self.call_star(f, e, st)
        args = [self.expr(a, st) for a in e.args]
        kwargs = {k.arg: self.expr(k.value, st) for k in e.keywords}
        if isinstance(f, Clo):
            if args or kwargs:
                raise TB('call of a local function with arguments (line %d)' % e.lineno)
            return self.call_clo(f, st, e)
        if isinstance(f, Ext):
            r = self.call_builtin(f, args, kwargs, e, st)
            if r is not None:
                return r
            return self.call_ext(f, args, kwargs, e, st)
        raise TB('call of %r (line %d)' % (f, e.lineno))

    def call_clo(self, f, st, node):
        o = self.block(f.fn.body, st.copy())
        if not isinstance(o, Ret):
            raise TB('local function %s does not simply return (line %d)' % (f.fn.name, node.lineno))
        if o.st.attrs != st.attrs or o.st.warns != st.warns:
            raise TB('local function %s has side effects' % f.fn.name)
        return o.val

    def call_star(self, f, e, st):
        raise TB('*args / **kwargs in a call (line %d)' % e.lineno)

    def call_builtin(self, f, args, kwargs, e, st):
        tag = f.tag
        if tag == 'get_backend' and not args and not kwargs:
            return Tup([Ext('tensorlib'), Ext('optimizer')])
        if tag == 'float' and len(args) == 1 and isinstance(args[0], S) and isinstance(args[0].v, str) and not kwargs:
            s = args[0].v.strip().lower()
            if s in ('-inf', 'inf', '+inf', 'nan'):
                return S(float(s))
            raise TB('float(%r)' % s)
        if tag == 'len' and len(args) == 1 and not kwargs:
            x = args[0]
            if isinstance(x, (Lst, Tup)):
                return S(len(x.items))
            if isinstance(x, T) and isinstance(x.ty, tuple) and x.ty[0] == 'list':
                return T('(length %s)' % x.s, NAT)
            raise TB('len of %r' % (x,))
        if tag == 'tuple' and len(args) == 1 and not kwargs and isinstance(args[0], (Tup, Lst)):
            return Tup(args[0].items)
        if tag == 'list' and len(args) == 1 and not kwargs and isinstance(args[0], (Tup, Lst)):
            return Lst(args[0].items)
        if not tag.startswith('tensorlib.'):
            return None
        m = tag[len('tensorlib.'):]
        if m == 'astensor' and len(args) == 1 and (not kwargs or (list(kwargs) == ['dtype'] and isinstance(kwargs['dtype'], S))):
            return args[0]
        if m == 'where' and len(args) == 3 and not kwargs:
            c, a, b = args
            if isinstance(c, Vec):
                if isinstance(a, Vec) or isinstance(b, Vec):
                    raise TB('where over several tensors (line %d)' % e.lineno)
                return Vec(c.src, c.var, self.where(c.body, a, b, e))
            return self.where(c, a, b, e)
        if m == 'clip' and 2 <= len(args) <= 3:
            names = ['tensor_in', 'min_value', 'max_value']
            b = dict(zip(names, args))
            for k, v in kwargs.items():
                if k in b or k not in names:
                    raise TB('clip arguments (line %d)' % e.lineno)
                b[k] = v
            if set(b) != set(names) or not (isinstance(b['max_value'], S) and b['max_value'].v is None):
                raise TB('clip with an upper bound (line %d)' % e.lineno)
            x, lo = self.num(b['tensor_in'], e), self.num(b['min_value'], e)
            return T('(if nltb N %s %s then %s else %s)' % (x, lo, lo, x), NUM)
        if m == 'power' and len(args) == 2 and not kwargs and isinstance(args[1], S) and args[1].v == 2:
            x = self.num(args[0], e)
            return T('(nmul N %s %s)' % (x, x), NUM)
        if m == 'conditional' and len(args) == 3 and not kwargs:
            c = args[0]
            if not all(isinstance(x, Clo) for x in args[1:]):
                raise TB('conditional: branches are not local functions (line %d)' % e.lineno)
            a, b = (self.call_clo(x, st, e) for x in args[1:])
            if isinstance(c, S):
                return a if self.truth(c) else b
            return self.merge(self.boolterm(c), a, b)
        if m == 'ones' and len(args) == 1 and isinstance(args[0], Shape) and not kwargs:
            return S(1.0)                         # broadcast against the tensor it is combined with
        if m == 'shape' and len(args) == 1 and not kwargs:
            x = args[0]
            if isinstance(x, T) and isinstance(x.ty, tuple) and x.ty[0] == 'list':
                return Shape(x.s)
            if isinstance(x, T):
                return Shape(None)
            raise TB('shape of %r' % (x,))
        if m == 'sum' and len(args) == 1 and not kwargs and isinstance(args[0], Vec) and args[0].body.ty == ZT:
            v = args[0]
            return T('(fold_right Z.add 0%%Z (map (fun %s => %s) %s))' % (v.var, v.body.s, v.src), ZT)
        return None

    def where(self, c, a, b, node):
        if isinstance(c, S):
            return a if self.truth(c) else b
        c = self.boolterm(c)
        if all(isinstance(x, S) and isinstance(x.v, int) and not isinstance(x.v, bool) for x in (a, b)):
            return T('(if %s then %d%%Z else %d%%Z)' % (c, a.v, b.v), ZT)        # integer tensors
        return self.merge(c, a, b)

    # ---- statements ------------------------------------------------------------------------------------
    def assign(self, target, val, st, node):
        if isinstance(target, ast.Name):
            st.env[target.id] = val
            return
        if isinstance(target, ast.Attribute) and isinstance(target.value, ast.Name) and target.value.id == 'self':
            st.attrs[target.attr] = val
            return
        if isinstance(target, (ast.Tuple, ast.List)):
            n = len(target.elts)
            if isinstance(val, (Tup, Lst)):
                if len(val.items) != n:
                    raise TB('unpacking %d values into %d names (line %d)' % (len(val.items), n, node.lineno))
                for t, v in zip(target.elts, val.items):
                    self.assign(t, v, st, node)
                return
            if isinstance(val, T) and isinstance(val.ty, tuple) and val.ty[0] == 'prod':
                # Coq products associate to the left: (a, b, c) = ((a, b), c)
                comps = []
                cur, ty = val.s, val.ty
                for _ in range(n - 1):
                    if not (isinstance(ty, tuple) and ty[0] == 'prod'):
                        raise TB('unpacking a %r into %d names (line %d)' % (val.ty, n, node.lineno))
                    comps.append(T('(snd %s)' % cur, ty[2]))
                    cur, ty = '(fst %s)' % cur, ty[1]
                comps.append(T(cur, ty))
                for t, v in zip(target.elts, reversed(comps)):
                    self.assign(t, v, st, node)
                return
        raise TB('assignment target / value (line %d)' % node.lineno)

    def expr_stmt(self, e, st):
        """expression statements: log.warning(..), l.append(x), calls without effect on the translated state"""
        if isinstance(e, ast.Call) and isinstance(e.func, ast.Attribute):
            if isinstance(e.func.value, ast.Name) and e.func.attr == 'append' and e.func.value.id in st.env and len(e.args) == 1 and not e.keywords:
                name = e.func.value.id
                cur = st.env[name]
                x = self.expr(e.args[0], st)
                if isinstance(cur, Lst):
                    st.env[name] = Lst(cur.items + [x])
                    return
                if isinstance(cur, T) and isinstance(cur.ty, tuple) and cur.ty[0] == 'list':
                    one = self.list_term(Lst([x]))
                    if one.ty != cur.ty:
                        raise TB('append of a %r to a %r' % (one.ty, cur.ty))
                    st.env[name] = T('(%s ++ %s)' % (cur.s, one.s), cur.ty)
                    return
                raise TB('append to %r (line %d)' % (cur, e.lineno))
            base = self.expr(e.func.value, st)
            if isinstance(base, Ext) and base.tag == 'log' and e.func.attr == 'warning':
                if len(e.args) != 1 or e.keywords:
                    raise TB('log.warning arguments (line %d)' % e.lineno)
                msg = self.expr(e.args[0], st)
                if not (isinstance(msg, S) and isinstance(msg.v, str)):
                    raise TB('log.warning message is not a literal (line %d)' % e.lineno)
                st.warns.append('[%s]' % self.warning(msg.v, e))
                return
        self.effect_call(e, st)

    def effect_call(self, e, st):
        raise TB('expression statement (line %d)' % e.lineno)

    def block(self, stmts, st):
        stmts = list(stmts)
        while stmts:
            s = stmts.pop(0)
            if isinstance(s, ast.Expr) and isinstance(s.value, ast.Constant) and isinstance(s.value.value, str):
                continue
            if isinstance(s, ast.Pass):
                continue
            if isinstance(s, ast.Assign):
                if len(s.targets) != 1:
                    raise TB('chained assignment (line %d)' % s.lineno)
                self.assign(s.targets[0], self.expr(s.value, st), st, s)
            elif isinstance(s, ast.Expr):
                self.expr_stmt(s.value, st)
            elif isinstance(s, ast.FunctionDef):
                if s.args.args or s.args.vararg or s.args.kwarg or s.args.kwonlyargs or s.decorator_list:
                    raise TB('local function with parameters (line %d)' % s.lineno)
                st.env[s.name] = Clo(s)
            elif isinstance(s, ast.Raise):
                x = s.exc
                if isinstance(x, ast.Call):
                    x = x.func
                if isinstance(x, ast.Attribute):
                    name = x.attr
                elif isinstance(x, ast.Name):
                    name = x.id
                else:
                    raise TB('raise of %s (line %d)' % (type(x).__name__, s.lineno))
                return Exc(name, st)
            elif isinstance(s, ast.Return):
                if s.value is None:
                    raise TB('bare return (line %d)' % s.lineno)
                return Ret(self.expr(s.value, st), st)
            elif isinstance(s, ast.If):
                c = self.test(s.test, st)
                if isinstance(c, S):
                    stmts = list(s.body if self.truth(c) else s.orelse) + stmts
                    continue
                if isinstance(c, Vec):
                    raise TB('if on a tensor (line %d)' % s.lineno)
                if isinstance(c, IsNone):
                    st_none, st_some = st.copy(), st.copy()
                    var = 'x_some'
                    if c.key is not None:
                        kind, k = c.key
                        var = 'x_' + k
                        inner = T(var, c.term.ty[1])
                        if kind == 'attr':
                            st_some.attrs[k] = inner
                            st_none.attrs[k] = S(None)
                        else:
                            st_some.env[k] = inner
                            st_none.env[k] = S(None)
                    b_none, b_some = (s.body, s.orelse) if not c.neg else (s.orelse, s.body)
                    o_none = self.cont(self.block(b_none, st_none), stmts)
                    o_some = self.cont(self.block(b_some, st_some), stmts)
                    return Branch('opt', c.term.s, (o_none, o_some), var)
                cs = self.boolterm(c)
                o1 = self.block(s.body, st.copy())
                o2 = self.block(s.orelse, st.copy())
                if isinstance(o1, Fall) and isinstance(o2, Fall):
                    st = self.merge_states(cs, o1.st, o2.st)
                    continue
                return Branch('if', cs, (self.cont(o1, stmts), self.cont(o2, stmts)))
            else:
                raise TB('statement %s (line %d)' % (type(s).__name__, s.lineno))
        return Fall(st)

    def cont(self, o, rest):
        if isinstance(o, Fall):
            return self.block(rest, o.st)
        if isinstance(o, Branch):
            return Branch(o.kind, o.scrut, tuple(self.cont(x, rest) for x in o.cases), o.var)
        return o


def render(o, leaf):
    """outcome tree -> Coq term; leaf(o) renders Ret / Exc / Fall"""
    if isinstance(o, Branch):
        a, b = (render(x, leaf) for x in o.cases)
        if o.kind == 'if':
            return '(if %s then %s else %s)' % (o.scrut, a, b)
        return '(match %s with None => %s | Some %s => %s end)' % (o.scrut, a, o.var, b)
    return leaf(o)


def only_ret(o, what):
    if not isinstance(o, Ret):
        raise TB('%s: does not end in a single plain return' % what)
    return o


def source_comment(rel, fn, path):
    import hashlib
    src = ast.get_source_segment(open(path).read(), fn) or ''
    return '(* %s:%s lines %d-%d sha256 %s *)\n' % (rel, fn.name, fn.lineno, fn.end_lineno, hashlib.sha256(src.encode()).hexdigest()[:16])


def methods(cls):
    return {n.name: n for n in cls.body if isinstance(n, ast.FunctionDef)}


def check_init_stores(cls, names):
    """__init__ stores the constructor arguments `names` unchanged in attributes of the same name (exactly once each)"""
    init = facts.find_func(cls, '__init__')
    stored = {}
    for n in ast.walk(init):
        if isinstance(n, (ast.Assign, ast.AugAssign, ast.AnnAssign)):
            tgts = n.targets if isinstance(n, ast.Assign) else [n.target]
            for t in tgts:
                if isinstance(t, ast.Attribute) and isinstance(t.value, ast.Name) and t.value.id == 'self':
                    ok = isinstance(n, ast.Assign) and isinstance(n.value, ast.Name) and n.value.id == t.attr
                    stored.setdefault(t.attr, []).append(ok)
    for a in names:
        if stored.get(a) != [True]:
            raise TB('%s.__init__ does not store %s unchanged exactly once' % (cls.name, a))
    return init


# ======================================================================================================================
# Second layer (C05, C09): constructs beyond the decision functions above.  Nothing above this line changes meaning.
#   * function values with parameters (`def g(a, b=dflt)`, `lambda`): class Fun; a call inlines the body;
#   * `[elt for pat in it if cond]` over range / zip / enumerate / list terms -> map / filter / combine / seq;
#   * `x[0]`, `x[1]` on a pair term -> fst / snd; `l[i]` with i a nat term -> nth i l dflt; `l[::-1]` -> rev, `l[1:]` -> tl;
#   * `n in l`, `n not in l` on a list of nat -> existsb (Nat.eqb n) l;
#   * `a or b` with a an optional list -> por a b (python truth of a list: non-empty);
#   * `l[i] = v` -> upd i v l; `obj.attr = v` on an object term -> recorded attribute (read back by `obj.attr`);
#   * `if a is None or b is None:` -> nested tests; `try: assert c / except AssertionError: H` -> `if c: pass else: H`;
#   * `for pat in it: if c: raise E(..)` -> match find_first (fun x => c) it with Some x => raise | None => go on;
#   * a call of another translated function used as a statement / assignment / return is inlined, the rest of the caller
#     continuing under every path of the callee (`bind_inline`);
#   * calls that raise on an empty argument (np.argmin ..) register a pending `match .. with None => raise | Some i => ..`
#     wrapped around the rest of the function after the statement they occur in;
#   * reading a local that no path has assigned ends the path with UnboundLocalError.
# Rendering of the new branch kinds: render2.  PRELUDE2 is Coq text for the helper functions named above.
PRELUDE2 = '''(* helpers of the translator (harness/props/tie_translate.py): the reading of python constructs *)
Definition por {X} (x : option (list X)) (y : list X) : list X :=        (* `x or y`: an empty list is false *)
  match x with Some (a :: t) => a :: t | _ => y end.
Fixpoint find_first {X} (p : X -> bool) (l : list X) : option X :=       (* first iteration of a `for` whose `if` fires *)
  match l with [] => None | a :: t => if p a then Some a else find_first p t end.
'''


class Fun:
    """function value: parameters, defaults (evaluated at definition), body (statements or one expression), captured env"""

    def __init__(self, name, params, defaults, body, env, is_expr=False):
        self.name, self.params, self.defaults, self.body, self.env, self.is_expr = name, params, defaults, body, env, is_expr

    def __repr__(self):
        return 'Fun(%s)' % self.name


class Dct:
    def __init__(self, items):
        self.items = dict(items)


class UnboundLocal(TB):
    pass


class Br2(Branch):
    """branch rendered through a template: '@@k@@' is replaced by the rendering of case k"""

    def __init__(self, template, cases):
        Branch.__init__(self, 'tpl', template, tuple(cases), None)


def rebuild(o, cases):
    if isinstance(o, Br2):
        return Br2(o.scrut, cases)
    return Branch(o.kind, o.scrut, tuple(cases), o.var)


def map_leaves(o, k):
    if isinstance(o, Branch):
        return rebuild(o, [map_leaves(c, k) for c in o.cases])
    return k(o)


def render2(o, leaf):
    if isinstance(o, Br2):
        s = o.scrut
        for i, c in enumerate(o.cases):
            s = s.replace('@@%d@@' % i, render2(c, leaf))
        return s
    if isinstance(o, Branch):
        a, b = (render2(x, leaf) for x in o.cases)
        if o.kind == 'if':
            return '(if %s then %s else %s)' % (o.scrut, a, b)
        return '(match %s with None => %s | Some %s => %s end)' % (o.scrut, a, o.var, b)
    return leaf(o)


def coqty(t, num='V N'):
    if t == NUM:
        return num
    if t == BOOL:
        return 'bool'
    if t == NAT:
        return 'nat'
    if t == ZT:
        return 'Z'
    if t == OPTNUM:
        return 'option (%s)' % num
    if isinstance(t, tuple):
        if t[0] == 'list':
            return 'list (%s)' % coqty(t[1], num)
        if t[0] == 'option':
            return 'option (%s)' % coqty(t[1], num)
        if t[0] == 'prod':
            return '(%s * %s)' % (coqty(t[1], num), coqty(t[2], num))
    if isinstance(t, str):
        return t
    raise TB('type %r has no Coq rendering' % (t,))


def is_list(v):
    return isinstance(v, T) and isinstance(v.ty, tuple) and v.ty[0] == 'list'


def assigned_locals(fn):
    out = set()
    for n in ast.walk(fn):
        if isinstance(n, ast.Name) and isinstance(n.ctx, ast.Store):
            out.add(n.id)
    return out


class Exec2(Exec):
    dflt = {NUM: '(n0 N)', NAT: '0', BOOL: 'false'}

    def __init__(self):
        super().__init__()
        self.pending = []            # (scrutinee : option term, variable, exception name) of the statement being executed
        self.locals = set()          # names assigned somewhere in the function being translated: reading one unbound ends the path
        self.nvar = 0

    # ---- hooks ---------------------------------------------------------------------------------------------------
    def inline_target(self, call, st):
        """(FunctionDef, state of the callee) when `call` is a call of another translated function to be inlined, else None"""
        return None

    def skip_stmt(self, s, st):
        return False

    def fun_term(self, f):
        raise TB('function value %r has no Coq term' % (f,))

    def obj_attr(self, obj, attr, node, st):
        raise TB('attribute .%s of %r (line %d)' % (attr, obj, node.lineno))

    def while_stmt(self, s, st, rest):
        raise TB('while loop (line %d)' % s.lineno)

    def dflt_of(self, ty):
        if ty in self.dflt:
            return self.dflt[ty]
        if isinstance(ty, tuple) and ty[0] == 'list':
            return '[]'
        if isinstance(ty, tuple) and ty[0] == 'option':
            return 'None'
        if isinstance(ty, tuple) and ty[0] == 'prod':
            return '(%s, %s)' % (self.dflt_of(ty[1]), self.dflt_of(ty[2]))
        raise TB('no default element of type %r' % (ty,))

    def fresh_var(self, base):
        self.nvar += 1
        return 'x_%s%d' % (base, self.nvar)

    def is_obj(self, v):
        return False

    # ---- names ---------------------------------------------------------------------------------------------------
    def name_lookup(self, name, st):
        if name in st.env:
            return st.env[name]
        if name in self.locals:
            raise UnboundLocal('local %s read before assignment' % name)
        return self.global_name(name, st)

    # ---- expressions -----------------------------------------------------------------------------------------------
    def expr(self, e, st):
        d = dump(e)
        for pd, val in self.patterns:
            if pd == d:
                return val(st) if callable(val) else val
        if isinstance(e, ast.Name):
            return self.name_lookup(e.id, st)
        if isinstance(e, ast.Lambda):
            a = e.args
            if a.posonlyargs or a.vararg or a.kwonlyargs or a.kwarg:
                raise TB('lambda signature (line %d)' % e.lineno)
            params = [x.arg for x in a.args]
            dfl = {p: self.expr(dv, st) for p, dv in zip(params[len(params) - len(a.defaults):], a.defaults)}
            return Fun('<lambda>', params, dfl, e.body, dict(st.env), is_expr=True)
        if isinstance(e, ast.List) and any(isinstance(x, ast.Starred) for x in e.elts):
            if len(e.elts) != 1:
                raise TB('list display mixing * and elements (line %d)' % e.lineno)
            v = self.expr(e.elts[0].value, st)           # [*x]: a copy of x
            if is_list(v) or isinstance(v, Lst):
                return v
            raise TB('[*x] on %r (line %d)' % (v, e.lineno))
        if isinstance(e, ast.Dict):
            if not all(isinstance(k, ast.Constant) and isinstance(k.value, str) for k in e.keys):
                raise TB('dict display with non-literal keys (line %d)' % e.lineno)
            return Dct([(k.value, self.expr(v, st)) for k, v in zip(e.keys, e.values)])
        if isinstance(e, ast.BoolOp) and isinstance(e.op, ast.Or) and len(e.values) == 2:
            a = self.expr(e.values[0], st)
            if isinstance(a, T) and isinstance(a.ty, tuple) and a.ty[0] == 'option' and isinstance(a.ty[1], tuple) and a.ty[1][0] == 'list':
                b = self.expr(e.values[1], st)
                if isinstance(b, Lst) and not b.items:
                    return T('(por %s [])' % a.s, a.ty[1])
                if isinstance(b, T) and b.ty == a.ty[1]:
                    return T('(por %s %s)' % (a.s, b.s), a.ty[1])
                raise TB('`or` of an optional list with %r (line %d)' % (b, e.lineno))
        if isinstance(e, ast.Attribute) and not (isinstance(e.value, ast.Name) and e.value.id == 'self' and 'self' not in st.env):
            base = self.expr(e.value, st)
            if self.is_obj(base):
                k = base.s + '\x1f' + e.attr
                if k in st.attrs:
                    return st.attrs[k]
                return self.obj_attr(base, e.attr, e, st)
            return self.attr_ext(base, e.attr, e, st)
        if isinstance(e, ast.Subscript) and isinstance(e.slice, ast.Slice):
            base = self.expr(e.value, st)
            sl = e.slice
            cst = lambda x: None if x is None else self.expr(x, st)
            lo, hi, step = cst(sl.lower), cst(sl.upper), cst(sl.step)
            if not is_list(base):
                raise TB('slice of %r (line %d)' % (base, e.lineno))
            if lo is None and hi is None and isinstance(step, S) and step.v == -1:
                return T('(rev %s)' % base.s, base.ty)
            if isinstance(lo, S) and lo.v == 1 and hi is None and step is None:
                return T('(tl %s)' % base.s, base.ty)
            raise TB('slice shape (line %d)' % e.lineno)
        return super().expr(e, st)

    def subscript(self, base, idx, node):
        if isinstance(base, T) and isinstance(base.ty, tuple) and base.ty[0] == 'prod' and isinstance(idx, S) and idx.v in (0, 1) and not isinstance(idx.v, bool):
            return T('(%s %s)' % ('fst' if idx.v == 0 else 'snd', base.s), base.ty[1 + idx.v])
        if is_list(base) and isinstance(idx, T) and idx.ty == NAT:
            return T('(nth %s %s %s)' % (idx.s, base.s, self.dflt_of(base.ty[1])), base.ty[1])
        if is_list(base) and isinstance(idx, S) and isinstance(idx.v, int) and not isinstance(idx.v, bool) and idx.v >= 0:
            return T('(nth %d %s %s)' % (idx.v, base.s, self.dflt_of(base.ty[1])), base.ty[1])
        if is_list(base) and isinstance(idx, T) and idx.ty == OPTION(NAT):
            d = self.dflt_of(base.ty[1])
            return T('(match %s with Some i => nth i %s %s | None => %s end)' % (idx.s, base.s, d, d), base.ty[1])
        if is_list(base) and isinstance(idx, T) and idx.ty == LIST(BOOL):
            return T('(mask %s %s)' % (idx.s, base.s), base.ty)                 # boolean-mask indexing
        if is_list(base) and isinstance(idx, Vec):
            return T('(mask %s %s)' % (self.as_term(idx).s, base.s), base.ty)
        if isinstance(base, Dct) and isinstance(idx, S) and isinstance(idx.v, str):
            if idx.v not in base.items:
                raise TB('key %r not in the dict (line %d)' % (idx.v, node.lineno))
            return base.items[idx.v]
        return super().subscript(base, idx, node)

    def binop(self, op, a, b, node):
        ta, tb_ = getattr(a, 'ty', None), getattr(b, 'ty', None)
        if NAT in (ta, tb_) and op in ('Add', 'Sub'):
            def nat(v):
                if isinstance(v, T) and v.ty == NAT:
                    return v.s
                if isinstance(v, S) and isinstance(v.v, int) and not isinstance(v.v, bool) and v.v >= 0:
                    return '%d' % v.v
                raise TB('a natural number was expected (line %d)' % node.lineno)
            return T('(%s %s %s)' % (nat(a), '+' if op == 'Add' else '-', nat(b)), NAT)      # python ints; `-` truncated at 0
        if op == 'Add' and (is_list(a) or isinstance(a, Lst)) and (is_list(b) or isinstance(b, Lst)):
            x, y = self.as_term(a), self.as_term(b)
            if x.ty != y.ty:
                raise TB('+ of a %r and a %r (line %d)' % (x.ty, y.ty, node.lineno))
            return T('(%s ++ %s)' % (x.s, y.s), x.ty)
        return super().binop(op, a, b, node)

    def compare1(self, op, a, b, node):
        opn = type(op).__name__
        if opn in ('In', 'NotIn') and isinstance(a, T) and a.ty == NAT and isinstance(b, T) and b.ty == LIST(NAT):
            s = '(existsb (Nat.eqb %s) %s)' % (a.s, b.s)
            return T(s if opn == 'In' else '(negb %s)' % s, BOOL)
        return super().compare1(op, a, b, node)

    def as_term(self, v):
        if isinstance(v, Fun):
            return self.fun_term(v)
        if isinstance(v, Lst) and not v.items:
            raise TB('an empty list literal has no type of its own')
        return super().as_term(v)

    def merge(self, c, a, b):
        if isinstance(a, Lst) and not a.items and is_list(b):
            return T('(if %s then [] else %s)' % (c, b.s), b.ty)
        if isinstance(b, Lst) and not b.items and is_list(a):
            return T('(if %s then %s else [])' % (c, a.s), a.ty)
        if isinstance(a, Fun) or isinstance(b, Fun):
            if a is b:
                return a
            ta, tb_ = self.as_term(a), self.as_term(b)
            if ta.ty != tb_.ty:
                raise TB('cannot merge function values of different types')
            return T('(if %s then %s else %s)' % (c, ta.s, tb_.s), ta.ty)
        return super().merge(c, a, b)

    # ---- comprehensions ----------------------------------------------------------------------------------------------
    def bind_pattern(self, target, val, st, node):
        if isinstance(target, ast.Name):
            st.env[target.id] = val
            return
        self.assign(target, val, st, node)

    def iter_term(self, it, node):
        if isinstance(it, Lst):
            it = self.list_term(it)
        if isinstance(it, Vec):
            it = self.as_term(it)
        if not is_list(it):
            raise TB('iteration over %r (line %d)' % (it, node.lineno))
        return it

    def comprehension(self, e, st):
        if len(e.generators) != 1 or e.generators[0].is_async:
            raise TB('comprehension shape (line %d)' % e.lineno)
        g = e.generators[0]
        it = self.expr(g.iter, st)
        if not g.ifs and isinstance(g.target, ast.Name) and (isinstance(it, Tup) or (isinstance(it, Lst) and not all(is_static_num(x) for x in it.items))):
            return super().comprehension(e, st)
        it = self.iter_term(it, e)
        names = [n.id for n in ast.walk(g.target) if isinstance(n, ast.Name)]
        var = 'x_' + '_'.join(names)
        st2 = st.copy()
        self.bind_pattern(g.target, T(var, it.ty[1]), st2, e)
        npend = len(self.pending)
        src = it.s
        if g.ifs:
            conds = [self.test(c, st2) for c in g.ifs]
            c = self.boolop('And', conds, e)
            if isinstance(c, S):
                raise TB('comprehension filter decided at translation time (line %d)' % e.lineno)
            src = '(filter (fun %s => %s) %s)' % (var, self.boolterm(c), src)
        body = self.expr(e.elt, st2)
        width = len(body.items) if isinstance(body, Lst) else getattr(body, 'static_len', None)
        if not isinstance(body, T):
            body = self.as_term(body)
        if len(self.pending) != npend:
            raise TB('raising call inside a comprehension (line %d)' % e.lineno)
        out = T(src, it.ty) if body.s == var else T('(map (fun %s => %s) %s)' % (var, body.s, src), LIST(body.ty))
        if width is not None:
            out.rowwidth = width                       # static length of every element
        if not g.ifs and getattr(it, 'static_len', None) is not None:
            out.static_len = it.static_len
        return out

    # ---- calls -------------------------------------------------------------------------------------------------------
    def call(self, e, st):
        if not (isinstance(e.func, ast.Name) and e.func.id == 'list' and e.func.id not in st.env):
            f = self.expr(e.func, st)
            if isinstance(f, Fun):
                if any(isinstance(a, ast.Starred) for a in e.args) or any(k.arg is None for k in e.keywords):
                    raise TB('*args / **kwargs in the call of a local function (line %d)' % e.lineno)
                return self.call_fun(f, [self.expr(a, st) for a in e.args], {k.arg: self.expr(k.value, st) for k in e.keywords}, st, e)
        return super().call(e, st)

    def call_fun(self, f, args, kwargs, st, node):
        if len(args) > len(f.params):
            raise TB('%s: too many arguments (line %d)' % (f.name, node.lineno))
        bound = dict(zip(f.params, args))
        for k, v in kwargs.items():
            if k in bound or k not in f.params:
                raise TB('%s: keyword %s (line %d)' % (f.name, k, node.lineno))
            bound[k] = v
        for p in f.params:
            if p not in bound:
                if p not in f.defaults:
                    raise TB('%s: missing argument %s (line %d)' % (f.name, p, node.lineno))
                bound[p] = f.defaults[p]
        st2 = St(dict(f.env, **bound), st.attrs, st.warns)
        if f.is_expr:
            return self.expr(f.body, st2)
        o = self.block(f.body, st2)
        if not isinstance(o, Ret):
            raise TB('local function %s does not simply return (line %d)' % (f.name, node.lineno))
        if o.st.attrs != st.attrs or o.st.warns != st.warns:
            raise TB('local function %s has side effects' % f.name)
        return o.val

    def call_builtin(self, f, args, kwargs, e, st):
        tag = f.tag
        if tag == 'range' and not kwargs and len(args) == 1:
            n = args[0]
            if isinstance(n, T) and n.ty == NAT:
                return T('(seq 0 %s)' % n.s, LIST(NAT))
            if isinstance(n, S) and isinstance(n.v, int) and not isinstance(n.v, bool) and n.v >= 0:
                out = T('(seq 0 %d)' % n.v, LIST(NAT))
                out.static_len = n.v
                return out
            raise TB('range(%r)' % (n,))
        if tag == 'range' and not kwargs and len(args) == 2 and all(isinstance(x, S) and isinstance(x.v, int) and not isinstance(x.v, bool) for x in args):
            return Lst([S(i) for i in range(args[0].v, args[1].v)])
        if tag == 'zip' and not kwargs and len(args) == 2 and all(is_list(x) for x in args):
            return T('(combine %s %s)' % (args[0].s, args[1].s), LIST(PROD(args[0].ty[1], args[1].ty[1])))
        if tag == 'enumerate' and not kwargs and len(args) == 1 and is_list(args[0]):
            return T('(combine (seq 0 (length %s)) %s)' % (args[0].s, args[0].s), LIST(PROD(NAT, args[0].ty[1])))
        if tag == 'list' and len(args) == 1 and not kwargs and is_list(args[0]):
            return args[0]
        if tag == 'len' and len(args) == 1 and not kwargs and is_list(args[0]):
            return T('(length %s)' % args[0].s, NAT)
        return super().call_builtin(f, args, kwargs, e, st)

    # ---- statements --------------------------------------------------------------------------------------------------
    def assign(self, target, val, st, node):
        if isinstance(target, ast.Name) and isinstance(val, T) and isinstance(val.ty, tuple) and val.ty[0] == 'option':
            v2 = T(val.s, val.ty, ('name', target.id))
            st.env[target.id] = v2
            return
        if isinstance(target, ast.Subscript) and isinstance(target.value, ast.Name) and target.value.id in st.env:
            cur = st.env[target.value.id]
            if isinstance(cur, Lst):
                cur = self.list_term(cur)
            idx = self.expr(target.slice, st)
            if is_list(cur):
                v = self.as_term(val) if not (isinstance(val, S) and isinstance(val.v, bool)) else T('true' if val.v else 'false', BOOL)
                if v.ty != cur.ty[1]:
                    raise TB('storing a %r into a list of %r (line %d)' % (v.ty, cur.ty[1], node.lineno))
                if isinstance(idx, T) and idx.ty == NAT:
                    st.env[target.value.id] = T('(upd %s %s %s)' % (idx.s, v.s, cur.s), cur.ty)
                    return
                if isinstance(idx, T) and idx.ty == OPTION(NAT):
                    st.env[target.value.id] = T('(match %s with Some i => upd i %s %s | None => %s end)' % (idx.s, v.s, cur.s, cur.s), cur.ty)
                    return
            raise TB('item assignment %s[..] (line %d)' % (target.value.id, node.lineno))
        if isinstance(target, ast.Attribute) and isinstance(target.value, ast.Name) and target.value.id in st.env and self.is_obj(st.env[target.value.id]):
            st.attrs[st.env[target.value.id].s + '\x1f' + target.attr] = val
            return
        super().assign(target, val, st, node)

    def wrap_pending(self, st, k):
        """pending entries: (scrutinee, variable, exception name) - `match scrutinee with None => raise | Some variable => ..`;
        (term, variable, None) - `let variable := term in ..`"""
        pend, self.pending = self.pending, []
        if not pend:
            return k()

        def build(i):
            if i == len(pend):
                return k()
            scrut, var, exc = pend[i]
            if exc is None:
                return Br2('(let %s := %s in @@0@@)' % (var, scrut), (build(i + 1),))
            return Branch('opt', scrut, (Exc(exc, st), build(i + 1)), var)
        return build(0)

    def bind_inline(self, target, call, st, rest, kind):
        got = self.inline_target(call, st)
        if got is None:
            return None
        fn, cst = got
        saved = self.locals
        self.locals = assigned_locals(fn)
        try:
            o = self.block(fn.body, cst)
        finally:
            self.locals = saved

        def k(leaf):
            if isinstance(leaf, Exc):
                return leaf
            val = leaf.val if isinstance(leaf, Ret) else S(None)
            st2 = St(st.env, leaf.st.attrs, leaf.st.warns)
            if target is not None:
                self.assign(target, val, st2, call)
            if kind == 'return':
                return Ret(val, st2)
            return self.block(rest, st2)
        return map_leaves(o, k)

    def block(self, stmts, st):
        stmts = list(stmts)
        while stmts:
            s = stmts.pop(0)
            try:
                r = self.stmt(s, st, stmts)
            except UnboundLocal:
                return Exc('UnboundLocalError', st)
            if r is None:
                continue
            if isinstance(r, St):
                st = r
                continue
            return r
        return Fall(st)

    def cont(self, o, rest):
        if isinstance(o, Fall):
            return self.block(rest, o.st)
        if isinstance(o, Branch):
            return rebuild(o, [self.cont(x, rest) for x in o.cases])
        return o

    def stmt(self, s, st, rest):
        """None: state updated in place, go on; St: go on with that state; otherwise the outcome of the whole block"""
        if isinstance(s, ast.Expr) and isinstance(s.value, ast.Constant) and isinstance(s.value.value, str):
            return None
        if isinstance(s, ast.Pass):
            return None
        if self.skip_stmt(s, st):
            return None
        self.pending = []
        if isinstance(s, ast.Assign):
            if len(s.targets) != 1:
                raise TB('chained assignment (line %d)' % s.lineno)
            if isinstance(s.value, ast.Call):
                o = self.bind_inline(s.targets[0], s.value, st, rest, 'assign')
                if o is not None:
                    return o
            self.assign(s.targets[0], self.expr(s.value, st), st, s)
            if self.pending:
                return self.wrap_pending(st, lambda: self.block(rest, st))
            return None
        if isinstance(s, ast.AugAssign):
            if not isinstance(s.target, ast.Name):
                raise TB('augmented assignment target (line %d)' % s.lineno)
            cur = self.name_lookup(s.target.id, st)
            st.env[s.target.id] = self.binop(type(s.op).__name__, cur, self.expr(s.value, st), s)
            if self.pending:
                return self.wrap_pending(st, lambda: self.block(rest, st))
            return None
        if isinstance(s, ast.Expr):
            if isinstance(s.value, ast.Call):
                o = self.bind_inline(None, s.value, st, rest, 'expr')
                if o is not None:
                    return o
            self.expr_stmt(s.value, st)
            if self.pending:
                return self.wrap_pending(st, lambda: self.block(rest, st))
            return None
        if isinstance(s, ast.FunctionDef):
            a = s.args
            if a.posonlyargs or a.vararg or a.kwarg or a.kwonlyargs or s.decorator_list:
                raise TB('local function signature (line %d)' % s.lineno)
            if not a.args:
                st.env[s.name] = Clo(s)
                return None
            params = [x.arg for x in a.args]
            dfl = {p: self.expr(dv, st) for p, dv in zip(params[len(params) - len(a.defaults):], a.defaults)}
            st.env[s.name] = Fun(s.name, params, dfl, s.body, dict(st.env))
            return None
        if isinstance(s, ast.Raise):
            x = s.exc
            if isinstance(x, ast.Call):
                x = x.func
            if isinstance(x, ast.Attribute):
                name = x.attr
            elif isinstance(x, ast.Name):
                name = x.id
            else:
                raise TB('raise of %s (line %d)' % (type(x).__name__, s.lineno))
            return Exc(name, st)
        if isinstance(s, ast.Return):
            if s.value is None:
                raise TB('bare return (line %d)' % s.lineno)
            if isinstance(s.value, ast.Call):
                o = self.bind_inline(None, s.value, st, rest, 'return')
                if o is not None:
                    return o
            v = self.expr(s.value, st)
            return self.wrap_pending(st, lambda: Ret(v, st))
        if isinstance(s, ast.If):
            if isinstance(s.test, ast.BoolOp) and isinstance(s.test.op, ast.Or):
                parts = [self.test(v, st) for v in s.test.values]
                if any(isinstance(p, IsNone) for p in parts):
                    # if a or b: B else: E   ==   if a: B else: (if b: B else: E)
                    vals = s.test.values
                    inner = ast.If(test=vals[1] if len(vals) == 2 else ast.BoolOp(op=ast.Or(), values=vals[1:]), body=s.body, orelse=s.orelse)
                    outer = ast.If(test=vals[0], body=s.body, orelse=[inner])
                    for n in (inner, outer):
                        ast.copy_location(n, s)
                    if len(vals) > 2:
                        ast.copy_location(inner.test, s)
                    rest.insert(0, outer)
                    return None
            c = self.test(s.test, st)
            if self.pending:
                raise TB('raising call inside an `if` test (line %d)' % s.lineno)
            if isinstance(c, S):
                rest[:0] = list(s.body if self.truth(c) else s.orelse)
                return None
            if isinstance(c, Vec):
                raise TB('if on a tensor (line %d)' % s.lineno)
            if isinstance(c, IsNone):
                st_none, st_some = st.copy(), st.copy()
                var = 'x_some'
                if c.key is not None:
                    kind, k = c.key
                    var = 'x_' + k
                    inner = T(var, c.term.ty[1])
                    if kind == 'attr':
                        st_some.attrs[k] = inner
                        st_none.attrs[k] = S(None)
                    else:
                        st_some.env[k] = inner
                        st_none.env[k] = S(None)
                b_none, b_some = (s.body, s.orelse) if not c.neg else (s.orelse, s.body)
                o_none = self.cont(self.block(b_none, st_none), rest)
                o_some = self.cont(self.block(b_some, st_some), rest)
                return Branch('opt', c.term.s, (o_none, o_some), var)
            cs = self.boolterm(c)
            o1 = self.block(s.body, st.copy())
            o2 = self.block(s.orelse, st.copy())
            if isinstance(o1, Fall) and isinstance(o2, Fall):
                return self.merge_states(cs, o1.st, o2.st)
            return Branch('if', cs, (self.cont(o1, rest), self.cont(o2, rest)))
        if isinstance(s, ast.For):
            return self.for_stmt(s, st, rest)
        if isinstance(s, ast.While):
            return self.while_stmt(s, st, rest)
        if isinstance(s, ast.Try):
            # try: assert c / except AssertionError: H     ==     if c: pass else: H
            if (len(s.body) == 1 and isinstance(s.body[0], ast.Assert) and s.body[0].msg is None and len(s.handlers) == 1 and not s.orelse and not s.finalbody
                    and isinstance(s.handlers[0].type, ast.Name) and s.handlers[0].type.id == 'AssertionError' and s.handlers[0].name is None):
                n = ast.If(test=s.body[0].test, body=[ast.Pass()], orelse=s.handlers[0].body)
                ast.copy_location(n, s)
                ast.copy_location(n.body[0], s)
                rest.insert(0, n)
                return None
            raise TB('try statement shape (line %d)' % s.lineno)
        raise TB('statement %s (line %d)' % (type(s).__name__, s.lineno))

    def merge_states(self, c, s1, s2):
        out = St()
        for k in s1.env:
            if k in s2.env:
                try:
                    out.env[k] = self.merge(c, s1.env[k], s2.env[k])
                except TB as e:
                    out.env[k] = Ext('unmergeable', str(e))
        for k in set(s1.attrs) | set(s2.attrs):
            if k in s1.attrs and k in s2.attrs:
                out.attrs[k] = self.merge(c, s1.attrs[k], s2.attrs[k])
            else:
                raise TB('attribute %s assigned under a condition only' % k.replace('\x1f', '.'))
        n = 0
        while n < len(s1.warns) and n < len(s2.warns) and s1.warns[n] == s2.warns[n]:
            n += 1
        out.warns = s1.warns[:n]
        if len(s1.warns) > n or len(s2.warns) > n:
            out.warns.append('(if %s then %s else %s)' % (c, render_warns(s1.warns[n:]), render_warns(s2.warns[n:])))
        return out

    def for_stmt(self, s, st, rest):
        """for pat in it: if c: raise E(..)"""
        if s.orelse or len(s.body) != 1 or not isinstance(s.body[0], ast.If) or s.body[0].orelse or len(s.body[0].body) != 1 \
                or not isinstance(s.body[0].body[0], ast.Raise):
            raise TB('for loop shape (line %d)' % s.lineno)
        it = self.iter_term(self.expr(s.iter, st), s)
        names = [n.id for n in ast.walk(s.target) if isinstance(n, ast.Name)]
        var = 'x_' + '_'.join(names)
        st2 = st.copy()
        self.bind_pattern(s.target, T(var, it.ty[1]), st2, s)
        c = self.test(s.body[0].test, st2)
        if isinstance(c, (S, IsNone, Vec)):
            raise TB('for loop: test (line %d)' % s.lineno)
        exc = self.block(s.body[0].body, st2)
        tpl = '(match find_first (fun %s => %s) %s with Some %s => @@0@@ | None => @@1@@ end)' % (var, self.boolterm(c), it.s, var)
        return Br2(tpl, (exc, self.block(rest, st)))
