"""Fail-closed symbolic translator (python `ast` -> Gallina text) for the small decision / formula functions of
pyhf.infer (test_statistics.py, calculators.py, infer/__init__.py).  Shared by C06, C07, C08, C14: each of those
harness modules has an `extract(ctx)` that subclasses `Exec` with the meaning of the *external* names of its
functions (the Section variables / constructors of the hand model) and writes coq/gen/<Name>Gen.v.

The translation is a symbolic execution of the function body:
  * every local is inlined (so renaming a local or reordering independent assignments changes nothing);
  * an `if` whose test is known at translation time (a flag fixed by the caller of the translator, a string
    compared with a string, a comparison with float('-inf')) selects its branch; an `if` with a symbolic test whose
    branches both fall through is merged variable by variable (`if c then a else b`); otherwise the rest of the
    function is continued in both branches;
  * `x is None` on an option-typed value becomes a `match`;
  * `raise X(..)` ends a path with the exception class name, `log.warning(..)` appends to the path's warning list.
Whitelist (anything else raises facts.TieBroken): see `Exec.expr`, `Exec.call`, `Exec.block`.

Conventions (the trusted reading of Python by this translator):
  number literals 0, 1, 2 become n0, n1, n1+n1 of the number record; other integer literals k become nofZ k; a list
  of integer literals iterated over becomes map nofZ [..]; float('-inf') compared with a (finite) number is decided
  at translation time; `ones(shape(x)) * float('nan')` is nan and `where(c, x, nan)` is `if c then Some x else None`;
  tensor comparisons / where / sum over a rank-1 tensor are map / fold over the list."""
import ast
import math
from fractions import Fraction

from harness import facts

TB = facts.TieBroken

NUM = 'num'
BOOL = 'bool'
ZT = 'Z'
NAT = 'nat'
OPTNUM = 'optnum'


def LIST(t):
    return ('list', t)


def PROD(*ts):
    out = ts[0]
    for t in ts[1:]:
        out = ('prod', out, t)
    return out


def OPTION(t):
    return ('option', t)


class S:
    """python constant known at translation time (int, float, str, bool, None)"""

    def __init__(self, v):
        self.v = v

    def __repr__(self):
        return 'S(%r)' % (self.v,)


class T:
    """Coq term (text) of type ty"""

    def __init__(self, s, ty, key=None):
        self.s, self.ty, self.key = s, ty, key       # key: ('attr'|'name', k) - what `is None` refines

    def __repr__(self):
        return 'T(%s : %r)' % (self.s, self.ty)


class Tup:
    def __init__(self, items):
        self.items = list(items)


class Lst:
    def __init__(self, items):
        self.items = list(items)


class Vec:
    """rank-1 tensor given elementwise: [body | var <- src]"""

    def __init__(self, src, var, body):
        self.src, self.var, self.body = src, var, body


class Shape:
    def __init__(self, of):
        self.of = of


class Clo:
    def __init__(self, fn):
        self.fn = fn


class Ext:
    """opaque external thing (module, function, object) known by a tag only"""

    def __init__(self, tag, data=None):
        self.tag, self.data = tag, data

    def __repr__(self):
        return 'Ext(%s)' % self.tag


class IsNone:
    """the test `x is None` (neg: `is not None`) on an option-typed term; key: what to rebind in the Some branch"""

    def __init__(self, term, key, neg=False):
        self.term, self.key, self.neg = term, key, neg


# ---- outcomes of a block ---------------------------------------------------------------------------------------
class Fall:
    def __init__(self, st):
        self.st = st


class Ret:
    def __init__(self, val, st):
        self.val, self.st = val, st


class Exc:
    def __init__(self, name, st):
        self.name, self.st = name, st


class Branch:
    """kind 'if': scrut is a bool term, cases (then, else); kind 'opt': scrut an option term, cases (none, some), var"""

    def __init__(self, kind, scrut, cases, var=None):
        self.kind, self.scrut, self.cases, self.var = kind, scrut, cases, var


class St:
    def __init__(self, env=None, attrs=None, warns=None):
        self.env = dict(env or {})
        self.attrs = dict(attrs or {})
        self.warns = list(warns or [])       # Coq terms of type list <warning>

    def copy(self):
        return St(self.env, self.attrs, self.warns)


def render_warns(segs):
    if not segs:
        return '[]'
    if len(segs) == 1:
        return segs[0]
    return '(' + ' ++ '.join(segs) + ')'


def numlit(x):
    if isinstance(x, bool):
        raise TB('boolean used as a number')
    if isinstance(x, float) and (math.isinf(x) or math.isnan(x)):
        raise TB('non-finite literal %r used as a number' % x)
    f = Fraction(x)
    if f.denominator == 1:
        n = f.numerator
        if n == 0:
            return '(n0 N)'
        if n == 1:
            return '(n1 N)'
        if n == 2:
            return '(nadd N (n1 N) (n1 N))'
        return '(nofZ N (%d))' % n
    return '(ndiv N (nofZ N (%d)) (nofZ N (%d)))' % (f.numerator, f.denominator)


def is_static_num(v):
    return isinstance(v, S) and isinstance(v.v, (int, float)) and not isinstance(v.v, bool)


def dump(e):
    return ast.dump(e, annotate_fields=False, include_attributes=False)


def pattern(src):
    return dump(ast.parse(src, mode='eval').body)


def bind_call(fn, call_args, call_kwargs, skip_self=False, what=''):
    """bind positional / keyword arguments to the parameters of the FunctionDef fn; returns ({param: value}, **-dict or None)"""
    a = fn.args
    if a.posonlyargs or a.vararg or a.kwonlyargs:
        raise TB('%s: signature outside the translator' % (what or fn.name))
    params = [x.arg for x in a.args]
    if skip_self:
        if params[:1] != ['self']:
            raise TB('%s: first parameter is not self' % fn.name)
        params = params[1:]
    if len(call_args) > len(params):
        raise TB('%s: too many positional arguments' % (what or fn.name))
    out = dict(zip(params, call_args))
    extra = {}
    for k, v in call_kwargs.items():
        if k in out:
            raise TB('%s: %s bound twice' % (what or fn.name, k))
        if k in params:
            out[k] = v
        elif a.kwarg is not None:
            extra[k] = v
        else:
            raise TB('%s: unknown keyword %s' % (what or fn.name, k))
    return out, params, extra


def defaults_of(fn, skip_self=False):
    params = [x.arg for x in fn.args.args]
    ds = fn.args.defaults
    out = dict(zip(params[len(params) - len(ds):], ds))
    return out


# ----------------------------------------------------------------------------------------------------------------
class Exec:
    """symbolic executor; subclasses give meaning to external names"""
    nan_some = True
    dflt = {NUM: '(n0 N)'}          # default element for `nth` per element type

    def __init__(self):
        self.patterns = []           # (ast dump, value) looked up before anything else
        self.fresh_n = 0

    # ---- to be overridden ------------------------------------------------------------------------
    def global_name(self, name, st):
        raise TB('unknown name %s' % name)

    def call_ext(self, f, args, kwargs, node, st):
        raise TB('call of %r (line %d)' % (f, node.lineno))

    def attr_ext(self, base, attr, node, st):
        raise TB('attribute .%s of %r (line %d)' % (attr, base, node.lineno))

    def self_attr(self, attr, node, st):
        raise TB('self.%s (line %d)' % (attr, node.lineno))

    def warning(self, msg, node):
        raise TB('log.warning outside the translator (line %d)' % node.lineno)

    def list_term(self, lst):
        """Coq list term of a python list of values"""
        items = lst.items
        if all(isinstance(x, T) for x in items) and len({x.ty for x in items}) == 1 and items:
            return T('[' + '; '.join(x.s for x in items) + ']', LIST(items[0].ty))
        if items and all(is_static_num(x) and isinstance(x.v, int) for x in items):
            return T('(map (nofZ N) [' + '; '.join('%d' % x.v for x in items) + ']%Z)', LIST(NUM))
        raise TB('python list that is not a homogeneous list of terms')

    # ---- helpers ---------------------------------------------------------------------------------
    def fresh(self, base):
        self.fresh_n += 1
        return 'x_%s%s' % (base, '' if self.fresh_n == 0 else '')

    def num(self, v, node=None):
        if isinstance(v, T) and v.ty == NUM:
            return v.s
        if is_static_num(v):
            return numlit(v.v)
        raise TB('a number was expected%s, got %r' % (' (line %d)' % node.lineno if node is not None else '', v))

    def boolterm(self, v):
        if isinstance(v, T) and v.ty == BOOL:
            return v.s
        if isinstance(v, S) and isinstance(v.v, bool):
            return 'true' if v.v else 'false'
        raise TB('a boolean was expected, got %r' % (v,))

    def optnum(self, v):
        if isinstance(v, T) and v.ty == OPTNUM:
            return v.s
        if isinstance(v, S) and isinstance(v.v, float) and math.isnan(v.v):
            return 'None'
        return '(Some %s)' % self.num(v)

    # ---- expressions -----------------------------------------------------------------------------
    def expr(self, e, st):
        d = dump(e)
        for pd, val in self.patterns:
            if pd == d:
                return val(st) if callable(val) else val
        if isinstance(e, ast.Constant):
            if isinstance(e.value, (bool, int, float, str)) or e.value is None:
                return S(e.value)
            raise TB('literal %r' % (e.value,))
        if isinstance(e, ast.JoinedStr):
            return Ext('fstring')
        if isinstance(e, ast.Name):
            if e.id in st.env:
                return st.env[e.id]
            return self.global_name(e.id, st)
        if isinstance(e, ast.Attribute):
            if isinstance(e.value, ast.Name) and e.value.id == 'self' and 'self' not in st.env:
                if e.attr in st.attrs:
                    return st.attrs[e.attr]
                return self.self_attr(e.attr, e, st)
            base = self.expr(e.value, st)
            return self.attr_ext(base, e.attr, e, st)
        if isinstance(e, ast.Tuple):
            return Tup([self.expr(x, st) for x in e.elts])
        if isinstance(e, ast.List):
            return Lst([self.expr(x, st) for x in e.elts])
        if isinstance(e, ast.UnaryOp):
            if isinstance(e.op, ast.Not):
                return self.not_(self.test(e.operand, st))
            x = self.expr(e.operand, st)
            if isinstance(e.op, ast.USub):
                if is_static_num(x):
                    return S(-x.v)
                return T('(nopp N %s)' % self.num(x, e), NUM)
            raise TB('unary operator %s (line %d)' % (type(e.op).__name__, e.lineno))
        if isinstance(e, ast.BinOp):
            return self.binop(type(e.op).__name__, self.expr(e.left, st), self.expr(e.right, st), e)
        if isinstance(e, (ast.Compare, ast.BoolOp)):
            return self.test(e, st)
        if isinstance(e, ast.IfExp):
            c = self.test(e.test, st)
            if isinstance(c, S):
                return self.expr(e.body if self.truth(c) else e.orelse, st)
            if isinstance(c, IsNone):
                raise TB('conditional expression on `is None` (line %d)' % e.lineno)
            return self.merge(self.boolterm(c), self.expr(e.body, st), self.expr(e.orelse, st))
        if isinstance(e, ast.Call):
            return self.call(e, st)
        if isinstance(e, ast.Subscript):
            return self.subscript(self.expr(e.value, st), self.expr(e.slice, st), e)
        if isinstance(e, (ast.ListComp, ast.GeneratorExp)):
            return self.comprehension(e, st)
        raise TB('expression %s (line %d)' % (type(e).__name__, getattr(e, 'lineno', 0)))

    def truth(self, c):
        if isinstance(c.v, (bool, int, float, str)) or c.v is None:
            return bool(c.v)
        raise TB('truth value of %r' % (c,))

    def not_(self, c):
        if isinstance(c, S):
            return S(not self.truth(c))
        if isinstance(c, IsNone):
            return IsNone(c.term, c.key, not c.neg)
        return T('(negb %s)' % self.boolterm(c), BOOL)

    def binop(self, op, a, b, node):
        if isinstance(a, S) and isinstance(b, S):
            try:
                if op == 'Add':
                    return S(a.v + b.v)
                if op == 'Sub':
                    return S(a.v - b.v)
                if op == 'Mult':
                    return S(a.v * b.v)
            except TypeError:
                raise TB('static %s of %r and %r' % (op, a, b))
            raise TB('static operator %s (line %d)' % (op, node.lineno))
        for x, y in ((a, b), (b, a)):
            if isinstance(x, S) and isinstance(x.v, float) and math.isnan(x.v) and op == 'Mult':
                return S(float('nan'))            # nan * anything = nan
        if op == 'Div' and (getattr(a, 'ty', None) == OPTNUM or getattr(b, 'ty', None) == OPTNUM):
            return T('(match %s, %s with Some x, Some y => Some (ndiv N x y) | _, _ => None end)' % (self.optnum(a), self.optnum(b)), OPTNUM)
        if op == 'Div' and getattr(a, 'ty', None) == ZT and getattr(b, 'ty', None) == ZT:
            return T('(ndiv N (nofZ N %s) (nofZ N %s))' % (a.s, b.s), NUM)       # true division of integers
        f = {'Add': 'nadd', 'Sub': 'nsub', 'Mult': 'nmul', 'Div': 'ndiv'}.get(op)
        if f is None:
            raise TB('binary operator %s (line %d)' % (op, node.lineno))
        return T('(%s N %s %s)' % (f, self.num(a, node), self.num(b, node)), NUM)

    def compare1(self, op, a, b, node):
        opn = type(op).__name__
        if opn in ('Is', 'IsNot'):
            if not (isinstance(b, S) and b.v is None):
                raise TB('`is` with something else than None (line %d)' % node.lineno)
            if isinstance(a, S):
                return S((a.v is None) == (opn == 'Is'))
            if isinstance(a, T) and isinstance(a.ty, tuple) and a.ty[0] == 'option':
                return IsNone(a, getattr(a, 'key', None), neg=(opn == 'IsNot'))
            if isinstance(a, (T, Tup, Lst, Vec)):
                return S(opn != 'Is')
            raise TB('`is None` on %r (line %d)' % (a, node.lineno))
        if opn in ('In', 'NotIn'):
            if isinstance(a, S) and isinstance(b, (Lst, Tup)) and all(isinstance(x, S) for x in b.items):
                return S((a.v in [x.v for x in b.items]) == (opn == 'In'))
            raise TB('`in` on non-literals (line %d)' % node.lineno)
        if isinstance(a, S) and isinstance(b, S):
            if isinstance(a.v, str) != isinstance(b.v, str):
                raise TB('comparison of a string with a number (line %d)' % node.lineno)
            import operator
            f = {'Eq': operator.eq, 'NotEq': operator.ne, 'Lt': operator.lt, 'LtE': operator.le, 'Gt': operator.gt, 'GtE': operator.ge}.get(opn)
            if f is None:
                raise TB('comparison %s (line %d)' % (opn, node.lineno))
            return S(f(a.v, b.v))
        # elementwise on a rank-1 tensor
        for x, y, flip in ((a, b, False), (b, a, True)):
            if isinstance(x, T) and x.ty == LIST(NUM):
                x = Vec(x.s, 'x_s', T('x_s', NUM))
            if isinstance(x, Vec) and not isinstance(y, Vec):
                l, r = (y, x.body) if flip else (x.body, y)
                return Vec(x.src, x.var, self.compare1(op, l, r, node))
        # float('-inf') / float('inf') against a (finite) number: decided here
        for x, y, flip in ((a, b, False), (b, a, True)):
            if isinstance(x, S) and isinstance(x.v, float) and math.isinf(x.v):
                self.num(y, node)                           # the other side must be a number
                neg = x.v < 0
                o = opn if not flip else {'Lt': 'Gt', 'LtE': 'GtE', 'Gt': 'Lt', 'GtE': 'LtE'}.get(opn, opn)
                # now: (x=+-inf) o y
                if o in ('Lt', 'LtE'):
                    return S(neg)
                if o in ('Gt', 'GtE'):
                    return S(not neg)
                if o == 'Eq':
                    return S(False)
                if o == 'NotEq':
                    return S(True)
        if getattr(a, 'ty', None) == NAT or getattr(b, 'ty', None) == NAT:
            def nat(v):
                if isinstance(v, T) and v.ty == NAT:
                    return v.s
                if isinstance(v, S) and isinstance(v.v, int) and not isinstance(v.v, bool) and v.v >= 0:
                    return '%d' % v.v
                raise TB('a natural number was expected (line %d)' % node.lineno)
            x, y = nat(a), nat(b)
            m = {'Gt': '(Nat.ltb %s %s)' % (y, x), 'GtE': '(Nat.leb %s %s)' % (y, x), 'Lt': '(Nat.ltb %s %s)' % (x, y),
                 'LtE': '(Nat.leb %s %s)' % (x, y), 'Eq': '(Nat.eqb %s %s)' % (x, y), 'NotEq': '(negb (Nat.eqb %s %s))' % (x, y)}
            if opn not in m:
                raise TB('comparison %s (line %d)' % (opn, node.lineno))
            return T(m[opn], BOOL)
        x, y = self.num(a, node), self.num(b, node)
        m = {'Gt': '(nltb N %s %s)' % (y, x), 'GtE': '(nleb N %s %s)' % (y, x), 'Lt': '(nltb N %s %s)' % (x, y),
             'LtE': '(nleb N %s %s)' % (x, y), 'Eq': '(neqb N %s %s)' % (x, y), 'NotEq': '(negb (neqb N %s %s))' % (x, y)}
        if opn not in m:
            raise TB('comparison %s (line %d)' % (opn, node.lineno))
        return T(m[opn], BOOL)

    def test(self, e, st):
        if isinstance(e, ast.Compare):
            terms = [self.expr(e.left, st)] + [self.expr(c, st) for c in e.comparators]
            parts = [self.compare1(op, a, b, e) for op, a, b in zip(e.ops, terms, terms[1:])]
            if len(parts) == 1:
                return parts[0]
            return self.boolop('And', parts, e)
        if isinstance(e, ast.BoolOp):
            vals = [self.expr(v, st) for v in e.values]
            if any(isinstance(v, Ext) for v in vals):
                return self.ext_boolop(type(e.op).__name__, vals, e, st)
            return self.boolop(type(e.op).__name__, vals, e)
        if isinstance(e, ast.UnaryOp) and isinstance(e.op, ast.Not):
            return self.not_(self.test(e.operand, st))
        v = self.expr(e, st)
        if isinstance(v, (S, IsNone)) or (isinstance(v, T) and v.ty == BOOL) or isinstance(v, Vec):
            return v
        raise TB('test on %r (line %d)' % (v, e.lineno))

    def ext_boolop(self, op, vals, node, st):
        raise TB('and/or on external values (line %d)' % node.lineno)

    def boolop(self, op, parts, node):
        out = None
        for p in parts:
            if isinstance(p, IsNone) or isinstance(p, Vec):
                raise TB('and/or over `is None` / tensors (line %d)' % node.lineno)
            if isinstance(p, S):
                b = self.truth(p)
                if (op == 'And' and not b) or (op == 'Or' and b):
                    return S(b) if out is None else T('(%s %s %s)' % ('andb' if op == 'And' else 'orb', out, 'true' if b else 'false'), BOOL)
                continue
            s = self.boolterm(p)
            out = s if out is None else '(%s %s %s)' % ('andb' if op == 'And' else 'orb', out, s)
        if out is None:
            return S(op == 'And')
        return T(out, BOOL)

    def subscript(self, base, idx, node):
        if isinstance(base, (Tup, Lst)) and isinstance(idx, S) and isinstance(idx.v, int):
            if not -len(base.items) <= idx.v < len(base.items):
                raise TB('index out of range (line %d)' % node.lineno)
            return base.items[idx.v]
        if isinstance(base, Shape) and isinstance(idx, S) and idx.v == 0:
            return T('(Z.of_nat (length %s))' % base.of, ZT)
        if isinstance(base, T) and isinstance(base.ty, tuple) and base.ty[0] == 'list':
            el = base.ty[1]
            if isinstance(idx, S) and isinstance(idx.v, int) and idx.v >= 0:
                if el not in self.dflt:
                    raise TB('no default element for lists of %r' % (el,))
                return T('(nth %d %s %s)' % (idx.v, base.s, self.dflt[el]), el)
            if isinstance(idx, T) and idx.ty == OPTION(NAT) and el in self.dflt:
                # x[pdf.config.poi_index]: python fails on None; the hand model returns the default there
                return T('(match %s with Some i => nth i %s %s | None => %s end)' % (idx.s, base.s, self.dflt[el], self.dflt[el]), el)
        raise TB('subscript of %r by %r (line %d)' % (base, idx, node.lineno))

    def comprehension(self, e, st):
        if len(e.generators) != 1 or e.generators[0].ifs or e.generators[0].is_async:
            raise TB('comprehension shape (line %d)' % e.lineno)
        g = e.generators[0]
        if not isinstance(g.target, ast.Name):
            raise TB('comprehension target (line %d)' % e.lineno)
        it = self.expr(g.iter, st)
        if isinstance(it, Tup) or (isinstance(it, Lst) and not all(is_static_num(x) for x in it.items)):
            out = []
            for x in it.items:
                st2 = st.copy()
                st2.env[g.target.id] = x
                out.append(self.expr(e.elt, st2))
            return Lst(out) if isinstance(it, Lst) else Tup(out)
        if isinstance(it, Lst):
            it = self.list_term(it)
        if isinstance(it, T) and isinstance(it.ty, tuple) and it.ty[0] == 'list':
            var = 'x_' + g.target.id
            st2 = st.copy()
            st2.env[g.target.id] = T(var, it.ty[1])
            body = self.expr(e.elt, st2)
            if not isinstance(body, T):
                body = self.as_term(body)
            if body.s == var:
                return it                                   # [x for x in l]
            return T('(map (fun %s => %s) %s)' % (var, body.s, it.s), LIST(body.ty))
        raise TB('comprehension over %r (line %d)' % (it, e.lineno))

    def as_term(self, v):
        """a value as one Coq term"""
        if isinstance(v, T):
            return v
        if is_static_num(v):
            return T(numlit(v.v), NUM)
        if isinstance(v, S) and isinstance(v.v, bool):
            return T('true' if v.v else 'false', BOOL)
        if isinstance(v, Tup) and v.items:
            ts = [self.as_term(x) for x in v.items]
            return T('(' + ', '.join(t.s for t in ts) + ')', PROD(*[t.ty for t in ts]))
        if isinstance(v, Lst):
            return self.list_term(v)
        if isinstance(v, Vec):
            return T('(map (fun %s => %s) %s)' % (v.var, self.as_term(v.body).s, v.src), LIST(self.as_term(v.body).ty))
        raise TB('value %r has no Coq term' % (v,))

    # ---- merging the two sides of an `if` ----------------------------------------------------------
    def merge(self, c, a, b):
        if a is b:
            return a
        if isinstance(a, S) and isinstance(b, S) and type(a.v) is type(b.v) and (a.v == b.v or (a.v != a.v and b.v != b.v)):
            return a
        if isinstance(a, Ext) and isinstance(b, Ext) and a.tag == b.tag:
            return a
        if isinstance(a, Clo) and isinstance(b, Clo) and a.fn is b.fn:
            return a
        if isinstance(a, Tup) and isinstance(b, Tup) and len(a.items) == len(b.items):
            return Tup([self.merge(c, x, y) for x, y in zip(a.items, b.items)])
        if isinstance(a, T) and isinstance(b, T) and a.ty == b.ty and a.s == b.s:
            return a
        nan = lambda v: isinstance(v, S) and isinstance(v.v, float) and math.isnan(v.v)
        if nan(a) or nan(b) or getattr(a, 'ty', None) == OPTNUM or getattr(b, 'ty', None) == OPTNUM:
            return T('(if %s then %s else %s)' % (c, self.optnum(a), self.optnum(b)), OPTNUM)
        try:
            ta, tb_ = self.as_term(a), self.as_term(b)
        except TB as e:
            raise TB('cannot merge %r and %r under a condition: %s' % (a, b, e))
        if ta.ty != tb_.ty:
            raise TB('cannot merge values of types %r and %r under a condition' % (ta.ty, tb_.ty))
        return T('(if %s then %s else %s)' % (c, ta.s, tb_.s), ta.ty)

    def merge_states(self, c, s1, s2):
        out = St()
        for k in s1.env:
            if k in s2.env:
                try:
                    out.env[k] = self.merge(c, s1.env[k], s2.env[k])
                except TB as e:
                    out.env[k] = Ext('unmergeable', str(e))       # using it later fails closed
        for k in s1.attrs:
            if k in s2.attrs:
                out.attrs[k] = self.merge(c, s1.attrs[k], s2.attrs[k])
            else:
                raise TB('self.%s assigned under a condition only' % k)
        for k in s2.attrs:
            if k not in s1.attrs:
                raise TB('self.%s assigned under a condition only' % k)
        n = 0
        while n < len(s1.warns) and n < len(s2.warns) and s1.warns[n] == s2.warns[n]:
            n += 1
        out.warns = s1.warns[:n]
        if len(s1.warns) > n or len(s2.warns) > n:
            out.warns.append('(if %s then %s else %s)' % (c, render_warns(s1.warns[n:]), render_warns(s2.warns[n:])))
        return out

    # ---- calls -----------------------------------------------------------------------------------------
    def call(self, e, st):
        # list(map(list, zip(*X)))  -- transposition of a sequence of triples
        if (isinstance(e.func, ast.Name) and e.func.id == 'list' and len(e.args) == 1 and not e.keywords
                and dump(e.args[0]).startswith("Call(Name('map', Load()), [Name('list', Load()), Call(Name('zip', Load()), [Starred(")):
            inner = e.args[0].args[1]
            if len(inner.args) != 1 or inner.keywords or len(e.args[0].args) != 2:
                raise TB('zip(*..) shape (line %d)' % e.lineno)
            x = self.expr(inner.args[0].value, st)
            x = x if isinstance(x, T) else self.as_term(x)
            if not (isinstance(x.ty, tuple) and x.ty[0] == 'list' and isinstance(x.ty[1], tuple) and x.ty[1][0] == 'prod'
                    and isinstance(x.ty[1][1], tuple) and x.ty[1][1][0] == 'prod'):
                raise TB('zip(*X): X is not a sequence of triples (line %d)' % e.lineno)
            (_, (_, t1, t2), t3) = x.ty[1]
            if not (t1 == t2 == t3):
                raise TB('zip(*X): triples of mixed types (line %d)' % e.lineno)
            return T('[map (fun r => fst (fst r)) %s; map (fun r => snd (fst r)) %s; map (fun r => snd r) %s]' % (x.s, x.s, x.s), LIST(LIST(t1)))
        f = self.expr(e.func, st)
        if any(isinstance(a, ast.Starred) for a in e.args) or any(k.arg is None for k in e.keywords):
            return self.call_star(f, e, st)
        args = [self.expr(a, st) for a in e.args]
        kwargs = {k.arg: self.expr(k.value, st) for k in e.keywords}
        if isinstance(f, Clo):
            if args or kwargs:
                raise TB('call of a local function with arguments (line %d)' % e.lineno)
            return self.call_clo(f, st, e)
        if isinstance(f, Ext):
            r = self.call_builtin(f, args, kwargs, e, st)
            if r is not None:
                return r
            return self.call_ext(f, args, kwargs, e, st)
        raise TB('call of %r (line %d)' % (f, e.lineno))

    def call_clo(self, f, st, node):
        o = self.block(f.fn.body, st.copy())
        if not isinstance(o, Ret):
            raise TB('local function %s does not simply return (line %d)' % (f.fn.name, node.lineno))
        if o.st.attrs != st.attrs or o.st.warns != st.warns:
            raise TB('local function %s has side effects' % f.fn.name)
        return o.val

    def call_star(self, f, e, st):
        raise TB('*args / **kwargs in a call (line %d)' % e.lineno)

    def call_builtin(self, f, args, kwargs, e, st):
        tag = f.tag
        if tag == 'get_backend' and not args and not kwargs:
            return Tup([Ext('tensorlib'), Ext('optimizer')])
        if tag == 'float' and len(args) == 1 and isinstance(args[0], S) and isinstance(args[0].v, str) and not kwargs:
            s = args[0].v.strip().lower()
            if s in ('-inf', 'inf', '+inf', 'nan'):
                return S(float(s))
            raise TB('float(%r)' % s)
        if tag == 'len' and len(args) == 1 and not kwargs:
            x = args[0]
            if isinstance(x, (Lst, Tup)):
                return S(len(x.items))
            if isinstance(x, T) and isinstance(x.ty, tuple) and x.ty[0] == 'list':
                return T('(length %s)' % x.s, NAT)
            raise TB('len of %r' % (x,))
        if tag == 'tuple' and len(args) == 1 and not kwargs and isinstance(args[0], (Tup, Lst)):
            return Tup(args[0].items)
        if tag == 'list' and len(args) == 1 and not kwargs and isinstance(args[0], (Tup, Lst)):
            return Lst(args[0].items)
        if not tag.startswith('tensorlib.'):
            return None
        m = tag[len('tensorlib.'):]
        if m == 'astensor' and len(args) == 1 and (not kwargs or (list(kwargs) == ['dtype'] and isinstance(kwargs['dtype'], S))):
            return args[0]
        if m == 'where' and len(args) == 3 and not kwargs:
            c, a, b = args
            if isinstance(c, Vec):
                if isinstance(a, Vec) or isinstance(b, Vec):
                    raise TB('where over several tensors (line %d)' % e.lineno)
                return Vec(c.src, c.var, self.where(c.body, a, b, e))
            return self.where(c, a, b, e)
        if m == 'clip' and 2 <= len(args) <= 3:
            names = ['tensor_in', 'min_value', 'max_value']
            b = dict(zip(names, args))
            for k, v in kwargs.items():
                if k in b or k not in names:
                    raise TB('clip arguments (line %d)' % e.lineno)
                b[k] = v
            if set(b) != set(names) or not (isinstance(b['max_value'], S) and b['max_value'].v is None):
                raise TB('clip with an upper bound (line %d)' % e.lineno)
            x, lo = self.num(b['tensor_in'], e), self.num(b['min_value'], e)
            return T('(if nltb N %s %s then %s else %s)' % (x, lo, lo, x), NUM)
        if m == 'power' and len(args) == 2 and not kwargs and isinstance(args[1], S) and args[1].v == 2:
            x = self.num(args[0], e)
            return T('(nmul N %s %s)' % (x, x), NUM)
        if m == 'conditional' and len(args) == 3 and not kwargs:
            c = args[0]
            if not all(isinstance(x, Clo) for x in args[1:]):
                raise TB('conditional: branches are not local functions (line %d)' % e.lineno)
            a, b = (self.call_clo(x, st, e) for x in args[1:])
            if isinstance(c, S):
                return a if self.truth(c) else b
            return self.merge(self.boolterm(c), a, b)
        if m == 'ones' and len(args) == 1 and isinstance(args[0], Shape) and not kwargs:
            return S(1.0)                         # broadcast against the tensor it is combined with
        if m == 'shape' and len(args) == 1 and not kwargs:
            x = args[0]
            if isinstance(x, T) and isinstance(x.ty, tuple) and x.ty[0] == 'list':
                return Shape(x.s)
            if isinstance(x, T):
                return Shape(None)
            raise TB('shape of %r' % (x,))
        if m == 'sum' and len(args) == 1 and not kwargs and isinstance(args[0], Vec) and args[0].body.ty == ZT:
            v = args[0]
            return T('(fold_right Z.add 0%%Z (map (fun %s => %s) %s))' % (v.var, v.body.s, v.src), ZT)
        return None

    def where(self, c, a, b, node):
        if isinstance(c, S):
            return a if self.truth(c) else b
        c = self.boolterm(c)
        if all(isinstance(x, S) and isinstance(x.v, int) and not isinstance(x.v, bool) for x in (a, b)):
            return T('(if %s then %d%%Z else %d%%Z)' % (c, a.v, b.v), ZT)        # integer tensors
        return self.merge(c, a, b)

    # ---- statements ------------------------------------------------------------------------------------
    def assign(self, target, val, st, node):
        if isinstance(target, ast.Name):
            st.env[target.id] = val
            return
        if isinstance(target, ast.Attribute) and isinstance(target.value, ast.Name) and target.value.id == 'self':
            st.attrs[target.attr] = val
            return
        if isinstance(target, (ast.Tuple, ast.List)):
            n = len(target.elts)
            if isinstance(val, (Tup, Lst)):
                if len(val.items) != n:
                    raise TB('unpacking %d values into %d names (line %d)' % (len(val.items), n, node.lineno))
                for t, v in zip(target.elts, val.items):
                    self.assign(t, v, st, node)
                return
            if isinstance(val, T) and isinstance(val.ty, tuple) and val.ty[0] == 'prod':
                # Coq products associate to the left: (a, b, c) = ((a, b), c)
                comps = []
                cur, ty = val.s, val.ty
                for _ in range(n - 1):
                    if not (isinstance(ty, tuple) and ty[0] == 'prod'):
                        raise TB('unpacking a %r into %d names (line %d)' % (val.ty, n, node.lineno))
                    comps.append(T('(snd %s)' % cur, ty[2]))
                    cur, ty = '(fst %s)' % cur, ty[1]
                comps.append(T(cur, ty))
                for t, v in zip(target.elts, reversed(comps)):
                    self.assign(t, v, st, node)
                return
        raise TB('assignment target / value (line %d)' % node.lineno)

    def expr_stmt(self, e, st):
        """expression statements: log.warning(..), l.append(x), calls without effect on the translated state"""
        if isinstance(e, ast.Call) and isinstance(e.func, ast.Attribute):
            if isinstance(e.func.value, ast.Name) and e.func.attr == 'append' and e.func.value.id in st.env and len(e.args) == 1 and not e.keywords:
                name = e.func.value.id
                cur = st.env[name]
                x = self.expr(e.args[0], st)
                if isinstance(cur, Lst):
                    st.env[name] = Lst(cur.items + [x])
                    return
                if isinstance(cur, T) and isinstance(cur.ty, tuple) and cur.ty[0] == 'list':
                    one = self.list_term(Lst([x]))
                    if one.ty != cur.ty:
                        raise TB('append of a %r to a %r' % (one.ty, cur.ty))
                    st.env[name] = T('(%s ++ %s)' % (cur.s, one.s), cur.ty)
                    return
                raise TB('append to %r (line %d)' % (cur, e.lineno))
            base = self.expr(e.func.value, st)
            if isinstance(base, Ext) and base.tag == 'log' and e.func.attr == 'warning':
                if len(e.args) != 1 or e.keywords:
                    raise TB('log.warning arguments (line %d)' % e.lineno)
                msg = self.expr(e.args[0], st)
                if not (isinstance(msg, S) and isinstance(msg.v, str)):
                    raise TB('log.warning message is not a literal (line %d)' % e.lineno)
                st.warns.append('[%s]' % self.warning(msg.v, e))
                return
        self.effect_call(e, st)

    def effect_call(self, e, st):
        raise TB('expression statement (line %d)' % e.lineno)

    def block(self, stmts, st):
        stmts = list(stmts)
        while stmts:
            s = stmts.pop(0)
            if isinstance(s, ast.Expr) and isinstance(s.value, ast.Constant) and isinstance(s.value.value, str):
                continue
            if isinstance(s, ast.Pass):
                continue
            if isinstance(s, ast.Assign):
                if len(s.targets) != 1:
                    raise TB('chained assignment (line %d)' % s.lineno)
                self.assign(s.targets[0], self.expr(s.value, st), st, s)
            elif isinstance(s, ast.Expr):
                self.expr_stmt(s.value, st)
            elif isinstance(s, ast.FunctionDef):
                if s.args.args or s.args.vararg or s.args.kwarg or s.args.kwonlyargs or s.decorator_list:
                    raise TB('local function with parameters (line %d)' % s.lineno)
                st.env[s.name] = Clo(s)
            elif isinstance(s, ast.Raise):
                x = s.exc
                if isinstance(x, ast.Call):
                    x = x.func
                if isinstance(x, ast.Attribute):
                    name = x.attr
                elif isinstance(x, ast.Name):
                    name = x.id
                else:
                    raise TB('raise of %s (line %d)' % (type(x).__name__, s.lineno))
                return Exc(name, st)
            elif isinstance(s, ast.Return):
                if s.value is None:
                    raise TB('bare return (line %d)' % s.lineno)
                return Ret(self.expr(s.value, st), st)
            elif isinstance(s, ast.If):
                c = self.test(s.test, st)
                if isinstance(c, S):
                    stmts = list(s.body if self.truth(c) else s.orelse) + stmts
                    continue
                if isinstance(c, Vec):
                    raise TB('if on a tensor (line %d)' % s.lineno)
                if isinstance(c, IsNone):
                    st_none, st_some = st.copy(), st.copy()
                    var = 'x_some'
                    if c.key is not None:
                        kind, k = c.key
                        var = 'x_' + k
                        inner = T(var, c.term.ty[1])
                        if kind == 'attr':
                            st_some.attrs[k] = inner
                            st_none.attrs[k] = S(None)
                        else:
                            st_some.env[k] = inner
                            st_none.env[k] = S(None)
                    b_none, b_some = (s.body, s.orelse) if not c.neg else (s.orelse, s.body)
                    o_none = self.cont(self.block(b_none, st_none), stmts)
                    o_some = self.cont(self.block(b_some, st_some), stmts)
                    return Branch('opt', c.term.s, (o_none, o_some), var)
                cs = self.boolterm(c)
                o1 = self.block(s.body, st.copy())
                o2 = self.block(s.orelse, st.copy())
                if isinstance(o1, Fall) and isinstance(o2, Fall):
                    st = self.merge_states(cs, o1.st, o2.st)
                    continue
                return Branch('if', cs, (self.cont(o1, stmts), self.cont(o2, stmts)))
            else:
                raise TB('statement %s (line %d)' % (type(s).__name__, s.lineno))
        return Fall(st)

    def cont(self, o, rest):
        if isinstance(o, Fall):
            return self.block(rest, o.st)
        if isinstance(o, Branch):
            return Branch(o.kind, o.scrut, tuple(self.cont(x, rest) for x in o.cases), o.var)
        return o


def render(o, leaf):
    """outcome tree -> Coq term; leaf(o) renders Ret / Exc / Fall"""
    if isinstance(o, Branch):
        a, b = (render(x, leaf) for x in o.cases)
        if o.kind == 'if':
            return '(if %s then %s else %s)' % (o.scrut, a, b)
        return '(match %s with None => %s | Some %s => %s end)' % (o.scrut, a, o.var, b)
    return leaf(o)


def only_ret(o, what):
    if not isinstance(o, Ret):
        raise TB('%s: does not end in a single plain return' % what)
    return o


def source_comment(rel, fn, path):
    import hashlib
    src = ast.get_source_segment(open(path).read(), fn) or ''
    return '(* %s:%s lines %d-%d sha256 %s *)\n' % (rel, fn.name, fn.lineno, fn.end_lineno, hashlib.sha256(src.encode()).hexdigest()[:16])


def methods(cls):
    return {n.name: n for n in cls.body if isinstance(n, ast.FunctionDef)}


def check_init_stores(cls, names):
    """__init__ stores the constructor arguments `names` unchanged in attributes of the same name (exactly once each)"""
    init = facts.find_func(cls, '__init__')
    stored = {}
    for n in ast.walk(init):
        if isinstance(n, (ast.Assign, ast.AugAssign, ast.AnnAssign)):
            tgts = n.targets if isinstance(n, ast.Assign) else [n.target]
            for t in tgts:
                if isinstance(t, ast.Attribute) and isinstance(t.value, ast.Name) and t.value.id == 'self':
                    ok = isinstance(n, ast.Assign) and isinstance(n.value, ast.Name) and n.value.id == t.attr
                    stored.setdefault(t.attr, []).append(ok)
    for a in names:
        if stored.get(a) != [True]:
            raise TB('%s.__init__ does not store %s unchanged exactly once' % (cls.name, a))
    return init


# ======================================================================================================================
# Second layer (C05, C09): constructs beyond the decision functions above.  Nothing above this line changes meaning.
#   * function values with parameters (`def g(a, b=dflt)`, `lambda`): class Fun; a call inlines the body;
#   * `[elt for pat in it if cond]` over range / zip / enumerate / list terms -> map / filter / combine / seq;
#   * `x[0]`, `x[1]` on a pair term -> fst / snd; `l[i]` with i a nat term -> nth i l dflt; `l[::-1]` -> rev, `l[1:]` -> tl;
#   * `n in l`, `n not in l` on a list of nat -> existsb (Nat.eqb n) l;
#   * `a or b` with a an optional list -> por a b (python truth of a list: non-empty);
#   * `l[i] = v` -> upd i v l; `obj.attr = v` on an object term -> recorded attribute (read back by `obj.attr`);
#   * `if a is None or b is None:` -> nested tests; `try: assert c / except AssertionError: H` -> `if c: pass else: H`;
#   * `for pat in it: if c: raise E(..)` -> match find_first (fun x => c) it with Some x => raise | None => go on;
#   * a call of another translated function used as a statement / assignment / return is inlined, the rest of the caller
#     continuing under every path of the callee (`bind_inline`);
#   * calls that raise on an empty argument (np.argmin ..) register a pending `match .. with None => raise | Some i => ..`
#     wrapped around the rest of the function after the statement they occur in;
#   * reading a local that no path has assigned ends the path with UnboundLocalError.
# Rendering of the new branch kinds: render2.  PRELUDE2 is Coq text for the helper functions named above.
PRELUDE2 = '''(* helpers of the translator (harness/props/tie_translate.py): the reading of python constructs *)
Definition por {X} (x : option (list X)) (y : list X) : list X :=        (* `x or y`: an empty list is false *)
  match x with Some (a :: t) => a :: t | _ => y end.
Fixpoint find_first {X} (p : X -> bool) (l : list X) : option X :=       (* first iteration of a `for` whose `if` fires *)
  match l with [] => None | a :: t => if p a then Some a else find_first p t end.
'''


class Fun:
    """function value: parameters, defaults (evaluated at definition), body (statements or one expression), captured env"""

    def __init__(self, name, params, defaults, body, env, is_expr=False):
        self.name, self.params, self.defaults, self.body, self.env, self.is_expr = name, params, defaults, body, env, is_expr

    def __repr__(self):
        return 'Fun(%s)' % self.name


class Dct:
    def __init__(self, items):
        self.items = dict(items)


class UnboundLocal(TB):
    pass


class Br2(Branch):
    """branch rendered through a template: '@@k@@' is replaced by the rendering of case k"""

    def __init__(self, template, cases):
        Branch.__init__(self, 'tpl', template, tuple(cases), None)


def rebuild(o, cases):
    if isinstance(o, Br2):
        return Br2(o.scrut, cases)
    return Branch(o.kind, o.scrut, tuple(cases), o.var)


def map_leaves(o, k):
    if isinstance(o, Branch):
        return rebuild(o, [map_leaves(c, k) for c in o.cases])
    return k(o)


def render2(o, leaf):
    if isinstance(o, Br2):
        s = o.scrut
        for i, c in enumerate(o.cases):
            s = s.replace('@@%d@@' % i, render2(c, leaf))
        return s
    if isinstance(o, Branch):
        a, b = (render2(x, leaf) for x in o.cases)
        if o.kind == 'if':
            return '(if %s then %s else %s)' % (o.scrut, a, b)
        return '(match %s with None => %s | Some %s => %s end)' % (o.scrut, a, o.var, b)
    return leaf(o)


def coqty(t, num='V N'):
    if t == NUM:
        return num
    if t == BOOL:
        return 'bool'
    if t == NAT:
        return 'nat'
    if t == ZT:
        return 'Z'
    if t == OPTNUM:
        return 'option (%s)' % num
    if isinstance(t, tuple):
        if t[0] == 'list':
            return 'list (%s)' % coqty(t[1], num)
        if t[0] == 'option':
            return 'option (%s)' % coqty(t[1], num)
        if t[0] == 'prod':
            return '(%s * %s)' % (coqty(t[1], num), coqty(t[2], num))
    if isinstance(t, str):
        return t
    raise TB('type %r has no Coq rendering' % (t,))


def is_list(v):
    return isinstance(v, T) and isinstance(v.ty, tuple) and v.ty[0] == 'list'


def assigned_locals(fn):
    out = set()
    for n in ast.walk(fn):
        if isinstance(n, ast.Name) and isinstance(n.ctx, ast.Store):
            out.add(n.id)
    return out


class Exec2(Exec):
    dflt = {NUM: '(n0 N)', NAT: '0', BOOL: 'false'}

    def __init__(self):
        super().__init__()
        self.pending = []            # (scrutinee : option term, variable, exception name) of the statement being executed
        self.locals = set()          # names assigned somewhere in the function being translated: reading one unbound ends the path
        self.nvar = 0

    # ---- hooks ---------------------------------------------------------------------------------------------------
    def inline_target(self, call, st):
        """(FunctionDef, state of the callee) when `call` is a call of another translated function to be inlined, else None"""
        return None

    def skip_stmt(self, s, st):
        return False

    def fun_term(self, f):
        raise TB('function value %r has no Coq term' % (f,))

    def obj_attr(self, obj, attr, node, st):
        raise TB('attribute .%s of %r (line %d)' % (attr, obj, node.lineno))

    def while_stmt(self, s, st, rest):
        raise TB('while loop (line %d)' % s.lineno)

    def dflt_of(self, ty):
        if ty in self.dflt:
            return self.dflt[ty]
        if isinstance(ty, tuple) and ty[0] == 'list':
            return '[]'
        if isinstance(ty, tuple) and ty[0] == 'option':
            return 'None'
        if isinstance(ty, tuple) and ty[0] == 'prod':
            return '(%s, %s)' % (self.dflt_of(ty[1]), self.dflt_of(ty[2]))
        raise TB('no default element of type %r' % (ty,))

    def fresh_var(self, base):
        self.nvar += 1
        return 'x_%s%d' % (base, self.nvar)

    def is_obj(self, v):
        return False

    # ---- names ---------------------------------------------------------------------------------------------------
    def name_lookup(self, name, st):
        if name in st.env:
            return st.env[name]
        if name in self.locals:
            raise UnboundLocal('local %s read before assignment' % name)
        return self.global_name(name, st)

    # ---- expressions -----------------------------------------------------------------------------------------------
    def expr(self, e, st):
        d = dump(e)
        for pd, val in self.patterns:
            if pd == d:
                return val(st) if callable(val) else val
        if isinstance(e, ast.Name):
            return self.name_lookup(e.id, st)
        if isinstance(e, ast.Lambda):
            a = e.args
            if a.posonlyargs or a.vararg or a.kwonlyargs or a.kwarg:
                raise TB('lambda signature (line %d)' % e.lineno)
            params = [x.arg for x in a.args]
            dfl = {p: self.expr(dv, st) for p, dv in zip(params[len(params) - len(a.defaults):], a.defaults)}
            return Fun('<lambda>', params, dfl, e.body, dict(st.env), is_expr=True)
        if isinstance(e, ast.List) and any(isinstance(x, ast.Starred) for x in e.elts):
            if len(e.elts) != 1:
                raise TB('list display mixing * and elements (line %d)' % e.lineno)
            v = self.expr(e.elts[0].value, st)           # [*x]: a copy of x
            if is_list(v) or isinstance(v, Lst):
                return v
            raise TB('[*x] on %r (line %d)' % (v, e.lineno))
        if isinstance(e, ast.Dict):
            if not all(isinstance(k, ast.Constant) and isinstance(k.value, str) for k in e.keys):
                raise TB('dict display with non-literal keys (line %d)' % e.lineno)
            return Dct([(k.value, self.expr(v, st)) for k, v in zip(e.keys, e.values)])
        if isinstance(e, ast.BoolOp) and isinstance(e.op, ast.Or) and len(e.values) == 2:
            a = self.expr(e.values[0], st)
            if isinstance(a, T) and isinstance(a.ty, tuple) and a.ty[0] == 'option' and isinstance(a.ty[1], tuple) and a.ty[1][0] == 'list':
                b = self.expr(e.values[1], st)
                if isinstance(b, Lst) and not b.items:
                    return T('(por %s [])' % a.s, a.ty[1])
                if isinstance(b, T) and b.ty == a.ty[1]:
                    return T('(por %s %s)' % (a.s, b.s), a.ty[1])
                raise TB('`or` of an optional list with %r (line %d)' % (b, e.lineno))
        if isinstance(e, ast.Attribute) and not (isinstance(e.value, ast.Name) and e.value.id == 'self' and 'self' not in st.env):
            base = self.expr(e.value, st)
            if self.is_obj(base):
                k = base.s + '\x1f' + e.attr
                if k in st.attrs:
                    return st.attrs[k]
                return self.obj_attr(base, e.attr, e, st)
            return self.attr_ext(base, e.attr, e, st)
        if isinstance(e, ast.Subscript) and isinstance(e.slice, ast.Slice):
            base = self.expr(e.value, st)
            sl = e.slice
            cst = lambda x: None if x is None else self.expr(x, st)
            lo, hi, step = cst(sl.lower), cst(sl.upper), cst(sl.step)
            if not is_list(base):
                raise TB('slice of %r (line %d)' % (base, e.lineno))
            if lo is None and hi is None and isinstance(step, S) and step.v == -1:
                return T('(rev %s)' % base.s, base.ty)
            if isinstance(lo, S) and lo.v == 1 and hi is None and step is None:
                return T('(tl %s)' % base.s, base.ty)
            raise TB('slice shape (line %d)' % e.lineno)
        return super().expr(e, st)

    def subscript(self, base, idx, node):
        if isinstance(base, T) and isinstance(base.ty, tuple) and base.ty[0] == 'prod' and isinstance(idx, S) and idx.v in (0, 1) and not isinstance(idx.v, bool):
            return T('(%s %s)' % ('fst' if idx.v == 0 else 'snd', base.s), base.ty[1 + idx.v])
        if is_list(base) and isinstance(idx, T) and idx.ty == NAT:
            return T('(nth %s %s %s)' % (idx.s, base.s, self.dflt_of(base.ty[1])), base.ty[1])
        if is_list(base) and isinstance(idx, S) and isinstance(idx.v, int) and not isinstance(idx.v, bool) and idx.v >= 0:
            return T('(nth %d %s %s)' % (idx.v, base.s, self.dflt_of(base.ty[1])), base.ty[1])
        if is_list(base) and isinstance(idx, T) and idx.ty == OPTION(NAT):
            d = self.dflt_of(base.ty[1])
            return T('(match %s with Some i => nth i %s %s | None => %s end)' % (idx.s, base.s, d, d), base.ty[1])
        if is_list(base) and isinstance(idx, T) and idx.ty == LIST(BOOL):
            return T('(mask %s %s)' % (idx.s, base.s), base.ty)                 # boolean-mask indexing
        if is_list(base) and isinstance(idx, Vec):
            return T('(mask %s %s)' % (self.as_term(idx).s, base.s), base.ty)
        if isinstance(base, Dct) and isinstance(idx, S) and isinstance(idx.v, str):
            if idx.v not in base.items:
                raise TB('key %r not in the dict (line %d)' % (idx.v, node.lineno))
            return base.items[idx.v]
        return super().subscript(base, idx, node)

    def binop(self, op, a, b, node):
        ta, tb_ = getattr(a, 'ty', None), getattr(b, 'ty', None)
        if NAT in (ta, tb_) and op in ('Add', 'Sub'):
            def nat(v):
                if isinstance(v, T) and v.ty == NAT:
                    return v.s
                if isinstance(v, S) and isinstance(v.v, int) and not isinstance(v.v, bool) and v.v >= 0:
                    return '%d' % v.v
                raise TB('a natural number was expected (line %d)' % node.lineno)
            return T('(%s %s %s)' % (nat(a), '+' if op == 'Add' else '-', nat(b)), NAT)      # python ints; `-` truncated at 0
        if op == 'Add' and (is_list(a) or isinstance(a, Lst)) and (is_list(b) or isinstance(b, Lst)):
            x, y = self.as_term(a), self.as_term(b)
            if x.ty != y.ty:
                raise TB('+ of a %r and a %r (line %d)' % (x.ty, y.ty, node.lineno))
            return T('(%s ++ %s)' % (x.s, y.s), x.ty)
        return super().binop(op, a, b, node)

    def compare1(self, op, a, b, node):
        opn = type(op).__name__
        if opn in ('In', 'NotIn') and isinstance(a, T) and a.ty == NAT and isinstance(b, T) and b.ty == LIST(NAT):
            s = '(existsb (Nat.eqb %s) %s)' % (a.s, b.s)
            return T(s if opn == 'In' else '(negb %s)' % s, BOOL)
        return super().compare1(op, a, b, node)

    def as_term(self, v):
        if isinstance(v, Fun):
            return self.fun_term(v)
        if isinstance(v, Lst) and not v.items:
            raise TB('an empty list literal has no type of its own')
        return super().as_term(v)

    def merge(self, c, a, b):
        if isinstance(a, Lst) and not a.items and is_list(b):
            return T('(if %s then [] else %s)' % (c, b.s), b.ty)
        if isinstance(b, Lst) and not b.items and is_list(a):
            return T('(if %s then %s else [])' % (c, a.s), a.ty)
        if isinstance(a, Fun) or isinstance(b, Fun):
            if a is b:
                return a
            ta, tb_ = self.as_term(a), self.as_term(b)
            if ta.ty != tb_.ty:
                raise TB('cannot merge function values of different types')
            return T('(if %s then %s else %s)' % (c, ta.s, tb_.s), ta.ty)
        return super().merge(c, a, b)

    # ---- comprehensions ----------------------------------------------------------------------------------------------
    def bind_pattern(self, target, val, st, node):
        if isinstance(target, ast.Name):
            st.env[target.id] = val
            return
        self.assign(target, val, st, node)

    def iter_term(self, it, node):
        if isinstance(it, Lst):
            it = self.list_term(it)
        if isinstance(it, Vec):
            it = self.as_term(it)
        if not is_list(it):
            raise TB('iteration over %r (line %d)' % (it, node.lineno))
        return it

    def comprehension(self, e, st):
        if len(e.generators) != 1 or e.generators[0].is_async:
            raise TB('comprehension shape (line %d)' % e.lineno)
        g = e.generators[0]
        it = self.expr(g.iter, st)
        if not g.ifs and isinstance(g.target, ast.Name) and (isinstance(it, Tup) or (isinstance(it, Lst) and not all(is_static_num(x) for x in it.items))):
            return super().comprehension(e, st)
        it = self.iter_term(it, e)
        names = [n.id for n in ast.walk(g.target) if isinstance(n, ast.Name)]
        var = 'x_' + '_'.join(names)
        st2 = st.copy()
        self.bind_pattern(g.target, T(var, it.ty[1]), st2, e)
        npend = len(self.pending)
        src = it.s
        if g.ifs:
            conds = [self.test(c, st2) for c in g.ifs]
            c = self.boolop('And', conds, e)
            if isinstance(c, S):
                raise TB('comprehension filter decided at translation time (line %d)' % e.lineno)
            src = '(filter (fun %s => %s) %s)' % (var, self.boolterm(c), src)
        body = self.expr(e.elt, st2)
        width = len(body.items) if isinstance(body, Lst) else getattr(body, 'static_len', None)
        if not isinstance(body, T):
            body = self.as_term(body)
        if len(self.pending) != npend:
            raise TB('raising call inside a comprehension (line %d)' % e.lineno)
        out = T(src, it.ty) if body.s == var else T('(map (fun %s => %s) %s)' % (var, body.s, src), LIST(body.ty))
        if width is not None:
            out.rowwidth = width                       # static length of every element
        if not g.ifs and getattr(it, 'static_len', None) is not None:
            out.static_len = it.static_len
        return out

    # ---- calls -------------------------------------------------------------------------------------------------------
    def call(self, e, st):
        if not (isinstance(e.func, ast.Name) and e.func.id == 'list' and e.func.id not in st.env):
            f = self.expr(e.func, st)
            if isinstance(f, Fun):
                if any(isinstance(a, ast.Starred) for a in e.args) or any(k.arg is None for k in e.keywords):
                    raise TB('*args / **kwargs in the call of a local function (line %d)' % e.lineno)
                return self.call_fun(f, [self.expr(a, st) for a in e.args], {k.arg: self.expr(k.value, st) for k in e.keywords}, st, e)
        return super().call(e, st)

    def call_fun(self, f, args, kwargs, st, node):
        if len(args) > len(f.params):
            raise TB('%s: too many arguments (line %d)' % (f.name, node.lineno))
        bound = dict(zip(f.params, args))
        for k, v in kwargs.items():
            if k in bound or k not in f.params:
                raise TB('%s: keyword %s (line %d)' % (f.name, k, node.lineno))
            bound[k] = v
        for p in f.params:
            if p not in bound:
                if p not in f.defaults:
                    raise TB('%s: missing argument %s (line %d)' % (f.name, p, node.lineno))
                bound[p] = f.defaults[p]
        st2 = St(dict(f.env, **bound), st.attrs, st.warns)
        if f.is_expr:
            return self.expr(f.body, st2)
        o = self.block(f.body, st2)
        if not isinstance(o, Ret):
            raise TB('local function %s does not simply return (line %d)' % (f.name, node.lineno))
        if o.st.attrs != st.attrs or o.st.warns != st.warns:
            raise TB('local function %s has side effects' % f.name)
        return o.val

    def call_builtin(self, f, args, kwargs, e, st):
        tag = f.tag
        if tag == 'range' and not kwargs and len(args) == 1:
            n = args[0]
            if isinstance(n, T) and n.ty == NAT:
                return T('(seq 0 %s)' % n.s, LIST(NAT))
            if isinstance(n, S) and isinstance(n.v, int) and not isinstance(n.v, bool) and n.v >= 0:
                out = T('(seq 0 %d)' % n.v, LIST(NAT))
                out.static_len = n.v
                return out
            raise TB('range(%r)' % (n,))
        if tag == 'range' and not kwargs and len(args) == 2 and all(isinstance(x, S) and isinstance(x.v, int) and not isinstance(x.v, bool) for x in args):
            return Lst([S(i) for i in range(args[0].v, args[1].v)])
        if tag == 'zip' and not kwargs and len(args) == 2 and all(is_list(x) for x in args):
            return T('(combine %s %s)' % (args[0].s, args[1].s), LIST(PROD(args[0].ty[1], args[1].ty[1])))
        if tag == 'enumerate' and not kwargs and len(args) == 1 and is_list(args[0]):
            return T('(combine (seq 0 (length %s)) %s)' % (args[0].s, args[0].s), LIST(PROD(NAT, args[0].ty[1])))
        if tag == 'list' and len(args) == 1 and not kwargs and is_list(args[0]):
            return args[0]
        if tag == 'len' and len(args) == 1 and not kwargs and is_list(args[0]):
            return T('(length %s)' % args[0].s, NAT)
        return super().call_builtin(f, args, kwargs, e, st)

    # ---- statements --------------------------------------------------------------------------------------------------
    def assign(self, target, val, st, node):
        if isinstance(target, ast.Name) and isinstance(val, T) and isinstance(val.ty, tuple) and val.ty[0] == 'option':
            v2 = T(val.s, val.ty, ('name', target.id))
            st.env[target.id] = v2
            return
        if isinstance(target, ast.Subscript) and isinstance(target.value, ast.Name) and target.value.id in st.env:
            cur = st.env[target.value.id]
            if isinstance(cur, Lst):
                cur = self.list_term(cur)
            idx = self.expr(target.slice, st)
            if is_list(cur):
                v = self.as_term(val) if not (isinstance(val, S) and isinstance(val.v, bool)) else T('true' if val.v else 'false', BOOL)
                if v.ty != cur.ty[1]:
                    raise TB('storing a %r into a list of %r (line %d)' % (v.ty, cur.ty[1], node.lineno))
                if isinstance(idx, T) and idx.ty == NAT:
                    st.env[target.value.id] = T('(upd %s %s %s)' % (idx.s, v.s, cur.s), cur.ty)
                    return
                if isinstance(idx, T) and idx.ty == OPTION(NAT):
                    st.env[target.value.id] = T('(match %s with Some i => upd i %s %s | None => %s end)' % (idx.s, v.s, cur.s, cur.s), cur.ty)
                    return
            raise TB('item assignment %s[..] (line %d)' % (target.value.id, node.lineno))
        if isinstance(target, ast.Attribute) and isinstance(target.value, ast.Name) and target.value.id in st.env and self.is_obj(st.env[target.value.id]):
            st.attrs[st.env[target.value.id].s + '\x1f' + target.attr] = val
            return
        super().assign(target, val, st, node)

    def wrap_pending(self, st, k):
        """pending entries: (scrutinee, variable, exception name) - `match scrutinee with None => raise | Some variable => ..`;
        (term, variable, None) - `let variable := term in ..`"""
        pend, self.pending = self.pending, []
        if not pend:
            return k()

        def build(i):
            if i == len(pend):
                return k()
            scrut, var, exc = pend[i]
            if exc is None:
                return Br2('(let %s := %s in @@0@@)' % (var, scrut), (build(i + 1),))
            return Branch('opt', scrut, (Exc(exc, st), build(i + 1)), var)
        return build(0)

    def bind_inline(self, target, call, st, rest, kind):
        got = self.inline_target(call, st)
        if got is None:
            return None
        fn, cst = got
        saved = self.locals
        self.locals = assigned_locals(fn)
        try:
            o = self.block(fn.body, cst)
        finally:
            self.locals = saved

        def k(leaf):
            if isinstance(leaf, Exc):
                return leaf
            val = leaf.val if isinstance(leaf, Ret) else S(None)
            st2 = St(st.env, leaf.st.attrs, leaf.st.warns)
            if target is not None:
                self.assign(target, val, st2, call)
            if kind == 'return':
                return Ret(val, st2)
            return self.block(rest, st2)
        return map_leaves(o, k)

    def block(self, stmts, st):
        stmts = list(stmts)
        while stmts:
            s = stmts.pop(0)
            try:
                r = self.stmt(s, st, stmts)
            except UnboundLocal:
                return Exc('UnboundLocalError', st)
            if r is None:
                continue
            if isinstance(r, St):
                st = r
                continue
            return r
        return Fall(st)

    def cont(self, o, rest):
        if isinstance(o, Fall):
            return self.block(rest, o.st)
        if isinstance(o, Branch):
            return rebuild(o, [self.cont(x, rest) for x in o.cases])
        return o

    def stmt(self, s, st, rest):
        """None: state updated in place, go on; St: go on with that state; otherwise the outcome of the whole block"""
        if isinstance(s, ast.Expr) and isinstance(s.value, ast.Constant) and isinstance(s.value.value, str):
            return None
        if isinstance(s, ast.Pass):
            return None
        if self.skip_stmt(s, st):
            return None
        self.pending = []
        if isinstance(s, ast.Assign):
            if len(s.targets) != 1:
                raise TB('chained assignment (line %d)' % s.lineno)
            if isinstance(s.value, ast.Call):
                o = self.bind_inline(s.targets[0], s.value, st, rest, 'assign')
                if o is not None:
                    return o
            self.assign(s.targets[0], self.expr(s.value, st), st, s)
            if self.pending:
                return self.wrap_pending(st, lambda: self.block(rest, st))
            return None
        if isinstance(s, ast.AugAssign):
            if not isinstance(s.target, ast.Name):
                raise TB('augmented assignment target (line %d)' % s.lineno)
            cur = self.name_lookup(s.target.id, st)
            st.env[s.target.id] = self.binop(type(s.op).__name__, cur, self.expr(s.value, st), s)
            if self.pending:
                return self.wrap_pending(st, lambda: self.block(rest, st))
            return None
        if isinstance(s, ast.Expr):
            if isinstance(s.value, ast.Call):
                o = self.bind_inline(None, s.value, st, rest, 'expr')
                if o is not None:
                    return o
            self.expr_stmt(s.value, st)
            if self.pending:
                return self.wrap_pending(st, lambda: self.block(rest, st))
            return None
        if isinstance(s, ast.FunctionDef):
            a = s.args
            if a.posonlyargs or a.vararg or a.kwarg or a.kwonlyargs or s.decorator_list:
                raise TB('local function signature (line %d)' % s.lineno)
            if not a.args:
                st.env[s.name] = Clo(s)
                return None
            params = [x.arg for x in a.args]
            dfl = {p: self.expr(dv, st) for p, dv in zip(params[len(params) - len(a.defaults):], a.defaults)}
            st.env[s.name] = Fun(s.name, params, dfl, s.body, dict(st.env))
            return None
        if isinstance(s, ast.Raise):
            x = s.exc
            if isinstance(x, ast.Call):
                x = x.func
            if isinstance(x, ast.Attribute):
                name = x.attr
            elif isinstance(x, ast.Name):
                name = x.id
            else:
                raise TB('raise of %s (line %d)' % (type(x).__name__, s.lineno))
            return Exc(name, st)
        if isinstance(s, ast.Return):
            if s.value is None:
                raise TB('bare return (line %d)' % s.lineno)
            if isinstance(s.value, ast.Call):
                o = self.bind_inline(None, s.value, st, rest, 'return')
                if o is not None:
                    return o
            v = self.expr(s.value, st)
            return self.wrap_pending(st, lambda: Ret(v, st))
        if isinstance(s, ast.If):
            if isinstance(s.test, ast.BoolOp) and isinstance(s.test.op, ast.Or):
                parts = [self.test(v, st) for v in s.test.values]
                if any(isinstance(p, IsNone) for p in parts):
                    # if a or b: B else: E   ==   if a: B else: (if b: B else: E)
                    vals = s.test.values
                    inner = ast.If(test=vals[1] if len(vals) == 2 else ast.BoolOp(op=ast.Or(), values=vals[1:]), body=s.body, orelse=s.orelse)
                    outer = ast.If(test=vals[0], body=s.body, orelse=[inner])
                    for n in (inner, outer):
                        ast.copy_location(n, s)
                    if len(vals) > 2:
                        ast.copy_location(inner.test, s)
                    rest.insert(0, outer)
                    return None
            c = self.test(s.test, st)
            if self.pending:
                raise TB('raising call inside an `if` test (line %d)' % s.lineno)
            if isinstance(c, S):
                rest[:0] = list(s.body if self.truth(c) else s.orelse)
                return None
            if isinstance(c, Vec):
                raise TB('if on a tensor (line %d)' % s.lineno)
            if isinstance(c, IsNone):
                st_none, st_some = st.copy(), st.copy()
                var = 'x_some'
                if c.key is not None:
                    kind, k = c.key
                    var = 'x_' + k
                    inner = T(var, c.term.ty[1])
                    if kind == 'attr':
                        st_some.attrs[k] = inner
                        st_none.attrs[k] = S(None)
                    else:
                        st_some.env[k] = inner
                        st_none.env[k] = S(None)
                b_none, b_some = (s.body, s.orelse) if not c.neg else (s.orelse, s.body)
                o_none = self.cont(self.block(b_none, st_none), rest)
                o_some = self.cont(self.block(b_some, st_some), rest)
                return Branch('opt', c.term.s, (o_none, o_some), var)
            cs = self.boolterm(c)
            o1 = self.block(s.body, st.copy())
            o2 = self.block(s.orelse, st.copy())
            if isinstance(o1, Fall) and isinstance(o2, Fall):
                return self.merge_states(cs, o1.st, o2.st)
            return Branch('if', cs, (self.cont(o1, rest), self.cont(o2, rest)))
        if isinstance(s, ast.For):
            return self.for_stmt(s, st, rest)
        if isinstance(s, ast.While):
            return self.while_stmt(s, st, rest)
        if isinstance(s, ast.Try):
            # try: assert c / except AssertionError: H     ==     if c: pass else: H
            if (len(s.body) == 1 and isinstance(s.body[0], ast.Assert) and s.body[0].msg is None and len(s.handlers) == 1 and not s.orelse and not s.finalbody
                    and isinstance(s.handlers[0].type, ast.Name) and s.handlers[0].type.id == 'AssertionError' and s.handlers[0].name is None):
                n = ast.If(test=s.body[0].test, body=[ast.Pass()], orelse=s.handlers[0].body)
                ast.copy_location(n, s)
                ast.copy_location(n.body[0], s)
                rest.insert(0, n)
                return None
            raise TB('try statement shape (line %d)' % s.lineno)
        raise TB('statement %s (line %d)' % (type(s).__name__, s.lineno))

    def merge_states(self, c, s1, s2):
        out = St()
        for k in s1.env:
            if k in s2.env:
                try:
                    out.env[k] = self.merge(c, s1.env[k], s2.env[k])
                except TB as e:
                    out.env[k] = Ext('unmergeable', str(e))
        for k in set(s1.attrs) | set(s2.attrs):
            if k in s1.attrs and k in s2.attrs:
                out.attrs[k] = self.merge(c, s1.attrs[k], s2.attrs[k])
            else:
                raise TB('attribute %s assigned under a condition only' % k.replace('\x1f', '.'))
        n = 0
        while n < len(s1.warns) and n < len(s2.warns) and s1.warns[n] == s2.warns[n]:
            n += 1
        out.warns = s1.warns[:n]
        if len(s1.warns) > n or len(s2.warns) > n:
            out.warns.append('(if %s then %s else %s)' % (c, render_warns(s1.warns[n:]), render_warns(s2.warns[n:])))
        return out

    def for_stmt(self, s, st, rest):
        """for pat in it: if c: raise E(..)"""
        if s.orelse or len(s.body) != 1 or not isinstance(s.body[0], ast.If) or s.body[0].orelse or len(s.body[0].body) != 1 \
                or not isinstance(s.body[0].body[0], ast.Raise):
            raise TB('for loop shape (line %d)' % s.lineno)
        it = self.iter_term(self.expr(s.iter, st), s)
        names = [n.id for n in ast.walk(s.target) if isinstance(n, ast.Name)]
        var = 'x_' + '_'.join(names)
        st2 = st.copy()
        self.bind_pattern(s.target, T(var, it.ty[1]), st2, s)
        c = self.test(s.body[0].test, st2)
        if isinstance(c, (S, IsNone, Vec)):
            raise TB('for loop: test (line %d)' % s.lineno)
        exc = self.block(s.body[0].body, st2)
        tpl = '(match find_first (fun %s => %s) %s with Some %s => @@0@@ | None => @@1@@ end)' % (var, self.boolterm(c), it.s, var)
        return Br2(tpl, (exc, self.block(rest, st)))


# ======================================================================================================================
# Third layer (C16, C17, C12): the dict / list / object code of workspace.py, patchset.py, mixins.py.  Nothing above this line
# changes meaning.  Class Exec3 adds to Exec2:
#   * text: a python str is a term of type `string` (STR); `==` / `!=` is String.eqb; `s in l` on a list / set / tuple of strings is
#     mem_str s l, on a list of records `existsb (R_eqb s) l` (python == on the dicts of one record type);
#   * typed JSON documents: a python dict whose shape is a record type of the hand model (`records`: key -> projection, nested keys for
#     sub-dicts that have no record of their own) is a term of that type: d['k'] is the projection, a dict display with exactly the keys
#     of one record type is its constructor, dict(d, k=v) the record with one field replaced;
#   * python dicts used as tables: DICT(k, v) is an association list (insertion ordered): .items() the list itself, `k in d`
#     mem_str k (map fst d), d.get(k, x) `match assoc k d with Some y => y | None => x end`, dict(pairs) dict_of_pairs;
#     property modules may register further table types (`dict_types`) with their own mem / get / set terms;
#   * sets: {f x for x in l} is dedup (map f l) (first occurrences, in order); s.intersection(it) filters s by membership in it;
#     collections.Counter(it).items() pairs every distinct element with its number of occurrences (count_str); the truth value of a
#     list / set is `nonempty`;
#   * in-place updates through places: v['k'] = x, l[i]['k'] = x (update_at i), l.append(x), l.sort(key=lambda e: ..) (ssort / psort
#     on one / two text keys), d.setdefault(k, []).append(x) (dl_append);
#   * `for x in l:` loops in general: the variables (and attributes of self) the body assigns or updates in place, that are bound before
#     the loop, are the state of a fold - `fold_left` when no path of the body raises, `foldM` (stops at the first error) otherwise;
#     a loop whose body updates nothing but its own loop variable in place rewrites the list it iterates over (`map`);
#   * `try: B except E: H` in general: the paths of B ending in E continue with H;
#   * values copied / shared: copy.deepcopy(x) is x, marked private at every depth; list(x) / dict(x) / displays / comprehensions are
#     private at the top only.  An in-place update of something that is not private (it may be the caller's document, or a stored
#     patch) is refused (TieBroken) - so the deep copies the source takes are part of what is translated;
#   * objects of translated classes (Obj): attributes assigned by __init__, @property bodies inlined on access;
#   * calls of other translated functions are calls of their generated definitions (`emit_call`), a possible error being passed on
#     (`match .. with Err e => Err e | Ok x => ..`); `f(a, *l)` into a callee with two more parameters is `match l with [x; y] => ..`
#     with TypeError otherwise.
# Generated definitions return `result T` (constructors Ok / Err of the hand model or of the generated prelude) when a path raises.
STR = 'string'
UNIT = 'unit'


def TUPLE(t):
    return ('tuple', t)


def SET(t):
    return ('set', t)


def DICT(k, v):
    return ('dict', k, v)


PRELUDE3 = '''(* helpers of the translator (harness/props/tie_translate.py, third layer) *)
Fixpoint foldM {X S : Type} (f : S -> X -> result S) (l : list X) (s : S) : result S :=      (* `for x in l:` whose body may raise *)
  match l with [] => Ok s | x :: r => match f s x with Ok s' => foldM f r s' | Err e => Err e end end.
'''


def coqty3(t, num='V N'):
    if isinstance(t, tuple) and t[0] in ('tuple', 'set'):
        return 'list (%s)' % coqty3(t[1], num)
    if isinstance(t, tuple) and t[0] == 'dict':
        return 'list (%s * %s)' % (coqty3(t[1], num), coqty3(t[2], num))
    if isinstance(t, tuple) and t[0] in ('list', 'option'):
        return '%s (%s)' % (t[0], coqty3(t[1], num))
    if isinstance(t, tuple) and t[0] == 'prod':
        return '(%s * %s)' % (coqty3(t[1], num), coqty3(t[2], num))
    return coqty(t, num)


def is_seq(v):
    return isinstance(v, T) and isinstance(v.ty, tuple) and v.ty[0] in ('list', 'tuple', 'set')


def fresh_of(v):
    return getattr(v, 'fresh', 0)


def mk(s, ty, fresh=0):
    t = T(s, ty)
    t.fresh = fresh
    return t


def coq_string(s):
    if not all(32 <= ord(c) < 127 for c in s):
        raise TB('non-ASCII text literal %r' % s)
    return '"%s"%%string' % s.replace('"', '""')


class Obj:
    """object of a translated class: attributes (values), identity (a term, or None)"""

    def __init__(self, cls, attrs, ident=None):
        self.cls, self.attrs, self.ident = cls, dict(attrs), ident

    def __repr__(self):
        return 'Obj(%s)' % self.cls.name


class View:
    """a sub-dict of a record that has no record type of its own (measurement['config']): base term + the keys below it"""

    def __init__(self, base, schema):
        self.base, self.schema = base, schema


class Rec:
    """record under construction / opened for an update: fields given so far by projection name, the rest read from `base`"""

    def __init__(self, rtype, fields, base=None, fresh=1):
        self.rtype, self.fields, self.base, self.fresh = rtype, dict(fields), base, fresh


class Method:
    def __init__(self, obj, fn):
        self.obj, self.fn = obj, fn


class Exec3(Exec2):
    records = {}          # record type -> {key: (projection, type) | {key: (projection, type)}}
    rec_order = {}        # record type -> projections in constructor order
    rec_eqb = {}          # record type -> python == on two documents of that type
    rec_dflt = {}         # record type -> a default element (for nth)
    rec_open = ()         # record types with optional keys: never recognised from a dict display
    dict_types = {}       # Coq type name -> handler object with mem / get / set (see TableType)
    exc_names = {}        # python exception class -> constructor of the error type
    dflt = dict(Exec2.dflt, **{STR: '""%string'})

    def __init__(self, classes=None):
        super().__init__()
        self.classes = classes or {}        # class name -> ast.ClassDef
        self.cls = None                     # the class whose method is being translated (for self.<property>)
        self.gens = {}                      # 'function' | ('Class', 'method') -> (FunctionDef, handler(bound arguments, node, st) -> value):
                                            # functions translated on their own, called through their generated definitions

    # ---- hooks ---------------------------------------------------------------------------------------------------------------
    def loop_indexed(self, s, st):
        """the loop constructs one object per iteration: iterate over (position, element)"""
        return False

    def exc_term(self, name):
        if name.startswith('@'):
            return name[1:]
        if name in self.exc_names:
            return self.exc_names[name]
        raise TB('exception %s has no counterpart in the model' % name)

    def construct(self, cls, args, kwargs, node, st):
        raise TB('construction of a %s (line %d)' % (cls.name, node.lineno))

    def method_ext(self, base, name, args, kwargs, node, st):
        raise TB('method .%s of %r (line %d)' % (name, base, node.lineno))

    # ---- terms -----------------------------------------------------------------------------------------------------------------
    def dflt_of(self, ty):
        if ty in self.rec_dflt:
            return self.rec_dflt[ty]
        if ty == STR:
            return '""%string'
        if isinstance(ty, tuple) and ty[0] in ('tuple', 'set', 'dict'):
            return '[]'
        return super().dflt_of(ty)

    def strterm(self, v, node=None):
        if isinstance(v, T) and v.ty == STR:
            return v.s
        if isinstance(v, S) and isinstance(v.v, str):
            return coq_string(v.v)
        raise TB('a text was expected%s, got %r' % (' (line %d)' % node.lineno if node is not None else '', v))

    def is_str(self, v):
        return (isinstance(v, T) and v.ty == STR) or (isinstance(v, S) and isinstance(v.v, str))

    def flat_schema(self, sch, prefix=''):
        out = {}
        for k, e in sch.items():
            if isinstance(e, dict):
                out.update(self.flat_schema(e, prefix + k + '.'))
            else:
                out[prefix + k] = e
        return out

    def flat_dct(self, d, prefix=''):
        out = {}
        for k, v in d.items.items():
            if isinstance(v, Dct):
                out.update(self.flat_dct(v, prefix + k + '.'))
            else:
                out[prefix + k] = v
        return out

    def rec_of_dct(self, d):
        flat = self.flat_dct(d)
        hits = [r for r, sch in self.records.items() if r not in self.rec_open and set(self.flat_schema(sch)) == set(flat)]
        if len(hits) != 1:
            raise TB('a dict display with the keys %r is not one record of the model' % sorted(flat))
        sch = self.flat_schema(self.records[hits[0]])
        return Rec(hits[0], {sch[k][0]: v for k, v in flat.items()}, None, fresh=1)

    def rec_term(self, r):
        sch = {p: ty for p, ty in self.flat_schema(self.records[r.rtype]).values()}
        parts = []
        for p in self.rec_order[r.rtype]:
            if p in r.fields:
                v = self.as_typed(r.fields[p], sch[p]) if p in sch else self.as_term(r.fields[p])
                parts.append('%s := %s' % (p, v.s))
            else:
                if r.base is None:
                    raise TB('field %s of a %s is not given' % (p, r.rtype))
                parts.append('%s := (%s %s)' % (p, p, r.base.s))
        return mk('{| ' + '; '.join(parts) + ' |}', r.rtype, r.fresh)

    def as_typed(self, v, ty):
        """v as a term of type ty (empty displays take the type wanted)"""
        if isinstance(v, Lst) and not v.items and isinstance(ty, tuple) and ty[0] in ('list', 'tuple', 'set', 'dict'):
            return mk('[]', ty, 2)
        if isinstance(v, Dct) and not v.items and isinstance(ty, tuple) and ty[0] == 'dict':
            return mk('[]', ty, 2)
        t = self.as_term(v)
        if coqty3(t.ty) != coqty3(ty):
            raise TB('a %s was expected, got a %s' % (coqty3(ty), coqty3(t.ty)))
        return t

    def as_term(self, v):
        if isinstance(v, Rec):
            return self.rec_term(v)
        if isinstance(v, Dct):
            return self.rec_term(self.rec_of_dct(v))
        if isinstance(v, S) and isinstance(v.v, str):
            return mk(coq_string(v.v), STR, 2)
        if isinstance(v, Tup) and v.items and all(self.is_str(x) for x in v.items) and len(v.items) == 2:
            return mk('(%s, %s)' % tuple(self.strterm(x) for x in v.items), PROD(STR, STR), 2)
        if isinstance(v, Lst) and v.items:
            ts = [self.as_term(x) for x in v.items]
            if len({coqty3(t.ty) for t in ts}) == 1:
                return mk('[' + '; '.join(t.s for t in ts) + ']', LIST(ts[0].ty), 1)
        if isinstance(v, Obj) and v.ident is not None:
            return v.ident
        return super().as_term(v)

    def list_term(self, lst):
        if lst.items and all(self.is_str(x) for x in lst.items):
            return mk('[' + '; '.join(self.strterm(x) for x in lst.items) + ']', LIST(STR), 2)
        return super().list_term(lst)

    # ---- records -----------------------------------------------------------------------------------------------------------------
    def field(self, base, sch, key, node):
        if key not in sch:
            raise TB('key %r is not a key of %r (line %d)' % (key, base, node.lineno))
        e = sch[key]
        if isinstance(e, dict):
            return View(base, e)
        if not isinstance(e, tuple):
            return e                                   # a value given directly (documents that arrive as several Coq arguments)
        return mk('(%s %s)' % (e[0], base.s), e[1], fresh_of(base))

    def rec_get(self, r, key, node):
        sch = self.records[r.rtype]
        if key not in sch:
            raise TB('key %r is not a key of a %s (line %d)' % (key, r.rtype, node.lineno))
        e = sch[key]
        if isinstance(e, dict):
            raise TB('sub-dict %r of a record under construction (line %d)' % (key, node.lineno))
        if e[0] in r.fields:
            return r.fields[e[0]]
        if r.base is None:
            raise TB('field %s of a %s is not given (line %d)' % (e[0], r.rtype, node.lineno))
        return mk('(%s %s)' % (e[0], r.base.s), e[1], r.fresh)

    def open_rec(self, v):
        if isinstance(v, Rec):
            return Rec(v.rtype, v.fields, v.base, v.fresh)
        if isinstance(v, Dct):
            return self.rec_of_dct(v)
        if isinstance(v, T) and v.ty in self.records:
            return Rec(v.ty, {}, v, fresh_of(v))
        raise TB('%r is not a record' % (v,))

    def subscript(self, base, idx, node):
        if isinstance(idx, S) and isinstance(idx.v, str):
            if isinstance(base, T) and base.ty in self.records:
                return self.field(base, self.records[base.ty], idx.v, node)
            if isinstance(base, View):
                return self.field(base.base, base.schema, idx.v, node)
            if isinstance(base, Rec):
                return self.rec_get(base, idx.v, node)
        if isinstance(base, T) and base.ty in self.dict_types:
            return self.dict_types[base.ty].get(self, base, idx, node)
        if is_seq(base) and base.ty[0] in ('list', 'tuple'):
            el = base.ty[1]
            i = None
            if isinstance(idx, T) and idx.ty == NAT:
                i = idx.s
            elif isinstance(idx, S) and isinstance(idx.v, int) and not isinstance(idx.v, bool) and idx.v >= 0:
                i = '%d' % idx.v
            if i is not None:
                return mk('(nth %s %s %s)' % (i, base.s, self.dflt_of(el)), el, 2 if fresh_of(base) == 2 else 0)
        return super().subscript(base, idx, node)

    # ---- places: what an in-place update writes to ------------------------------------------------------------------------------------
    def resolve_place(self, e, st):
        """(root, steps): root ('env', name) | ('attr', name); steps ('key', k) | ('idx', nat term)"""
        steps = []
        while True:
            if isinstance(e, ast.Name):
                if e.id not in st.env:
                    raise TB('update of the unbound name %s (line %d)' % (e.id, e.lineno))
                return ('env', e.id), steps
            if isinstance(e, ast.Attribute) and isinstance(e.value, ast.Name) and e.value.id == 'self' and 'self' not in st.env:
                if e.attr not in st.attrs:
                    raise TB('update of the unassigned attribute self.%s (line %d)' % (e.attr, e.lineno))
                return ('attr', e.attr), steps
            if isinstance(e, ast.Subscript):
                k = self.expr(e.slice, st)
                if isinstance(k, S) and isinstance(k.v, str):
                    steps.insert(0, ('key', k.v))
                elif isinstance(k, T) and k.ty == NAT:
                    steps.insert(0, ('idx', k.s))
                elif isinstance(k, S) and isinstance(k.v, int) and not isinstance(k.v, bool) and k.v >= 0:
                    steps.insert(0, ('idx', '%d' % k.v))
                else:
                    steps.insert(0, ('dkey', k))
                e = e.value
                continue
            raise TB('in-place update of %s (line %d)' % (type(e).__name__, getattr(e, 'lineno', 0)))

    def root_get(self, root, st):
        return st.env[root[1]] if root[0] == 'env' else st.attrs[root[1]]

    def root_set(self, root, val, st):
        if root[0] == 'env':
            st.env[root[1]] = val
        else:
            st.attrs[root[1]] = val

    def set_in(self, cur, steps, val, node):
        if not steps:
            return val
        kind, k = steps[0]
        if kind == 'key':
            if isinstance(cur, (Rec, Dct)) or (isinstance(cur, T) and cur.ty in self.records):
                r = self.open_rec(cur)
                sch = self.records[r.rtype]
                path, rest = k, steps[1:]
                e = sch.get(k)
                while isinstance(e, dict):
                    if not rest or rest[0][0] != 'key':
                        raise TB('a sub-dict is replaced as a whole (line %d)' % node.lineno)
                    path, e, rest = path + '.' + rest[0][1], e.get(rest[0][1]), rest[1:]
                if e is None:
                    raise TB('key %r is not a key of a %s (line %d)' % (path, r.rtype, node.lineno))
                old = r.fields[e[0]] if e[0] in r.fields else mk('(%s %s)' % (e[0], r.base.s), e[1], r.fresh)
                new = self.set_in(old, rest, val, node)
                r.fields[e[0]] = self.as_typed(new, e[1])
                return r
            raise TB('item assignment on %r (line %d)' % (cur, node.lineno))
        if kind == 'dkey':
            if isinstance(cur, T) and cur.ty in self.dict_types and len(steps) == 1:
                return self.dict_types[cur.ty].set(self, cur, k, val, node)
            raise TB('item assignment on %r (line %d)' % (cur, node.lineno))
        if isinstance(cur, Lst):
            cur = self.as_term(cur)
        if not (is_seq(cur) and cur.ty[0] == 'list'):
            raise TB('indexed assignment on %r (line %d)' % (cur, node.lineno))
        el = mk('(nth %s %s %s)' % (k, cur.s, self.dflt_of(cur.ty[1])), cur.ty[1], 2 if fresh_of(cur) == 2 else 0)
        new = self.as_typed(self.set_in(el, steps[1:], val, node), cur.ty[1])
        return mk('(update_at %s (fun _ => %s) %s)' % (k, new.s, cur.s), cur.ty, fresh_of(cur))

    def need_private(self, rootval, depth, what, node):
        if getattr(rootval, 'aliased', False):
            raise TB('%s (line %d) writes into an object that is bound to two names: the translation follows one of them only' % (what, node.lineno))
        if isinstance(rootval, (Lst, Dct)) and not rootval.items:
            return
        if fresh_of(rootval) < min(2, depth):
            raise TB('%s (line %d) writes into an object that is not a private copy (it may be the caller\'s document or stored state): '
                     'the copy the model assumes is not taken' % (what, node.lineno))

    def update_place(self, e, val, st, node, what, extra=0):
        root, steps = self.resolve_place(e, st)
        cur = self.root_get(root, st)
        self.need_private(cur, len(steps) + extra, what, node)
        new = self.set_in(cur, steps, val, node)
        if isinstance(new, T) and not hasattr(new, 'fresh'):
            new.fresh = fresh_of(cur)
        self.root_set(root, new, st)

    # ---- expressions -------------------------------------------------------------------------------------------------------------------
    def expr(self, e, st):
        d = dump(e)
        for pd, val in self.patterns:
            if pd == d:
                return val(st) if callable(val) else val
        if isinstance(e, ast.Name) and e.id == 'self' and 'self' not in st.env and self.cls is not None:
            return Obj(self.cls, st.attrs, None)
        if isinstance(e, ast.SetComp):
            t = self.comprehension(e, st)
            t = self.as_term(t) if not isinstance(t, T) else t
            if not (is_seq(t) and t.ty[1] == STR):
                raise TB('set comprehension of something else than texts (line %d)' % e.lineno)
            return mk('(dedup %s)' % t.s, SET(STR), 2)
        if isinstance(e, ast.Tuple) and any(isinstance(x, ast.Starred) for x in e.elts):
            parts = []
            for x in e.elts:
                if not isinstance(x, ast.Starred):
                    raise TB('tuple display mixing * and elements (line %d)' % e.lineno)
                v = self.expr(x.value, st)
                if isinstance(v, (Lst, Dct)) and not v.items:
                    continue
                if isinstance(v, T) and isinstance(v.ty, tuple) and v.ty[0] == 'dict':
                    v = mk('(map fst %s)' % v.s, LIST(v.ty[1]), 1)
                if not is_seq(v):
                    raise TB('*%r in a tuple display (line %d)' % (v, e.lineno))
                parts.append(v)
            if not parts:
                return Lst([])
            if len({coqty3(p.ty[1]) for p in parts}) != 1:
                raise TB('tuple display over mixed element types (line %d)' % e.lineno)
            return mk('(' + ' ++ '.join(p.s for p in parts) + ')' if len(parts) > 1 else parts[0].s, LIST(parts[0].ty[1]), 1)
        if isinstance(e, ast.IfExp):
            c = self.test(e.test, st)
            if isinstance(c, IsNone):
                if self.pending:
                    raise TB('raising call before a conditional expression (line %d)' % e.lineno)
                var = 'x_' + (c.key[1] if c.key else 'some')
                s_none, s_some = st.copy(), st.copy()
                if c.key is not None and c.key[0] == 'name':
                    s_none.env[c.key[1]] = S(None)
                    s_some.env[c.key[1]] = mk(var, c.term.ty[1], fresh_of(c.term))
                b_none, b_some = (e.body, e.orelse) if not c.neg else (e.orelse, e.body)
                inner = c.term.ty[1]
                a = self.as_typed(self.expr(b_none, s_none), inner)
                b = self.as_typed(self.expr(b_some, s_some), inner)
                out = a if c.term.s == 'None' else mk('(match %s with None => %s | Some %s => %s end)' % (c.term.s, a.s, var, b.s), inner, min(fresh_of(a), fresh_of(b)))
                return out
        if isinstance(e, ast.Subscript) and not isinstance(e.slice, ast.Slice) and isinstance(e.value, ast.Name) and e.value.id == 'self' \
                and 'self' not in st.env and self.cls is not None:
            fn = methods(self.cls).get('__getitem__')
            if fn is None:
                raise TB('self[..] without __getitem__ (line %d)' % e.lineno)
            return self.call_method(Obj(self.cls, st.attrs, None), fn, [self.expr(e.slice, st)], {}, e, st)
        if isinstance(e, ast.Attribute) and not (isinstance(e.value, ast.Name) and e.value.id == 'self' and 'self' not in st.env):
            base = self.expr(e.value, st)
            if isinstance(base, Obj):
                return self.obj_get(base, e.attr, e, st)
            if isinstance(base, (T, View, Rec, Lst, Dct)) and not self.is_obj(base):
                return Method(base, e.attr)
            if self.is_obj(base):
                k = base.s + '\x1f' + e.attr
                if k in st.attrs:
                    return st.attrs[k]
                return self.obj_attr(base, e.attr, e, st)
            return self.attr_ext(base, e.attr, e, st)
        return super().expr(e, st)

    def self_attr(self, attr, node, st):
        if self.cls is not None:
            return self.obj_get(Obj(self.cls, st.attrs, None), attr, node, st)
        raise TB('self.%s (line %d)' % (attr, node.lineno))

    def class_member(self, cls, name):
        """(FunctionDef, is_property) of the class or of a translated base class"""
        for n in cls.body:
            if isinstance(n, ast.FunctionDef) and n.name == name:
                decs = [ast.unparse(d) for d in n.decorator_list]
                if decs not in ([], ['property'], ['classmethod']):
                    raise TB('%s.%s: decorators %r' % (cls.name, name, decs))
                return n, decs == ['property']
        for b in cls.bases:
            if isinstance(b, ast.Name) and b.id in self.classes:
                r = self.class_member(self.classes[b.id], name)
                if r is not None:
                    return r
        return None

    def single_return(self, fn):
        body = [s for s in fn.body if not (isinstance(s, ast.Expr) and isinstance(s.value, ast.Constant) and isinstance(s.value.value, str))]
        if len(body) == 1 and isinstance(body[0], ast.Return) and body[0].value is not None:
            return body[0].value
        return None

    def obj_get(self, obj, attr, node, st):
        if attr in obj.attrs:
            return obj.attrs[attr]
        m = self.class_member(obj.cls, attr)
        if m is None:
            raise TB('%s has no attribute %s (line %d)' % (obj.cls.name, attr, node.lineno))
        fn, is_prop = m
        if not is_prop:
            return Method(obj, fn)
        ret = self.single_return(fn)
        if ret is None or [a.arg for a in fn.args.args] != ['self']:
            raise TB('property %s.%s is not a single return (line %d)' % (obj.cls.name, attr, fn.lineno))
        saved = self.cls
        self.cls = obj.cls
        try:
            return self.expr(ret, St({}, obj.attrs, st.warns))
        finally:
            self.cls = saved

    def boolop(self, op, parts, node):
        # `a and False` / `a or True` with a free of effects: decided here (the branch that can never run is not translated)
        for p in parts:
            if isinstance(p, S) and not isinstance(p, IsNone):
                b = self.truth(p)
                if (op == 'And' and not b) or (op == 'Or' and b):
                    if self.pending:
                        raise TB('raising call inside and/or (line %d)' % node.lineno)
                    return S(b)
        return super().boolop(op, parts, node)

    def test(self, e, st):
        if isinstance(e, (ast.Compare, ast.BoolOp)) or (isinstance(e, ast.UnaryOp) and isinstance(e.op, ast.Not)):
            if isinstance(e, ast.BoolOp):
                vals = [self.test(v, st) for v in e.values]
                return self.boolop(type(e.op).__name__, vals, e)
            if isinstance(e, ast.UnaryOp):
                return self.not_(self.test(e.operand, st))
            return super().test(e, st)
        v = self.expr(e, st)
        if is_seq(v) or (isinstance(v, T) and isinstance(v.ty, tuple) and v.ty[0] == 'dict'):
            return T('(nonempty %s)' % v.s, BOOL)
        if isinstance(v, (Lst, Dct, Tup)):
            return S(bool(v.items))
        if isinstance(v, (S, IsNone)) or (isinstance(v, T) and v.ty == BOOL) or isinstance(v, Vec):
            return v
        raise TB('test on %r (line %d)' % (v, e.lineno))

    def compare1(self, op, a, b, node):
        opn = type(op).__name__
        neg = lambda s, n: T('(negb %s)' % s if n else s, BOOL)
        if opn in ('Eq', 'NotEq'):
            if self.is_str(a) and self.is_str(b) and not (isinstance(a, S) and isinstance(b, S)):
                return neg('(String.eqb %s %s)' % (self.strterm(a), self.strterm(b)), opn == 'NotEq')
            for x, y in ((a, b), (b, a)):
                if isinstance(x, T) and x.ty in self.rec_eqb and isinstance(y, T) and y.ty == x.ty:
                    return neg('(%s %s %s)' % (self.rec_eqb[x.ty], a.s, b.s), opn == 'NotEq')
        if opn in ('In', 'NotIn'):
            n = opn == 'NotIn'
            if isinstance(b, (Lst, Dct, Tup)) and not b.items:
                return S(n)
            if isinstance(b, T) and b.ty in self.dict_types:
                return neg(self.dict_types[b.ty].mem(self, b, a, node), n)
            if isinstance(b, Lst) and b.items and all(self.is_str(x) for x in b.items) and isinstance(a, T) and a.ty == STR:
                b = self.list_term(b)
            if self.is_str(a) and is_seq(b) and b.ty[1] == STR:
                return neg('(mem_str %s %s)' % (self.strterm(a), b.s), n)
            if self.is_str(a) and isinstance(b, T) and isinstance(b.ty, tuple) and b.ty[0] == 'dict' and b.ty[1] == STR:
                return neg('(mem_str %s (map fst %s))' % (self.strterm(a), b.s), n)
            if isinstance(a, T) and a.ty in self.rec_eqb and is_seq(b) and b.ty[1] == a.ty:
                return neg('(existsb (%s %s) %s)' % (self.rec_eqb[a.ty], a.s, b.s), n)
        return super().compare1(op, a, b, node)

    def merge(self, c, a, b):
        if isinstance(a, (Rec, Dct)) or isinstance(b, (Rec, Dct)):
            ta, tb_ = self.as_term(a), self.as_term(b)
            if coqty3(ta.ty) != coqty3(tb_.ty):
                raise TB('cannot merge a %r and a %r under a condition' % (ta.ty, tb_.ty))
            return mk('(if %s then %s else %s)' % (c, ta.s, tb_.s), ta.ty, min(fresh_of(ta), fresh_of(tb_)))
        if isinstance(a, Obj) and isinstance(b, Obj) and a is b:
            return a
        if isinstance(a, T) and isinstance(b, T) and a.ty == b.ty and a.s == b.s:
            return a if fresh_of(a) <= fresh_of(b) else b
        if isinstance(a, View) and isinstance(b, View) and a.base.s == b.base.s and a.schema is b.schema:
            return a
        if isinstance(a, Method) or isinstance(b, Method):
            raise TB('bound method merged under a condition')
        for x, y, flip in ((a, b, False), (b, a, True)):
            if isinstance(x, Lst) and not x.items and isinstance(y, T) and isinstance(y.ty, tuple) and y.ty[0] in ('list', 'set', 'tuple', 'dict'):
                out = mk('(if %s then %s else %s)' % ((c, y.s, '[]') if flip else (c, '[]', y.s)), y.ty, min(1, fresh_of(y)))
                return out
        out = super().merge(c, a, b)
        if isinstance(out, T) and out is not a and out is not b:
            out.fresh = min(fresh_of(a), fresh_of(b))
        return out

    def comprehension(self, e, st):
        out = super().comprehension(e, st)
        if isinstance(out, T):
            el = out.ty[1] if isinstance(out.ty, tuple) and len(out.ty) > 1 else None
            out.fresh = 2 if el in (STR, NAT, BOOL, NUM, ZT) or (isinstance(el, tuple) and el[0] == 'prod') else 1
        return out

    def iter_term(self, it, node):
        if isinstance(it, T) and isinstance(it.ty, tuple) and it.ty[0] in ('tuple', 'set'):
            return mk(it.s, LIST(it.ty[1]), fresh_of(it))
        if isinstance(it, T) and isinstance(it.ty, tuple) and it.ty[0] == 'dict':
            return mk('(map fst %s)' % it.s, LIST(it.ty[1]), 1)
        return super().iter_term(it, node)

    # ---- calls -------------------------------------------------------------------------------------------------------------------------
    def emit_call(self, text, ty, raises, fresh=2, base='r'):
        if not raises:
            return mk(text, ty, fresh)
        var = self.fresh_var(base)
        self.pending.append(('tpl', '(match %s with Err e => Err e | Ok %s => @@0@@ end)' % (text, var)))
        return mk(var, ty, fresh)

    def wrap_pending(self, st, k):
        pend, self.pending = self.pending, []

        def build(i):
            if i == len(pend):
                return k()
            p = pend[i]
            if p[0] == 'tpl':
                return Br2(p[1], (build(i + 1),))
            scrut, var, exc = p
            if exc is None:
                return Br2('(let %s := %s in @@0@@)' % (var, scrut), (build(i + 1),))
            return Branch('opt', scrut, (Exc(exc, st), build(i + 1)), var)
        return build(0)

    def call(self, e, st):
        f = self.expr(e.func, st)
        star = any(isinstance(a, ast.Starred) for a in e.args) or any(k.arg is None for k in e.keywords)
        if star:
            return self.call_star(f, e, st)
        args = [self.expr(a, st) for a in e.args]
        kwargs = {k.arg: self.expr(k.value, st) for k in e.keywords}
        if isinstance(f, Fun):
            return self.call_fun(f, args, kwargs, st, e)
        if isinstance(f, Clo):
            if args or kwargs:
                raise TB('call of a local function with arguments (line %d)' % e.lineno)
            return self.call_clo(f, st, e)
        if isinstance(f, Method):
            if isinstance(f.fn, str):
                return self.method(f.obj, f.fn, args, kwargs, e, st)
            return self.call_method(f.obj, f.fn, args, kwargs, e, st)
        if isinstance(f, Ext) and f.tag.startswith('class:'):
            return self.construct(self.classes[f.tag[6:]], args, kwargs, e, st)
        if isinstance(f, Ext) and f.tag.startswith('gen:'):
            return self.call_gen(f.tag[4:], args, kwargs, e, st)
        if isinstance(f, Ext):
            r = self.call_builtin(f, args, kwargs, e, st)
            if r is not None:
                return r
            return self.call_ext(f, args, kwargs, e, st)
        raise TB('call of %r (line %d)' % (f, e.lineno))

    def call_gen(self, key, args, kwargs, node, st, skip_self=False):
        fn, handler = self.gens[key]
        bound, params, extra = bind_call(fn, args, kwargs, skip_self=skip_self, what=str(key))
        if extra:
            raise TB('%s: unknown keywords (line %d)' % (key, node.lineno))
        for p, dv in defaults_of(fn).items():
            if p not in bound and p in params:
                bound[p] = self.expr(dv, St())
        if set(bound) != set(params):
            raise TB('%s: missing arguments (line %d)' % (key, node.lineno))
        out = handler(bound, node, st)
        if isinstance(out, T):
            out.from_gen = True
        return out

    def call_method(self, obj, fn, args, kwargs, node, st):
        """a method of a translated class in expression position: inlined when its body is a single return"""
        if (obj.cls.name, fn.name) in self.gens:
            return self.call_gen((obj.cls.name, fn.name), args, kwargs, node, st, skip_self=True)
        ret = self.single_return(fn)
        if ret is None:
            raise TB('%s.%s is not a single return: it cannot be inlined into an expression (line %d)' % (obj.cls.name, fn.name, node.lineno))
        bound, params, extra = bind_call(fn, args, kwargs, skip_self=True)
        if extra:
            raise TB('%s.%s: unknown keywords (line %d)' % (obj.cls.name, fn.name, node.lineno))
        for p, dv in defaults_of(fn).items():
            if p not in bound:
                bound[p] = self.expr(dv, St())
        if set(bound) != set(params):
            raise TB('%s.%s: missing arguments (line %d)' % (obj.cls.name, fn.name, node.lineno))
        saved = self.cls
        self.cls = obj.cls
        try:
            return self.expr(ret, St(bound, obj.attrs, st.warns))
        finally:
            self.cls = saved

    def method(self, base, name, args, kwargs, node, st):
        ln = node.lineno
        if isinstance(base, T) and isinstance(base.ty, tuple) and base.ty[0] == 'dict':
            if name == 'items' and not args and not kwargs:
                return mk(base.s, LIST(PROD(base.ty[1], base.ty[2])), 1)
            if name == 'keys' and not args and not kwargs:
                return mk('(map fst %s)' % base.s, LIST(base.ty[1]), 1)
            if name == 'values' and not args and not kwargs:
                return mk('(map snd %s)' % base.s, LIST(base.ty[2]), 1)
            if name == 'get' and len(args) == 2 and not kwargs and base.ty[1] == STR:
                d = self.as_typed(args[1], base.ty[2])
                return mk('(match assoc %s %s with Some y => y | None => %s end)' % (self.strterm(args[0], node), base.s, d.s), base.ty[2], 0)
        if isinstance(base, Dct) and not base.items:
            if name == 'get' and len(args) == 2 and not kwargs:
                return args[1]
            if name in ('items', 'keys', 'values') and not args and not kwargs:
                return Lst([])
        if is_seq(base) and name == 'index' and len(args) == 1 and not kwargs and base.ty[1] == STR:
            return T('(index_of %s %s)' % (self.strterm(args[0], node), base.s), NAT)
        if isinstance(base, T) and base.ty == SET(STR) and name == 'intersection' and len(args) == 1 and not kwargs and is_seq(args[0]) and args[0].ty[1] == STR:
            return mk('(filter (fun n => mem_str n %s) %s)' % (args[0].s, base.s), SET(STR), 2)
        if isinstance(base, T) and base.ty == 'counter' and name == 'items' and not args and not kwargs:
            return mk('(map (fun n => (n, count_str n %s)) (dedup %s))' % (base.s, base.s), LIST(PROD(STR, NAT)), 2)
        return self.method_ext(base, name, args, kwargs, node, st)

    def call_builtin(self, f, args, kwargs, e, st):
        tag = f.tag
        if tag == 'copy.deepcopy' and len(args) == 1 and not kwargs:
            v = args[0]
            if isinstance(v, T):
                return mk(v.s, v.ty, 2)
            if isinstance(v, Rec):
                return Rec(v.rtype, v.fields, v.base, 2)
            if isinstance(v, (Lst, Dct)) and not v.items:
                return v
            raise TB('deepcopy of %r (line %d)' % (v, e.lineno))
        if tag == 'dict':
            if not args and not kwargs:
                return Dct({})
            if len(args) == 1:
                v = args[0]
                if isinstance(v, Obj) and v.ident is not None and not kwargs:
                    v = v.ident
                if isinstance(v, (Rec, Dct)) or (isinstance(v, T) and v.ty in self.records):
                    r = self.open_rec(v)
                    r.fresh = 1
                    sch = self.records[r.rtype]
                    for k, x in kwargs.items():
                        if k not in sch or isinstance(sch[k], dict):
                            raise TB('dict(.., %s=..) on a %s (line %d)' % (k, r.rtype, e.lineno))
                        r.fields[sch[k][0]] = self.as_typed(x, sch[k][1])
                    return self.rec_term(r) if r.base is not None else r
                if not kwargs and is_seq(v) and v.ty[1] == PROD(STR, STR):
                    return mk('(dict_of_pairs %s)' % v.s, DICT(STR, STR), 2)
            raise TB('dict(..) (line %d)' % e.lineno)
        if tag == 'list' and len(args) == 1 and not kwargs and isinstance(args[0], T) and isinstance(args[0].ty, tuple) and args[0].ty[0] in ('list', 'set', 'tuple'):
            return mk(args[0].s, LIST(args[0].ty[1]), max(1, min(fresh_of(args[0]), 2)) if args[0].ty[1] in (STR, NAT) else 1)
        if tag == 'tuple' and len(args) == 1 and not kwargs and is_seq(args[0]):
            return mk(args[0].s, TUPLE(args[0].ty[1]), 2)
        if tag == 'len' and len(args) == 1 and not kwargs and isinstance(args[0], T) and isinstance(args[0].ty, tuple) and args[0].ty[0] in ('list', 'set', 'tuple', 'dict'):
            return T('(length %s)' % args[0].s, NAT)
        if tag == 'isinstance' and len(args) == 2 and not kwargs and isinstance(args[1], Ext) and args[1].tag in ('list', 'tuple', 'str'):
            v = args[0]
            kind = None
            if isinstance(v, T) and isinstance(v.ty, tuple) and v.ty[0] in ('list', 'tuple'):
                kind = v.ty[0]
            elif self.is_str(v):
                kind = 'str'
            elif isinstance(v, T) and v.ty in ('pyother',):
                kind = 'other'
            if kind is None:
                raise TB('isinstance of %r (line %d)' % (v, e.lineno))
            return S(kind == args[1].tag)
        if tag == 'collections.Counter' and len(args) == 1 and not kwargs and is_seq(args[0]) and args[0].ty[1] == STR:
            return mk(args[0].s, 'counter', 2)
        if tag == 'set' and len(args) == 1 and not kwargs and is_seq(args[0]) and args[0].ty[1] == STR:
            return mk('(dedup %s)' % args[0].s, SET(STR), 2)
        return super().call_builtin(f, args, kwargs, e, st)

    def attr_ext(self, base, attr, node, st):
        if isinstance(base, Ext) and base.tag in ('copy', 'collections') and attr in ('deepcopy', 'Counter'):
            return Ext(base.tag + '.' + attr)
        return super().attr_ext(base, attr, node, st)

    # ---- statements ------------------------------------------------------------------------------------------------------------------------
    def assign(self, target, val, st, node):
        if isinstance(target, ast.Subscript):
            self.update_place(target, val, st, node, 'the item assignment')
            return
        if isinstance(target, ast.Name) and isinstance(getattr(node, 'value', None), ast.Name) and isinstance(val, (T, Rec, Lst, Dct)) \
                and not (isinstance(val, T) and val.ty in (STR, NAT, BOOL, NUM, ZT)):
            try:
                val.aliased = True                   # a second name for the same mutable object
            except AttributeError:
                pass
        if isinstance(target, ast.Name) and isinstance(val, (Obj, View, Rec, Method)):
            st.env[target.id] = val
            return
        if isinstance(target, ast.Attribute) and isinstance(target.value, ast.Name) and target.value.id == 'self' and 'self' not in st.env:
            st.attrs[target.attr] = val
            return
        super().assign(target, val, st, node)

    def mutator(self, e, st):
        """expression statements that update a place: l.append(x), l.sort(key=..), d.setdefault(k, []).append(x)"""
        if not (isinstance(e, ast.Call) and isinstance(e.func, ast.Attribute)):
            return False
        m, tgt = e.func.attr, e.func.value
        if m == 'append' and len(e.args) == 1 and not e.keywords:
            if isinstance(tgt, ast.Call) and isinstance(tgt.func, ast.Attribute) and tgt.func.attr == 'setdefault' and len(tgt.args) == 2 \
                    and not tgt.keywords and isinstance(tgt.args[1], ast.List) and not tgt.args[1].elts:
                root, steps = self.resolve_place(tgt.func.value, st)
                cur = self.root_get(root, st)
                k = self.strterm(self.expr(tgt.args[0], st), e)
                x = self.as_term(self.expr(e.args[0], st))
                if isinstance(cur, Dct) and not cur.items and not steps:
                    cur = mk('[]', DICT(STR, LIST(x.ty)), 2)
                if steps or not (isinstance(cur, T) and cur.ty == DICT(STR, LIST(x.ty))):
                    raise TB('setdefault(..).append on %r (line %d)' % (cur, e.lineno))
                self.need_private(cur, 1, 'setdefault(..).append', e)
                self.root_set(root, mk('(dl_append %s %s %s)' % (cur.s, k, x.s), cur.ty, 1), st)
                return True
            root, steps = self.resolve_place(tgt, st)
            cur = self.expr(tgt, st)
            x = self.expr(e.args[0], st)
            if isinstance(x, Obj) and x.ident is not None:
                x = x.ident
            if isinstance(cur, Lst) and not cur.items:
                xt = self.as_term(x)
                new = mk('[%s]' % xt.s, LIST(xt.ty), 2 if (fresh_of(xt) == 2 or xt.ty in (STR, NAT)) else 1)
            else:
                if isinstance(cur, Lst):
                    cur = self.as_term(cur)
                if not (is_seq(cur) and cur.ty[0] == 'list'):
                    raise TB('append to %r (line %d)' % (cur, e.lineno))
                xt = self.as_typed(x, cur.ty[1])
                lvl = fresh_of(self.root_get(root, st)) if not steps else fresh_of(cur)
                new = mk('(%s ++ [%s])' % (cur.s, xt.s), cur.ty, min(lvl, 2 if (fresh_of(xt) == 2 or xt.ty in (STR, NAT) or (isinstance(xt.ty, tuple) and xt.ty[0] == 'prod')) else 1))
            rootval = self.root_get(root, st)
            self.need_private(rootval, len(steps) + 1, '.append', e)
            newroot = self.set_in(rootval, steps, new, e) if steps else new
            self.root_set(root, newroot, st)
            return True
        if m == 'sort' and not e.args and [k.arg for k in e.keywords] == ['key']:
            cur = self.expr(tgt, st)
            if isinstance(cur, Lst):
                cur = self.as_term(cur)
            if not (is_seq(cur) and cur.ty[0] == 'list'):
                raise TB('sort of %r (line %d)' % (cur, e.lineno))
            kf = self.expr(e.keywords[0].value, st)
            if not isinstance(kf, Fun) or len(kf.params) != 1:
                raise TB('sort key is not a one-argument function (line %d)' % e.lineno)
            var = self.fresh_var('e')
            kv = self.call_fun(kf, [mk(var, cur.ty[1], 0)], {}, st, e)
            if self.is_str(kv):
                new = '(ssort (fun %s => %s) %s)' % (var, self.strterm(kv), cur.s)
            elif isinstance(kv, Tup) and len(kv.items) == 2 and all(self.is_str(x) for x in kv.items):
                new = '(psort (fun %s => (%s, %s)) %s)' % (var, self.strterm(kv.items[0]), self.strterm(kv.items[1]), cur.s)
            else:
                raise TB('sort key %r (line %d)' % (kv, e.lineno))
            self.update_place(tgt, mk(new, cur.ty, fresh_of(cur)), st, e, '.sort', extra=1)
            return True
        return False

    def effect_stmt(self, e, st):
        """hook: expression statements with a meaning of their own; True when handled"""
        return False

    def effect_call(self, e, st):
        v = self.expr(e, st)
        if isinstance(v, T) and getattr(v, 'from_gen', False):
            return                                                # a translated function called for its possible error only
        raise TB('expression statement (line %d)' % e.lineno)

    def expr_stmt(self, e, st):
        if self.mutator(e, st):
            return
        if self.effect_stmt(e, st):
            return
        if isinstance(e, ast.Call) and isinstance(e.func, ast.Attribute):
            base = e.func.value
            if isinstance(base, ast.Name) and base.id == 'log' and e.func.attr in ('info', 'debug') and isinstance(self.expr(base, st), Ext):
                return                                            # logging below warning level: not an observable
        super().expr_stmt(e, st)

    def stmt(self, s, st, rest):
        if isinstance(s, ast.AnnAssign) and s.value is not None and s.simple in (0, 1):
            n = ast.Assign(targets=[s.target], value=s.value)
            ast.copy_location(n, s)
            return super().stmt(n, st, rest)
        if isinstance(s, ast.Try):
            simple_assert = (len(s.body) == 1 and isinstance(s.body[0], ast.Assert))
            if not simple_assert:
                if len(s.handlers) != 1 or s.orelse or s.finalbody or s.handlers[0].name is not None:
                    raise TB('try statement shape (line %d)' % s.lineno)
                ty = s.handlers[0].type
                cname = ty.id if isinstance(ty, ast.Name) else ty.attr if isinstance(ty, ast.Attribute) else None
                if cname is None:
                    raise TB('try statement: handler type (line %d)' % s.lineno)
                self.pending = []
                o = self.block(s.body, st.copy())

                def k(leaf):
                    if isinstance(leaf, Exc) and leaf.name == cname:
                        return self.block(s.handlers[0].body, leaf.st.copy())
                    return leaf
                o = map_leaves(o, k)
                return self.cont(o, rest)
        return super().stmt(s, st, rest)

    # ---- loops ---------------------------------------------------------------------------------------------------------------------------------
    MUTATORS = ('append', 'sort', 'extend', 'update', 'setdefault', 'pop', 'insert', 'remove', 'clear', 'add')

    def root_of(self, e):
        while True:
            if isinstance(e, ast.Name):
                return ('env', e.id)
            if isinstance(e, ast.Attribute) and isinstance(e.value, ast.Name) and e.value.id == 'self':
                return ('attr', e.attr)
            if isinstance(e, (ast.Subscript, ast.Attribute)):
                e = e.value
            elif isinstance(e, ast.Call) and isinstance(e.func, ast.Attribute):
                e = e.func.value
            else:
                return None

    def mutated_roots(self, body):
        out = []

        def add(r):
            if r is not None and r not in out:
                out.append(r)
        for stmt_ in body:
            for n in ast.walk(stmt_):
                if isinstance(n, (ast.Assign, ast.AugAssign, ast.AnnAssign)):
                    tgts = n.targets if isinstance(n, ast.Assign) else [n.target]
                    for t in tgts:
                        for x in (t.elts if isinstance(t, (ast.Tuple, ast.List)) else [t]):
                            add(self.root_of(x))
                elif isinstance(n, ast.For):
                    for x in ast.walk(n.target):
                        if isinstance(x, ast.Name):
                            add(('env', x.id))
                elif isinstance(n, ast.Call) and isinstance(n.func, ast.Attribute) and n.func.attr in self.MUTATORS:
                    add(self.root_of(n.func.value))
                elif isinstance(n, (ast.NamedExpr, ast.Delete, ast.With, ast.Global, ast.Nonlocal)):
                    raise TB('statement %s inside a loop (line %d)' % (type(n).__name__, n.lineno))
        return out

    def for_stmt(self, s, st, rest):
        b = s.body
        if not s.orelse and len(b) == 1 and isinstance(b[0], ast.If) and not b[0].orelse and len(b[0].body) == 1 and isinstance(b[0].body[0], ast.Raise):
            return self.find_first_loop(s, st, rest)
        if s.orelse:
            raise TB('for .. else (line %d)' % s.lineno)
        roots = self.mutated_roots(s.body)
        tnames = [n.id for n in ast.walk(s.target) if isinstance(n, ast.Name)]
        if any(r == ('env', t) for r in roots for t in tnames):
            if len(tnames) != 1 or [r for r in roots if r[0] == 'attr' or (r[1] not in tnames and r[1] in st.env)]:
                raise TB('loop (line %d) updates its loop variable and other state' % s.lineno)
            return self.map_loop(s, st, rest, tnames[0])
        return self.fold_loop(s, st, rest, roots, tnames)

    def find_first_loop(self, s, st, rest):
        """for pat in it: if c: raise E(..)   (as Exec2.for_stmt; an empty static sequence runs no iteration)"""
        itv = self.expr(s.iter, st)
        if isinstance(itv, (Lst, Tup, Dct)) and not itv.items:
            return None
        it = self.iter_term(itv, s)
        names = [n.id for n in ast.walk(s.target) if isinstance(n, ast.Name)]
        var = 'x_' + '_'.join(names)
        st2 = st.copy()
        self.bind_pattern(s.target, mk(var, it.ty[1], 0), st2, s)
        c = self.test(s.body[0].test, st2)
        if isinstance(c, (S, IsNone, Vec)):
            raise TB('for loop: test (line %d)' % s.lineno)
        exc = self.block(s.body[0].body, st2)
        tpl = '(match find_first (fun %s => %s) %s with Some %s => @@0@@ | None => @@1@@ end)' % (var, self.boolterm(c), it.s, var)
        return Br2(tpl, (exc, self.block(rest, st)))

    def map_loop(self, s, st, rest, tname):
        """for x in place: <updates of x in place>      ==      place[:] = [x' for x in place]"""
        root, steps = self.resolve_place(s.iter, st)
        cur = self.expr(s.iter, st)
        if not (is_seq(cur) and cur.ty[0] == 'list'):
            raise TB('loop over %r (line %d)' % (cur, s.lineno))
        rootval = self.root_get(root, st)
        self.need_private(rootval, 2, 'the loop updating the elements of a list', s)
        var = self.fresh_var(tname)
        st2 = st.copy()
        st2.env[tname] = mk(var, cur.ty[1], 2)
        o = self.block(s.body, st2)
        if not isinstance(o, Fall):
            raise TB('loop (line %d): the body branches, returns or raises' % s.lineno)
        for k, v in st.env.items():
            if k != tname and o.st.env.get(k) is not v:
                raise TB('loop (line %d) updates %s besides its loop variable' % (s.lineno, k))
        if o.st.attrs != st.attrs:
            raise TB('loop (line %d) updates self besides its loop variable' % s.lineno)
        new = self.as_typed(o.st.env[tname], cur.ty[1])
        newlist = mk('(map (fun %s => %s) %s)' % (var, new.s, cur.s), cur.ty, fresh_of(cur))
        st3 = st.copy()
        self.root_set(root, self.set_in(rootval, steps, newlist, s) if steps else newlist, st3)
        st3.env.pop(tname, None)
        return st3

    def fold_loop(self, s, st, rest, roots, tnames):
        itv = self.expr(s.iter, st)
        if self.pending:
            raise TB('raising call in the sequence of a loop (line %d)' % s.lineno)
        if isinstance(itv, (Lst, Tup, Dct)) and not itv.items:
            return None
        it = self.iter_term(itv, s)
        indexed = self.loop_indexed(s, st)
        state = [r for r in roots if (r[0] == 'env' and r[1] in st.env and r[1] not in tnames) or (r[0] == 'attr' and r[1] in st.attrs)]
        temps = [r[1] for r in roots if r[0] == 'env' and r[1] not in st.env]
        init = [self.root_get(r, st) for r in state]
        xvar, svar = self.fresh_var('x'), self.fresh_var('s')

        def run(vals):
            st2 = st.copy()
            for r, v in zip(state, vals):
                self.root_set(r, v, st2)
            elt = mk('(snd %s)' % xvar if indexed else xvar, it.ty[1], 0)
            if indexed:
                st2.env['\x00index'] = T('(fst %s)' % xvar, NAT)
            self.bind_pattern(s.target, elt, st2, s)
            saved = self.nvar
            o = self.block(s.body, st2)
            return o, saved

        def leaves(o):
            if isinstance(o, Branch):
                return [l for c in o.cases for l in leaves(c)]
            return [o]
        # types (and privacy levels) of the state: displays that are still empty before the loop take the type the body gives them
        tys, lv = [None] * len(state), [fresh_of(v) if isinstance(v, (T, Rec)) else 2 for v in init]
        for rnd in range(4):
            vals = []
            for i, (r, v) in enumerate(zip(state, init)):
                if tys[i] is None and isinstance(v, T):
                    tys[i] = v.ty
                if tys[i] is None:
                    vals.append(v)                      # still an empty display: discovery round
                else:
                    vals.append(mk(self.comp(svar, i, len(state)), tys[i], lv[i]))
            nv0 = self.nvar
            o, _ = run(vals)
            changed = False
            for l in leaves(o):
                if isinstance(l, Ret):
                    raise TB('return inside a loop (line %d)' % s.lineno)
                if isinstance(l, Fall):
                    for i, r in enumerate(state):
                        v = self.root_get(r, l.st)
                        if isinstance(v, (Lst, Dct)) and not v.items:
                            continue
                        v = v if isinstance(v, T) else self.as_term(v)
                        if tys[i] is None:
                            tys[i], changed = v.ty, True
                        elif coqty3(v.ty) != coqty3(tys[i]):
                            raise TB('loop (line %d): %s changes type' % (s.lineno, r[1]))
                        if fresh_of(v) < lv[i]:
                            lv[i], changed = fresh_of(v), True
            if not changed:
                break
            self.nvar = nv0
        else:
            raise TB('loop (line %d): the state does not settle' % s.lineno)
        if any(t is None for t in tys):
            raise TB('loop (line %d): the type of %s is not determined' % (s.lineno, [r[1] for r, t in zip(state, tys) if t is None]))
        raising = self.raises(o)

        def tuple_of(l_st):
            comps = []
            for r, ty in zip(state, tys):
                comps.append(self.as_typed(self.root_get(r, l_st), ty).s)
            return self.tup(comps)

        def leaf(l):
            if isinstance(l, Exc):
                return '(Err %s)' % self.exc_term(l.name)
            return ('(Ok %s)' if raising else '%s') % tuple_of(l.st)
        body = render2(o, leaf)
        inits = self.tup([self.as_typed(v, ty).s for v, ty in zip(init, tys)])
        seq_ = '(combine (seq 0 (length %s)) %s)' % (it.s, it.s) if indexed else it.s
        rvar = self.fresh_var('r')
        st3 = st.copy()
        for i, (r, ty) in enumerate(zip(state, tys)):
            self.root_set(r, mk(self.comp(rvar, i, len(state)), ty, lv[i]), st3)
        for t in temps + tnames:
            st3.env.pop(t, None)
        if raising:
            tpl = '(match foldM (fun %s %s => %s) %s %s with Err e => Err e | Ok %s => @@0@@ end)' % (svar, xvar, body, seq_, inits, rvar)
        else:
            tpl = '(let %s := fold_left (fun %s %s => %s) %s %s in @@0@@)' % (rvar, svar, xvar, body, seq_, inits)
        return Br2(tpl, (self.block(rest, st3),))

    def tup(self, xs):
        if not xs:
            return 'tt'
        return xs[0] if len(xs) == 1 else '(' + ', '.join(xs) + ')'

    def comp(self, var, i, n):
        """component i of the left-nested n-tuple var"""
        if n == 1:
            return var
        cur = var
        for _ in range(n - 1 - i):
            cur = '(fst %s)' % cur
        return cur if i == 0 else '(snd %s)' % cur

    # ---- rendering ---------------------------------------------------------------------------------------------------------------------------
    def raises(self, o):
        if isinstance(o, Br2):
            return '(Err ' in o.scrut or 'Err e' in o.scrut or any(self.raises(c) for c in o.cases)
        if isinstance(o, Branch):
            return any(self.raises(c) for c in o.cases)
        return isinstance(o, Exc)

    def render_fn(self, o, ty=None, fall=None):
        """(Coq term, raises): the outcome tree of a function body; `fall` is what a path that ends without return gives"""
        r = self.raises(o)

        def leaf(l):
            if isinstance(l, Exc):
                return '(Err %s)' % self.exc_term(l.name)
            if isinstance(l, Fall):
                if fall is None:
                    raise TB('a path ends without a return')
                t = fall(l.st)
            else:
                t = self.as_typed(l.val, ty) if ty is not None else self.as_term(l.val)
            return '(Ok %s)' % t.s if r else t.s
        return render2(o, leaf), r
