"""C01 - expected event rates follow the HistFactory rate formula."""
import copy
import json

from harness import core, engine

BACKENDS = [('numpy', '64b'), ('jax', '64b'), ('pytorch', '64b'), ('tensorflow', '64b'),
            ('numpy', '32b'), ('jax', '32b'), ('pytorch', '32b'), ('tensorflow', '32b')]
SETTINGS = [dict(normsys=a, histosys=b) for a in ('code1', 'code4') for b in ('code0', 'code2', 'code4p')]


def set_backend(name, prec):
    import pyhf
    pyhf.set_backend(name, precision=prec)


def thetas_of(cfg, pars):
    return [(n, pars[a:b]) for n, (a, b) in zip(cfg['par_order'], cfg['par_slices'])]


def thetas_to_coq(tb):
    return core.clist(tb, lambda e: '(%s, %s)' % (core.cstr(e[0]), engine.qlist(e[1])))


def gen_cases(ctx, n):
    rng = ctx.rng
    cases = []
    for i in range(n):
        spec, poi = engine.gen_spec(rng)
        st = dict(rng.choice(SETTINGS))
        r = rng.random()
        if r < 0.15:
            st['clip_bin'] = engine.dy(rng, 0, 5)
        elif r < 0.3:
            st['clip_sample'] = 0.0 if rng.random() < 0.5 else -1.0       # c <= 0 (the guard of clip_order)
        elif r < 0.36:
            st['clip_sample'] = engine.dy(rng, 0.25, 3)                    # positive per-sample clip (see known finding)
        cases.append(dict(spec=spec, poi=poi, st=st))
    return cases


def observe_impl(case, points_fn, backend=('numpy', '64b')):
    """build under numpy (configuration), evaluate at the points under `backend`"""
    import pyhf
    set_backend(*backend)
    before = copy.deepcopy(case['spec'])
    try:
        m = engine.impl_build(case['spec'], case['poi'], case['st'])
    except Exception as e:
        return dict(build=core.exc_enum(e), msg=str(e)[:200])
    cfg = engine.impl_config(m)
    out = dict(build='ok', cfg=cfg, mutated=case['spec'] != before)
    pts = points_fn(cfg)
    ev = []
    for pars in pts:
        try:
            exp = [float(x) for x in engine.tolist(m.expected_actualdata(pars))]
            bys = [[float(x) for x in row] for row in engine.tolist(m.main_model.expected_data(pyhf.tensorlib.astensor(pars), return_by_sample=True))]
            ev.append(dict(expected=exp, by_sample=bys))
        except Exception as e:
            ev.append(dict(error=core.exc_enum(e), msg=str(e)[:200]))
    out['points'] = pts
    out['evals'] = ev
    return out


def present_cells(spec, cfg):
    """(sample row index, global bin index) pairs of cells where the sample exists in the channel"""
    cells = set()
    by_name = {c['name']: c for c in spec['channels']}
    for (cn, a, b) in cfg['slices']:
        for s in by_name[cn]['samples']:
            r = cfg['samples'].index(s['name'])
            for g in range(a, b):
                cells.add((r, g))
    return cells


def has_absent_sample(spec, cfg):
    return any(len(c['samples']) < len(cfg['samples']) for c in spec['channels'])


def run(ctx):
    rng = ctx.rng
    ok, txt = core.prove(ctx, extra=['EngineRun.vo'])
    import logging
    logging.getLogger('pyhf').setLevel(logging.ERROR)
    tie = None if ok else 'proof obligations of props/C01.v no longer check: ' + txt[-1500:]
    ctx.trusted += ['interpolation functions are parameters of the engine (property C03); for execution the additive codes are '
                    'exact Qc polynomials and the multiplicative codes exact Qc powers at integer alpha (coq/InterpQ.v)',
                    'tensor kernels (einsum, where, gather, tile, sum/product) modelled by their meaning on lists']
    ncases = ctx.n(160, 2500)
    npts = 3
    cases = gen_cases(ctx, ncases)
    # corpus first
    import glob, os
    for f in sorted(glob.glob(os.path.join(core.VERIF, 'corpus', 'C01', '*.json'))):
        cases.insert(0, json.load(open(f)))
    extra_backends = [BACKENDS[(ctx.seed + 1) % 3 + 1]] if ctx.quick else BACKENDS[1:]
    stats = dict(built=0, by_types={}, clip=0, backends={}, absent_sample_specs=0)
    sigs = set()
    exprs, refexprs, impls = [], [], []
    for case in cases:
        prng = core.random.Random(rng.randrange(1 << 30))
        im = observe_impl(case, lambda cfg: case.get('points') or [engine.gen_point(prng, case['spec'], cfg) for _ in range(npts)])
        impls.append(im)
        if im['build'] != 'ok':
            exprs.append('run_build %s' % engine.spec_to_coq(case['spec'], case['poi']))
            refexprs.append(None)
            continue
        cfg = im['cfg']
        pts = im['points']
        data0 = [0.0] * (cfg['nmaindata'] + cfg['nauxdata'])
        exprs.append(engine.case_expr(case['spec'], case['poi'], case['st'], [(p, data0) for p in pts]))
        refexprs.append('run_ref [] %s %s %s' % (engine.spec_to_coq(case['spec'], case['poi']), engine.settings_to_coq(case['st']),
                                                 core.clist([thetas_of(cfg, p) for p in pts], thetas_to_coq)))
    layout_bad = 0
    try:
        lres = core.coq_eval(ctx, 'layout', engine.HEADER, ['run_layout %s' % engine.spec_to_coq(c['spec'], c['poi']) for c in cases], shard=40)
        for c, im, r in zip(cases, impls, lres):
            if im['build'] == 'ok' and 'layout-ok' not in r:
                layout_bad += 1
                ctx.coverage.setdefault('first_disagreement', dict(case=c, what='cross-check of C01_accepted_layout_bool (layout_okb): ' + r))
                tie = tie or ('premise layout_okb of the refinement theorem is false on a generated model: ' + r)
    except core.CoqEvalError as e:
        tie = tie or ('model evaluation failed: ' + str(e)[-1200:])
    try:
        res = core.coq_eval(ctx, 'impl', engine.HEADER, exprs, shard=20)
        refidx = [i for i, e in enumerate(refexprs) if e is not None]
        refres = core.coq_eval(ctx, 'ref', engine.HEADER, [refexprs[i] for i in refidx], shard=20)
        refmap = dict(zip(refidx, refres))
    except core.CoqEvalError as e:
        res = None
        tie = tie or ('model evaluation failed: ' + str(e)[-1200:])
    found = False
    ndis = 0
    evaluations = 0
    for i, (case, im) in enumerate(zip(cases, impls)):
        spec, st = case['spec'], case['st']
        if im.get('mutated'):
            ctx.violation('model-mutates-spec', 'pyhf.Model modified the caller\'s specification', dict(case=case))
            found = True
        if im['build'] != 'ok':
            # generated specs are well-formed: a refusal is a violation of the property's premise handling
            ctx.violation('wellformed-refused:' + im['build'], 'well-formed specification refused: %s %s' % (im['build'], im.get('msg')),
                          dict(case=case, impl=im, theorem='C01_expected_data_refines (build succeeds on wf specs)'))
            found = True
            continue
        stats['built'] += 1
        for t in {m['type'] for c in spec['channels'] for s in c['samples'] for m in s['modifiers']}:
            stats['by_types'][t] = stats['by_types'].get(t, 0) + 1
        if engine.nontrivial(spec):
            sigs.add(engine.shape_signature(spec) + json.dumps(st, sort_keys=True))
        absent = has_absent_sample(spec, im['cfg'])
        stats['absent_sample_specs'] += absent
        if res is None:
            continue
        mo = engine.decode_case(res[i])
        ref = [engine.to_frac_list(r) for r in core.parse_qc(refmap[i])]
        cells = present_cells(spec, im['cfg'])
        case_dis = []
        if mo['build'] != 'ok':
            case_dis.append(('build', 'ok', mo['build']))
        else:
            case_dis += [d for d in engine.diff_config(im['cfg'], mo) if d[0] in ('channels', 'samples', 'modifiers', 'nbins', 'slices', 'par_order', 'par_slices', 'npars')]
        for j, (pars, ev) in enumerate(zip(im['points'], im['evals'])):
            evaluations += 1
            if 'error' in ev:
                ctx.violation('eval-error:' + ev['error'], 'expected data evaluation failed on a well-formed model: ' + ev['msg'],
                              dict(case=case, pars=pars, impl=ev))
                found = True
                continue
            # (a) the property itself: implementation against the reference template (Ref evaluated in Coq)
            pos_clip = st.get('clip_sample') is not None and st['clip_sample'] > 0 and absent
            bad_ref = engine.diff_vec('expected_actualdata', ev['expected'], ref[j])
            if bad_ref:
                sig = 'clip-sample-positive-absent-sample' if pos_clip else 'rate-formula'
                ctx.violation(sig, 'expected rates differ from the HistFactory rate formula' +
                              (' (positive per-sample clip applied to samples absent from a channel)' if pos_clip else ''),
                              dict(case=case, pars=pars, impl=ev['expected'], expected=[float(x) for x in ref[j]],
                                   theorem='C01_expected_data_refines', backend='numpy'))
                found = found or not pos_clip
            # (b) correspondence with the transcription of the code
            if mo['build'] == 'ok':
                me = mo['evals'][j]
                d = engine.diff_vec('expected_actualdata', ev['expected'], me['expected'])
                rows_ok = len(ev['by_sample']) == len(me['by_sample']) and all(
                    len(a) == len(b) for a, b in zip(ev['by_sample'], me['by_sample']))
                if not rows_ok:
                    d.append(('by_sample-shape', [len(r) for r in ev['by_sample']], [len(r) for r in me['by_sample']]))
                else:
                    for (r, g) in cells:
                        if not core.close(me['by_sample'][r][g], ev['by_sample'][r][g], 1e-9, 1e-11):
                            d.append(('by_sample[%d][%d]' % (r, g), ev['by_sample'][r][g], float(me['by_sample'][r][g])))
                            break
                case_dis += d
        if case_dis:
            ndis += 1
            if ndis <= 3:
                ctx.notes.append('model/implementation disagreement: %r' % (case_dis[:3],))
            if not found:
                tie = tie or ('model and implementation disagree: %r' % (case_dis[:2],))
                ctx.coverage.setdefault('first_disagreement', dict(case=case, diffs=[(a, b if not isinstance(b, list) else b[:8], c if not isinstance(c, list) else c[:8]) for a, b, c in case_dis[:4]]))
    # other backends: the same expected rates (within the precision's tolerance) as the reference
    nb = 0
    for be in extra_backends:
        rtol = 1e-9 if be[1] == '64b' else 2e-3
        sub = [i for i in range(len(cases)) if impls[i]['build'] == 'ok'][: ctx.n(25, 400)]
        for i in sub:
            case = cases[i]
            st = case['st']
            pts = impls[i]['points']
            im = observe_impl(case, lambda cfg: pts, backend=be)
            nb += 1
            stats['backends']['%s-%s' % be] = stats['backends'].get('%s-%s' % be, 0) + 1
            if res is None or im['build'] != 'ok':
                if im['build'] != 'ok':
                    ctx.violation('backend-build:%s' % be[0], 'model construction fails under backend %s/%s: %s' % (be + (im['build'],)), dict(case=case, backend=be))
                    found = True
                continue
            ref = [engine.to_frac_list(r) for r in core.parse_qc(refmap[i])]
            absent = has_absent_sample(case['spec'], im['cfg'])
            for j, ev in enumerate(im['evals']):
                evaluations += 1
                if 'error' in ev:
                    ctx.violation('eval-error:%s:%s' % (be[0], ev['error']), 'evaluation failed under %s/%s: %s' % (be + (ev['msg'],)), dict(case=case, pars=pts[j], backend=be))
                    found = True
                    continue
                pos_clip = st.get('clip_sample') is not None and st['clip_sample'] > 0 and absent
                if engine.diff_vec('e', ev['expected'], ref[j], rtol, 1e-6 if be[1] == '32b' else 1e-11) and not pos_clip:
                    ctx.violation('rate-formula:%s-%s' % be, 'expected rates under backend %s/%s differ from the rate formula' % be,
                                  dict(case=case, pars=pts[j], impl=ev['expected'], expected=[float(x) for x in ref[j]], backend=be,
                                       theorem='C01_expected_data_refines'))
                    found = True
    set_backend('numpy', '64b')
    if tie and not found:
        ctx.violation('tie-broken', tie[:300], dict(kind='tie', detail=tie, theorem='props/C01.v / Impl correspondence',
                                                     first_disagreement=ctx.coverage.get('first_disagreement')), nofail=True)
    ctx.coverage.update(evaluations=evaluations, distinct_nontrivial=len(sigs),
                        rule='specs: 1-4 channels x 1-4 bins, 2-5 pooled samples with ragged presence, random subsets of the seven modifier '
                             'types with names from small pools (sharing across samples/channels/types), measurement overrides; 6 interpolation '
                             'settings; clip off / per-bin / per-sample; 3 parameter points per spec from the regime grid, breakpoint '
                             'neighbours and random dyadics (integer alpha for normsys). non-trivial = >=2 channels or samples, >=1 modifier '
                             'acting on a strict subset of cells; distinct = distinct shape signature + settings',
                        stats=stats, cases=len(cases), model_impl_disagreements=ndis, backend_runs=nb, layout_premise_false=layout_bad,
                        samples=[dict(spec=cases[0]['spec'], settings=cases[0]['st'], pars=impls[0].get('points', [None])[0],
                                      impl_expected=(impls[0].get('evals') or [{}])[0].get('expected'))])


def replay(body):
    case = body['case']
    pars = body.get('pars')
    be = tuple(body.get('backend') or ('numpy', '64b'))
    im = observe_impl(case, lambda cfg: [pars] if pars else [cfg['inits']], backend=be)
    print(json.dumps(dict(build=im['build'], evals=im.get('evals'), expected=body.get('expected')), indent=1, default=str))
    return 0
