"""C18 - tie to the source: the value-level functions of pyhf/writexml.py, pyhf/readxml.py and pyhf/compat.py translated to
coq/gen/XmlGen.v on every run (translator: harness/props/tie_translate.py + tie_translate_x5.py, class Exec5; fail closed).  The proofs that
the translated definitions equal the hand model of coq/Xml.v / coq/XmlCache.v are in coq/TieXml.v; the theorems C18_source_is_model_* in
coq/props/C18.v."""
import ast
import os

from harness import core, facts
from harness.props import tie_translate as tt
from harness.props import tie_translate_x5 as t5

GEN_NAME = 'XmlGen'
STR, NAT, BOOL, NUM = tt.STR, tt.NAT, tt.BOOL, tt.NUM
LIST, PROD, OPTION = tt.LIST, tt.PROD, tt.OPTION
T, S, Lst, Tup, Dct, Ext, Rec, mk = tt.T, tt.S, tt.Lst, tt.Tup, tt.Dct, tt.Ext, tt.Rec, tt.mk
NUMS = LIST(NUM)
RF = LIST(PROD(STR, NUMS))
BOUNDS = LIST(PROD(NUM, NUM))

GEN_HEADER = '''From Coq Require Import Bool Arith String Ascii ZArith DecimalString List.
Require Import PV.Num PV.Sort PV.Json PV.Xml PV.XmlCache.
Import ListNotations.
Local Open Scope string_scope.
Local Open Scope nat_scope.
Local Open Scope list_scope.
(* GENERATED on every run by harness/props/c18_tie.py from $VERIF_REPO/src/pyhf/{writexml,readxml,compat}.py - do not edit.
   Reading of the python values (the trusted part of the translation):
   * numbers are the values of the number record N (python floats / ints of the documents; str(x) / float(x) / np.asarray / .tolist() between a
     number and its XML text or ROOT bin content are the identity: the text and ROOT serialisation layers are outside the model);
   * a schema-valid workspace document and its parts are the records of PV.Xml (d['name'] on a sample is s_name N d, ...); a modifier document
     is one of seven shapes according to its 'type' (the constructors of mdata: the first statement that looks at modifierspec['type'] /
     ['data'] is executed once per shape, the type being a constant text there); keys a parameter document may lack (inits, bounds, auxdata,
     sigmas, fixed) are options: p.get(k, x) is the value or x, p[k] raises (KeyError) when absent; a two-element list where the model has a
     pair (bounds) is the pair; an observation is the pair (name, data);
   * XML elements are the abstract AST of PV.Xml: ET.Element(tag, **attributes) is the constructor of that tag applied to its attributes in
     the order of the constructor - HistoSys(Name, HistoNameLow, HistoNameHigh) = XHistoSys, OverallSys(Name, High, Low) = XOverallSys,
     NormFactor(Name, Val, Low, High) = XNormFactor, StatError(Activate="True", HistoName) = XStatError, ShapeSys(Name,
     ConstraintType="Poisson", HistoName) = XShapeSys, ShapeFactor(Name) = XShapeFactor, Sample(Name, HistoName, NormalizeByTheory,
     InputFile = the data file) with its children = xsample, Channel(Name, InputFile = the data file) with at most one Data child
     (HistoName, InputFile = the data file) and its Sample children = xchannel, Measurement(Name, Lumi, LumiRelErr, ExportOnly="True") with one
     POI child (its text) and at most one ParamSetting(Const="True") child (its text = the blank-separated names, read as the list of names)
     = xmeas.  An element with any other attribute set, or with another constant where one is fixed, is refused (TieBroken).
     element.append(child) appends to the children; element.attrib.update({..}) replaces attributes;
   * the ROOT file being written (_ROOT_DATA_FILE) is an association list key -> bin contents in order of writing; inside the build_*
     functions a call _export_root_histogram(k, v) is recorded as the pair (k, v) in the list of writes the function returns beside its value,
     in call order; _export_root_histogram itself is translated separately (gen_export_root_histogram: refuses a key that is present, stores
     otherwise) - the file is the fold of it over the writes (export_all of the hand model).  uproot.to_writable((np.asarray(v),
     np.arange(len(v) + 1))) is the histogram with bin contents v;
   * np.divide(a, b, out=np.zeros_like(..), where=c(b), dtype='float') is elementwise `if c then a / b else 0` (lists: of equal length, else
     ValueError = EShape); np.array((l1, l2), dtype='float').T is the list of pairs (equal lengths, else EShape); np.multiply / a * b over zip
     are elementwise products;
   * python failures: l[0] on an empty list is IndexError (EIndex; ELumiCfg on auxdata / sigmas), a missing key KeyError (ELumiCfg on auxdata /
     sigmas, EModType on the modifier-type table), x / 0 on python floats ZeroDivisionError (EZeroDiv), None['data'] TypeError (ENoObs),
     raise KeyError in _export_root_histogram EDupHist; the other `raise` statements are the constructors named in EXC of c18_tie.py;
   * logging is not translated; a `for` loop is fold_left / foldM; texts: f-strings of texts are concatenations, '_'.join(l) is join "_" l,
     the truth value of a text is nonempty. *)
'''

PRELUDE = '''(* compat.interpret_rootname: the dict it returns.  'n/a' is None in the three fields that otherwise hold a boolean / an index *)
Record interpretation := mkInterp { i_constrained : option bool; i_is_scalar : option bool; i_name : string; i_element : option nat }.
Definition tri_truth (x : option bool) : bool := match x with Some b => b | None => true end.      (* truth value of True / False / 'n/a' *)
(* re.search(r'^alpha_(.+)$', s): group 1 (names hold no newline) *)
Definition rx_alpha (s : string) : option string :=
  match strip_prefix "alpha_" s with Some r => if nonempty r then Some r else None | None => None end.
Definition nat_text (n : nat) : string := NilEmpty.string_of_uint (Nat.to_uint n).      (* str(n) / f"{n}" of a python int >= 0: its decimal digits *)
Definition rxa := string.
Definition rxg := (string * nat)%type.
Definition olist {A} (o : option A) : list A := match o with Some a => [a] | None => [] end.            (* findall of a tag that occurs at most once *)
Fixpoint update_at {A} (n : nat) (f : A -> A) (l : list A) : list A :=                                      (* l[n] = f(l[n]) *)
  match l, n with [], _ => [] | x :: t, O => f x :: t | x :: t, S n' => x :: update_at n' f t end.

Section Gen.
Variable N : Num.
(* re.search(r'^gamma_(.+)_(\\d+)$', s): (group 1, int(group 2)).  A parameter: the model refuses every gamma_ name whatever it is *)
Variable rx_gamma : string -> option (string * nat).
Definition dflt_param : param N := @mkParam N "" None None None None None.
Definition mtype_of (m : modifier N) : string := mtype N (m_data N m).                  (* modifierspec['type'] *)
Definition xdata := string.                                                              (* a Data element: its HistoName *)
Definition rf_set (f : rootfile N) (k : string) (v : list (V N)) : rootfile N :=          (* file[k] = v on a python dict *)
  if hmem N k f then map (fun kv => if String.eqb (fst kv) k then (k, v) else kv) f else f ++ [(k, v)].
'''

EXC = {'KeyError': 'EDupHist', 'RuntimeError': 'EMissingData', 'ValueError': 'EConfusing', 'NotImplementedError': 'EMissingData'}

RECORDS = {
    'modifier': {'name': ('m_name N', STR), 'type': ('mtype_of', STR)},
    'sample': {'name': ('s_name N', STR), 'data': ('s_data N', NUMS), 'modifiers': ('s_mods N', LIST('modifier'))},
    'channel': {'name': ('c_name N', STR), 'samples': ('c_samples N', LIST('sample'))},
    'param': {'name': ('p_name N', STR), 'inits': ('p_inits N', OPTION(NUMS)), 'bounds': ('p_bounds N', OPTION(BOUNDS)),
              'auxdata': ('p_auxdata N', OPTION(NUMS)), 'sigmas': ('p_sigmas N', OPTION(NUMS)), 'fixed': ('p_fixed N', OPTION(BOOL))},
    'measurement': {'name': ('me_name N', STR), 'config': {'poi': ('me_poi N', STR), 'parameters': ('me_params N', LIST('param'))}},
    'workspace': {'channels': ('w_channels N', LIST('channel')), 'observations': ('w_obs N', LIST('observation')),
                  'measurements': ('w_meas N', LIST('measurement'))},
    'observation': {'name': ('fst', STR), 'data': ('snd', NUMS)},
    # XML elements that are records of the model: attribute -> projection; '<children>' the child list
    'xsample': {'Name': ('xs_name N', STR), 'HistoName': ('xs_hist N', STR), 'NormalizeByTheory': ('xs_nbt N', BOOL), '<children>': ('xs_mods N', LIST('xmod'))},
    'xchannel': {'Name': ('xc_name N', STR), '<data>': ('xc_data N', OPTION(STR)), '<children>': ('xc_samples N', LIST('xsample'))},
    'xmeas': {'Name': ('xm_name N', STR), 'Lumi': ('xm_lumi N', NUM), 'LumiRelErr': ('xm_relerr N', NUM), '<poi>': ('xm_poi N', STR),
              '<const>': ('xm_const N', LIST(STR))},
}
RECORDS['interpretation'] = {'constrained': ('i_constrained', 'tribool'), 'is_scalar': ('i_is_scalar', 'tribool'), 'name': ('i_name', STR),
                             'element': ('i_element', 'optnat')}
REC_ORDER = {'interpretation': ['i_constrained', 'i_is_scalar', 'i_name', 'i_element'], 'modifier': ['m_name N', 'm_data N'], 'sample': ['s_name N', 's_data N', 's_mods N'], 'channel': ['c_name N', 'c_samples N'],
             'param': ['p_name N', 'p_inits N', 'p_bounds N', 'p_auxdata N', 'p_sigmas N', 'p_fixed N'],
             'measurement': ['me_name N', 'me_poi N', 'me_params N'], 'workspace': ['w_channels N', 'w_obs N', 'w_meas N'],
             'observation': ['fst', 'snd'],
             'xsample': ['xs_name N', 'xs_hist N', 'xs_nbt N', 'xs_mods N'], 'xchannel': ['xc_name N', 'xc_data N', 'xc_samples N'],
             'xmeas': ['xm_name N', 'xm_lumi N', 'xm_relerr N', 'xm_poi N', 'xm_const N']}
REC_CTOR = {'interpretation': 'mkInterp', 'modifier': '@mkMod N', 'sample': '@mkSample N', 'channel': '@mkChannel N', 'param': '@mkParam N', 'measurement': '@mkMeas N',
            'workspace': '@mkWs N', 'observation': '@pair string (list (V N))', 'xsample': 'mkXs N', 'xchannel': 'mkXc N', 'xmeas': 'mkXm N'}
OPT_KEYS = {'param': {'inits': 'EIndex', 'bounds': 'EIndex', 'auxdata': 'ELumiCfg', 'sigmas': 'ELumiCfg', 'fixed': 'EIndex'}}
IMPLICIT = {'index': 'EIndex', ('index', 'auxdata'): 'ELumiCfg', ('index', 'sigmas'): 'ELumiCfg', 'zerodiv': 'EZeroDiv'}

# tag -> (constructor, [(attribute, type)] in constructor order, {attribute: the constant it must carry})
MOD_ELEMS = {
    'HistoSys': ('XHistoSys', [('Name', STR), ('HistoNameLow', STR), ('HistoNameHigh', STR)], {}),
    'OverallSys': ('XOverallSys', [('Name', STR), ('High', NUM), ('Low', NUM)], {}),
    'NormFactor': ('XNormFactor', [('Name', STR), ('Val', NUM), ('Low', NUM), ('High', NUM)], {}),
    'StatError': ('XStatError', [('HistoName', STR)], {'Activate': 'True'}),
    'ShapeSys': ('XShapeSys', [('Name', STR), ('HistoName', STR)], {'ConstraintType': 'Poisson'}),
    'ShapeFactor': ('XShapeFactor', [('Name', STR)], {}),
}
MOD_ORDER = ['OverallSys', 'NormFactor', 'HistoSys', 'StatError', 'ShapeSys', 'ShapeFactor']      # the order of the constructors of xmod

COQ_TY = {'modifier': 'modifier N', 'sample': 'sample N', 'channel': 'channel N', 'param': 'param N', 'measurement': 'measurement N',
          'workspace': 'workspace N', 'observation': '(string * list (V N))', 'xmod': 'xmod N', 'xsample': 'xsample N', 'xchannel': 'xchannel N',
          'xmeas': 'xmeas N', 'xdata': 'xdata', 'sresult': 'sresult', 'chan_result': 'chan_result N', 'cache': 'list (string * centry (rootfile N))',
          'rootobj': 'rootfile N', 'hist': 'list (V N)', 'pmap': 'list (param N)', 'xdoc': 'xdoc N', 'blanktext': 'list string', 'interpretation': 'interpretation', 'tribool': 'option bool', 'optnat': 'option nat', STR: 'string', NUM: 'V N', BOOL: 'bool', NAT: 'nat'}


def cty(t):
    if isinstance(t, str):
        return COQ_TY.get(t, t)
    if t[0] in ('list', 'option', 'tuple', 'set'):
        return '%s (%s)' % ('option' if t[0] == 'option' else 'list', cty(t[1]))
    if t[0] == 'prod':
        return '(%s * %s)' % (cty(t[1]), cty(t[2]))
    if t[0] == 'dict':
        return 'list (%s * %s)' % (cty(t[1]), cty(t[2]))
    raise tt.TB('type %r has no Coq rendering' % (t,))


class Out:
    def __init__(self):
        self.trees = {}
        self.defs = []            # (name, text)
        self.raises = {}          # generated name -> returns `res`

    def tree(self, rel):
        if rel not in self.trees:
            self.trees[rel] = facts.parse(rel)
        return self.trees[rel]

    def fn(self, rel, name):
        tree, path = self.tree(rel)
        return facts.find_func(tree, name), path

    def hdr(self, rel, fn):
        return '\n' + tt.source_comment(rel, fn, self.tree(rel)[1])

    def add(self, name, text):
        self.defs.append((name, text))


def params_of(fn):
    a = fn.args
    if a.posonlyargs or a.vararg or a.kwonlyargs or a.kwarg:
        raise tt.TB('%s: signature outside the translator' % fn.name)
    return [x.arg for x in a.args]


def want_params(fn, names):
    if params_of(fn) != names:
        raise tt.TB('%s: signature changed (%r)' % (fn.name, params_of(fn)))


def const_default(fn, name, value):
    d = tt.defaults_of(fn).get(name)
    if not (isinstance(d, ast.Constant) and d.value == value and type(d.value) is type(value)):
        raise tt.TB('%s: the default of %s is not %r' % (fn.name, name, value))


# ---- the modifier document by shape ---------------------------------------------------------------------------------------------------------
def _modcase(tyname, data):
    def build(x, vs, val):
        return Dct({'name': mk('(m_name N %s)' % val.s, STR, 0), 'type': S(tyname), 'data': data(vs)})
    return build


MOD_SPLIT = ('(m_data N %s)', [
    ('DHisto %s %s', ['lo', 'hi'], _modcase('histosys', lambda vs: Dct({'lo_data': mk(vs[0], NUMS, 0), 'hi_data': mk(vs[1], NUMS, 0)}))),
    ('DNormsys %s %s', ['lo', 'hi'], _modcase('normsys', lambda vs: Dct({'lo': mk(vs[0], NUM, 0), 'hi': mk(vs[1], NUM, 0)}))),
    ('DNormfactor', [], _modcase('normfactor', lambda vs: S(None))),
    ('DShapesys %s', ['d'], _modcase('shapesys', lambda vs: mk(vs[0], NUMS, 0))),
    ('DStaterror %s', ['d'], _modcase('staterror', lambda vs: mk(vs[0], NUMS, 0))),
    ('DShapefactor', [], _modcase('shapefactor', lambda vs: S(None))),
    ('DLumi', [], _modcase('lumi', lambda vs: S(None))),
])


def _xmodcase(tag):
    ctor, attrs, fixed = MOD_ELEMS[tag]

    def build(x, vs, val):
        d = {k: S(v) for k, v in fixed.items()}
        for (k, ty), v in zip(attrs, vs):
            t = mk(v, ty, 0)
            if k.startswith('HistoName'):
                t.nonempty = True              # the names of histograms are not empty (the writer's start with "hist")
            d[k] = t
        return t5.PyElem(S(tag), Dct(d))
    return ('%s _ %s' % (ctor, ' '.join(['%s'] * len(attrs))), [k.lower() for k, _ in attrs], build)


XMOD_SPLIT = ('%s', [_xmodcase(tag) for tag in MOD_ORDER])


class RootFileType:
    """the python dict-like _ROOT_DATA_FILE inside _export_root_histogram"""

    def mem(self, x, d, k, node):
        return '(hmem N %s %s)' % (x.strterm(k, node), d.s)

    def get(self, x, d, k, node):
        raise tt.TB('the file being written is read (line %d)' % node.lineno)

    def set(self, x, d, k, v, node):
        v = x.as_typed(v, NUMS)
        return mk('(rf_set %s %s %s)' % (d.s, x.strterm(k, node), v.s), 'rootfile', tt.fresh_of(d))


class PairsDict:
    """dict(pairs) given by the list of pairs it was built from: the last pair of a key wins"""

    def mem(self, x, d, k, node):
        raise tt.TB('`in` on the modifier-type table (line %d)' % node.lineno)

    def get(self, x, d, k, node):
        var = x.fresh_var('ty')
        x.pending.append(('(dict_get %s %s)' % (x.strterm(k, node), d.s), var, '@EModType'))
        return mk(var, STR, 2)

    def set(self, x, d, k, v, node):
        raise tt.TB('the modifier-type table is written (line %d)' % node.lineno)


class CX(t5.Exec5):
    records, rec_order, rec_ctor, opt_keys, implicit_err, exc_names = RECORDS, REC_ORDER, REC_CTOR, OPT_KEYS, IMPLICIT, EXC
    rec_open = tuple(RECORDS)            # no dict display is recognised through the record table (dict_display_term does it)
    dict_types = {'rootfile': RootFileType(), 'pairsdict': PairsDict()}
    log_calls = ('_export_root_histogram', 'build_modifier', 'build_sample', 'build_data', 'build_channel')
    WRITE = ('_make_hist_name', '_export_root_histogram', 'build_modifier', 'build_sample', 'build_data', 'build_channel', 'build_measurement')

    def __init__(self, out, rel, split=None, file_term=None):
        super().__init__({})
        self.out, self.rel = out, rel
        self.split_types = dict(split or {})
        self.file_term = file_term                   # inside _export_root_histogram: the term of the file
        if rel == 'writexml.py':
            for name in self.WRITE:
                self.gens[name] = (out.fn(rel, name)[0], getattr(self, 'h_' + name.lstrip('_')))

    # ---- names -----------------------------------------------------------------------------------------------------------------------------------
    def global_name(self, name, st):
        if name in self.gens:
            return Ext('gen:' + name)
        if name == '_ROOT_DATA_FILE':
            if self.file_term is not None:
                return mk(self.file_term, 'rootfile', 2)
            return Ext('rootfile')
        if name in ('len', 'tuple', 'list', 'dict', 'str', 'float', 'filter', 'zip', 'log', 'ET', 'np', 'uproot'):
            return Ext(name)
        if self.rel == 'compat.py' and name in ('re', 'int'):
            return Ext(name)
        return self.global_name2(name, st)

    def global_name2(self, name, st):
        if self.rel == 'compat.py' and name == 'range':
            return Ext(name)
        raise tt.TB('unknown name %s' % name)

    def fmt_value(self, x):
        if isinstance(x, T) and x.ty == NAT:
            return mk('(nat_text %s)' % x.s, STR, 2)
        return None

    def attr5(self, base, attr, node, st):
        if isinstance(base, Ext) and base.tag == 'paramset' and attr in base.data:
            return base.data[attr]
        return super().attr5(base, attr, node, st)

    def attr_ext(self, base, attr, node, st):
        if isinstance(base, Ext):
            if (base.tag, attr) in (('ET', 'Element'), ('np', 'divide'), ('np', 'zeros_like'), ('np', 'asarray'), ('np', 'array'), ('np', 'arange'),
                                    ('np', 'multiply'), ('uproot', 'to_writable')):
                return Ext(base.tag + '.' + attr)
            if (base.tag, attr) == ('re', 'search'):
                return Ext('re.search')
            if base.tag == 'rootfile' and attr == 'file_path':
                return Ext('rootfile.path')
            if base.tag == 'array2' and attr == 'T':
                l1, l2 = base.data
                self.pending.append(('tpl', '(if Nat.eqb (length %s) (length %s) then @@0@@ else (Err EShape))' % (l1.s, l2.s)))
                out = mk('(combine %s %s)' % (l1.s, l2.s), LIST(PROD(NUM, NUM)), 2)
                out.isfloat = True
                return out
        return super().attr_ext(base, attr, node, st)

    def subscript(self, base, idx, node):
        if isinstance(idx, S) and isinstance(idx.v, str) and isinstance(base, T) and isinstance(base.ty, tuple) and base.ty[0] == 'option' \
                and base.ty[1] in self.records:
            # None['data']: TypeError
            var = self.fresh_var('o')
            self.pending.append((base.s, var, '@ENoObs'))
            return super().subscript(mk(var, base.ty[1], 0), idx, node)
        return super().subscript(base, idx, node)

    # ---- dict displays that are documents of the model ---------------------------------------------------------------------------------------------
    def is_model_dict(self, d):
        return self.dict_display_term(d, probe=True) is not None

    def dict_display_term(self, d, probe=False):
        keys = set(d.items)
        if keys == {'constrained', 'is_scalar', 'name', 'element'}:
            if probe:
                return True
            return self.rec_term(Rec('interpretation', {'i_constrained': d.items['constrained'], 'i_is_scalar': d.items['is_scalar'], 'i_name': d.items['name'],
                                                        'i_element': d.items['element']}, None, 2))
        return self.dict_display_term2(d, probe)

    def dict_display_term2(self, d, probe):
        return None

    def as_typed(self, v, ty):
        if ty in ('tribool', 'optnat') and isinstance(v, S) and v.v == 'n/a':
            return mk('None', ty, 2)
        if ty == 'tribool' and isinstance(v, S) and isinstance(v.v, bool):
            return mk('(Some %s)' % ('true' if v.v else 'false'), ty, 2)
        if ty == 'optnat' and isinstance(v, T) and v.ty == NAT:
            return mk('(Some %s)' % v.s, ty, 2)
        return super().as_typed(v, ty)

    def truth_of(self, v, node):
        if isinstance(v, T) and v.ty == 'tribool':
            return T('(tri_truth %s)' % v.s, BOOL)
        return super().truth_of(v, node)

    # ---- numpy ---------------------------------------------------------------------------------------------------------------------------------------
    def is_float_dtype(self, kwargs, key='dtype'):
        return isinstance(kwargs.get(key), S) and kwargs[key].v == 'float'

    def call_ext(self, f, args, kwargs, node, st):
        tag, ln = f.tag, node.lineno
        if tag == 'np.asarray' and len(args) == 1 and not kwargs and isinstance(args[0], T) and args[0].ty in (NUM, NUMS):
            return args[0]
        if tag == 'np.zeros_like' and len(args) == 1 and set(kwargs) <= {'dtype'} and isinstance(args[0], T) and args[0].ty in (NUM, NUMS):
            if kwargs and not self.is_float_dtype(kwargs):
                raise tt.TB('np.zeros_like dtype (line %d)' % ln)
            return Ext('zeros_like', (args[0], bool(kwargs) or getattr(args[0], 'isfloat', False)))
        if tag == 'np.array' and len(args) == 1 and set(kwargs) == {'dtype'} and self.is_float_dtype(kwargs) and isinstance(args[0], Tup) \
                and len(args[0].items) == 2 and all(isinstance(x, T) and x.ty == NUMS for x in args[0].items):
            return Ext('array2', tuple(args[0].items))
        if tag == 'np.arange' and len(args) == 1 and not kwargs:
            return Ext('arange', args[0])
        if tag == 'np.multiply' and len(args) == 2 and not kwargs and all(isinstance(x, T) and x.ty == NUMS for x in args):
            return mk('(zipw (fun x_a x_b => nmul N x_a x_b) %s %s)' % (args[0].s, args[1].s), NUMS, 2)
        if tag == 'np.divide' and len(args) == 2 and set(kwargs) == {'out', 'where', 'dtype'} and self.is_float_dtype(kwargs):
            a, b, out, where = args[0], args[1], kwargs['out'], kwargs['where']
            if not (isinstance(out, Ext) and out.tag == 'zeros_like'):
                raise tt.TB('np.divide: out is not an array of zeros (line %d)' % ln)
            if isinstance(a, T) and isinstance(b, T) and a.ty == NUMS and b.ty == NUMS:
                if out.data[0].s != b.s and out.data[0].s != a.s:
                    raise tt.TB('np.divide: shape of out (line %d)' % ln)
                if not out.data[1]:
                    raise tt.TB('np.divide: out is not stated to be a float array (integer yields would make numpy refuse the division; line %d)' % ln)
                if not (isinstance(where, tt.Vec) and where.src == b.s and isinstance(where.body, T) and where.body.ty == BOOL):
                    raise tt.TB('np.divide: the mask is not a condition on the divisor (line %d)' % ln)
                self.pending.append(('tpl', '(if Nat.eqb (length %s) (length %s) then @@0@@ else (Err EShape))' % (a.s, b.s)))
                return mk('(zipw (fun x_a %s => if %s then ndiv N x_a %s else n0 N) %s %s)' % (where.var, where.body.s, where.var, a.s, b.s), NUMS, 2)
            if isinstance(a, T) and isinstance(b, T) and a.ty == NUM and b.ty == NUM:
                if out.data[0].s not in (a.s, b.s):
                    raise tt.TB('np.divide: shape of out (line %d)' % ln)
                c = self.boolterm(where)
                return mk('(if %s then ndiv N %s %s else n0 N)' % (c, a.s, b.s), NUM, 2)
            raise tt.TB('np.divide of %r by %r (line %d)' % (a, b, ln))
        if tag == 'uproot.to_writable' and len(args) == 1 and not kwargs and isinstance(args[0], Tup) and len(args[0].items) == 2:
            v, edges = args[0].items
            # (contents, np.arange(len(contents) + 1)): unit-width bins 0..n
            if isinstance(v, T) and v.ty == NUMS and isinstance(edges, Ext) and edges.tag == 'arange' and isinstance(edges.data, T) \
                    and edges.data.s == '((length %s) + 1)' % v.s:
                return v
            raise tt.TB('uproot.to_writable(..) (line %d)' % ln)
        if tag == 're.search' and len(args) == 2 and not kwargs and isinstance(args[0], S) and isinstance(args[1], T) and args[1].ty == STR:
            rx = {r'^alpha_(.+)$': ('rx_alpha', 'rxa'), r'^gamma_(.+)_(\d+)$': ('rx_gamma', 'rxg')}.get(args[0].v)
            if rx is None:
                raise tt.TB('regular expression %r (line %d): not one the translator has a reading of' % (args[0].v, ln))
            return mk('(%s %s)' % (rx[0], args[1].s), OPTION(rx[1]), 2)
        if tag == 'int' and len(args) == 1 and not kwargs and isinstance(args[0], T) and args[0].ty == 'digits':
            return mk(args[0].s, NAT, 2)
        if tag == 'ET.Element':
            if not args or not (isinstance(args[0], S) and isinstance(args[0].v, str)) or len(args) > 1:
                raise tt.TB('ET.Element: the tag is not a constant text (line %d)' % ln)
            return self.element(args[0].v, kwargs, node)
        raise tt.TB('call of %r (line %d)' % (f, ln))

    def call_star(self, f, e, st):
        if isinstance(f, Ext) and f.tag == 'ET.Element' and not any(isinstance(a, ast.Starred) for a in e.args):
            kw = {}
            for k in e.keywords:
                if k.arg is None:
                    d = self.expr(k.value, st)
                    if not isinstance(d, Dct):
                        raise tt.TB('**%r (line %d)' % (d, e.lineno))
                    kw.update(d.items)
                else:
                    kw[k.arg] = self.expr(k.value, st)
            return self.call_ext(f, [self.expr(a, st) for a in e.args], kw, e, st)
        return super().call_star(f, e, st)

    def method_ext(self, base, name, args, kwargs, node, st):
        if name == 'group' and len(args) == 1 and not kwargs and isinstance(base, T) and isinstance(args[0], S):
            if base.ty == 'rxa' and args[0].v == 1:
                return mk(base.s, STR, 2)
            if base.ty == 'rxg' and args[0].v == 1:
                return mk('(fst %s)' % base.s, STR, 2)
            if base.ty == 'rxg' and args[0].v == 2:
                return mk('(snd %s)' % base.s, 'digits', 2)
        if name == 'tolist' and not args and not kwargs and isinstance(base, T) and base.ty in (NUMS,):
            return base
        return super().method_ext(base, name, args, kwargs, node, st)

    # ---- XML elements (writer) -----------------------------------------------------------------------------------------------------------------------
    def want_file(self, kw, tag, node):
        v = kw.get('InputFile')
        if not (isinstance(v, Ext) and v.tag == 'rootfile.path'):
            raise tt.TB('%s: InputFile is not the path of the data file (line %d)' % (tag, node.lineno))

    def element(self, tag, kw, node):
        ln = node.lineno
        if tag in MOD_ELEMS:
            ctor, attrs, fixed = MOD_ELEMS[tag]
            if set(kw) != {k for k, _ in attrs} | set(fixed):
                raise tt.TB('%s element with the attributes %r (line %d): not an element of the abstract AST' % (tag, sorted(kw), ln))
            for k, v in fixed.items():
                if not (isinstance(kw[k], S) and kw[k].v == v):
                    raise tt.TB('%s: attribute %s is not %r (line %d)' % (tag, k, v, ln))
            vals = []
            for k, ty in attrs:
                if isinstance(kw[k], Ext):
                    raise tt.TB('%s: attribute %s has no value in the model (%r; line %d)' % (tag, k, kw[k], ln))
                vals.append(self.as_typed(kw[k], ty).s)
            return mk('(@%s N %s)' % (ctor, ' '.join(vals)), 'xmod', 2)
        if tag == 'Sample':
            if set(kw) != {'Name', 'HistoName', 'InputFile', 'NormalizeByTheory'}:
                raise tt.TB('Sample element with the attributes %r (line %d)' % (sorted(kw), ln))
            self.want_file(kw, tag, node)
            return Rec('xsample', {'xs_name N': kw['Name'], 'xs_hist N': kw['HistoName'], 'xs_nbt N': self.xbool(kw['NormalizeByTheory'], node),
                                   'xs_mods N': Lst([])}, None, 2)
        if tag == 'Channel':
            if set(kw) != {'Name', 'InputFile'}:
                raise tt.TB('Channel element with the attributes %r (line %d)' % (sorted(kw), ln))
            self.want_file(kw, tag, node)
            return Rec('xchannel', {'xc_name N': kw['Name'], 'xc_data N': mk('None', OPTION(STR), 2), 'xc_samples N': Lst([])}, None, 2)
        if tag == 'Data':
            if set(kw) != {'HistoName', 'InputFile'}:
                raise tt.TB('Data element with the attributes %r (line %d)' % (sorted(kw), ln))
            self.want_file(kw, tag, node)
            return mk(self.strterm(kw['HistoName'], node), 'xdata', 2)
        if tag == 'Measurement':
            if set(kw) != {'Name', 'Lumi', 'LumiRelErr', 'ExportOnly'} or not (isinstance(kw['ExportOnly'], S) and kw['ExportOnly'].v == 'True'):
                raise tt.TB('Measurement element with the attributes %r (line %d)' % (sorted(kw), ln))
            for k in ('Lumi', 'LumiRelErr'):
                if isinstance(kw[k], Ext):
                    raise tt.TB('Measurement: attribute %s has no value in the model (line %d)' % (k, ln))
            return Rec('xmeas', {'xm_name N': kw['Name'], 'xm_lumi N': kw['Lumi'], 'xm_relerr N': kw['LumiRelErr'], 'xm_const N': Lst([])}, None, 2)
        if tag in ('POI', 'ParamSetting'):
            return t5.PyElem(S(tag), Dct(kw))
        raise tt.TB('ET.Element(%r) (line %d): not an element of the abstract AST' % (tag, ln))

    def xbool(self, v, node):
        if isinstance(v, S) and v.v in ('True', 'False'):
            return S(v.v == 'True')
        raise tt.TB('a boolean attribute is not the text True / False (line %d)' % node.lineno)

    def elem_place(self, tgt, st):
        """(name, value) when tgt is a local name bound to an element that is a record of the model"""
        if isinstance(tgt, ast.Name) and tgt.id in st.env:
            v = st.env[tgt.id]
            ty = v.rtype if isinstance(v, Rec) else (v.ty if isinstance(v, T) else None)
            if ty in ('xsample', 'xchannel', 'xmeas'):
                return tgt.id, v, ty
        return None

    def mutator(self, e, st):
        if isinstance(e, ast.Call) and isinstance(e.func, ast.Attribute):
            m, tgt = e.func.attr, e.func.value
            # element.attrib.update({..})
            if m == 'update' and isinstance(tgt, ast.Attribute) and tgt.attr == 'attrib' and len(e.args) == 1 and not e.keywords:
                pl = self.elem_place(tgt.value, st)
                if pl is not None:
                    name, v, ty = pl
                    d = self.expr(e.args[0], st)
                    if not isinstance(d, Dct):
                        raise tt.TB('attrib.update(%r) (line %d)' % (d, e.lineno))
                    r = self.open_rec(v)
                    for k, x in d.items.items():
                        ent = self.records[ty].get(k)
                        if ent is None or k.startswith('<'):
                            raise tt.TB('attribute %s of a %s (line %d)' % (k, ty, e.lineno))
                        r.fields[ent[0]] = self.xbool(x, e) if ent[1] == BOOL else x
                    st.env[name] = r
                    return True
            if m == 'append' and len(e.args) == 1 and not e.keywords:
                pl = self.elem_place(tgt, st)
                if pl is not None:
                    name, v, ty = pl
                    x = self.expr(e.args[0], st)
                    r = self.open_rec(v)
                    self.append_child(r, ty, x, e)
                    st.env[name] = r
                    return True
        return super().mutator(e, st)

    def child_list(self, r, proj, elty):
        cur = r.fields[proj] if proj in r.fields else mk('(%s %s)' % (proj, r.base.s), LIST(elty), 2)
        return cur

    def append_child(self, r, ty, x, node):
        ln = node.lineno
        if ty == 'xsample' and isinstance(x, T) and x.ty == 'xmod':
            cur = self.child_list(r, 'xs_mods N', 'xmod')
            r.fields['xs_mods N'] = mk('[%s]' % x.s, LIST('xmod'), 2) if isinstance(cur, Lst) and not cur.items else mk('(%s ++ [%s])' % (self.as_typed(cur, LIST('xmod')).s, x.s), LIST('xmod'), 2)
            return
        if ty == 'xchannel' and isinstance(x, T) and x.ty == 'xdata':
            cur = r.fields.get('xc_data N')
            if not (isinstance(cur, T) and cur.s == 'None'):
                raise tt.TB('a second Data child (line %d)' % ln)
            if 'xc_samples N' not in r.fields or not (isinstance(r.fields['xc_samples N'], Lst) and not r.fields['xc_samples N'].items):
                raise tt.TB('the Data child is appended after a Sample (line %d)' % ln)
            r.fields['xc_data N'] = mk('(Some %s)' % x.s, OPTION(STR), 2)
            return
        if ty == 'xchannel' and isinstance(x, T) and x.ty == 'xsample':
            cur = self.child_list(r, 'xc_samples N', 'xsample')
            r.fields['xc_samples N'] = mk('[%s]' % x.s, LIST('xsample'), 2) if isinstance(cur, Lst) and not cur.items else mk('(%s ++ [%s])' % (self.as_typed(cur, LIST('xsample')).s, x.s), LIST('xsample'), 2)
            return
        if ty == 'xmeas' and isinstance(x, t5.PyElem) and x.tag.v == 'POI' and not x.attrib.items and not x.children:
            if 'xm_poi N' in r.fields or r.base is not None:
                raise tt.TB('a second POI child (line %d)' % ln)
            if x.text is None:
                raise tt.TB('POI without text (line %d)' % ln)
            r.fields['xm_poi N'] = x.text
            return
        if ty == 'xmeas' and isinstance(x, t5.PyElem) and x.tag.v == 'ParamSetting' and not x.children:
            c = x.attrib.items.get('Const')
            if set(x.attrib.items) != {'Const'} or not (isinstance(c, S) and c.v == 'True'):
                raise tt.TB('ParamSetting with the attributes %r (line %d)' % (x.attrib.items, ln))
            cur = r.fields.get('xm_const N')
            if r.base is not None or not (isinstance(cur, Lst) and not cur.items):
                raise tt.TB('a second ParamSetting child (line %d)' % ln)
            j = getattr(x.text, 'joined', None)
            if j is None or j[0] != ' ':
                raise tt.TB('ParamSetting: the text is not the blank-separated list of names (line %d)' % ln)
            r.fields['xm_const N'] = j[1]
            return
        raise tt.TB('append of %r to a %s (line %d)' % (x, ty, ln))

    # ---- the implicit write log --------------------------------------------------------------------------------------------------------------------------
    def log_add(self, st, text, single=False):
        cur = st.attrs[self.LOG]
        st.attrs[self.LOG] = mk(text if cur.s == '[]' else '(%s ++ %s)' % (cur.s, text), RF, 2)

    def effect_stmt(self, e, st):
        if isinstance(e, ast.Call) and isinstance(e.func, ast.Name) and e.func.id == '_export_root_histogram' and e.func.id not in st.env \
                and self.file_term is None and self.LOG in st.attrs:
            fn = self.gens['_export_root_histogram'][0]
            b, params, extra = tt.bind_call(fn, [self.expr(a, st) for a in e.args], {k.arg: self.expr(k.value, st) for k in e.keywords})
            if extra or set(b) != {'hist_name', 'data'}:
                raise tt.TB('_export_root_histogram arguments (line %d)' % e.lineno)
            self.log_add(st, '[(%s, %s)]' % (self.strterm(b['hist_name'], e), self.as_typed(b['data'], NUMS).s))
            return True
        return False

    def logged_call(self, st, text, ty, base):
        r = self.emit_call(text, PROD(ty, RF), True, base=base)
        self.log_add(st, '(snd %s)' % r.s)
        return mk('(fst %s)' % r.s, ty, 2)

    # ---- calls of the translated functions ---------------------------------------------------------------------------------------------------------------
    def h_make_hist_name(self, b, node, st):
        gen_make_hist_name(self.out)
        return mk('(gen_make_hist_name %s)' % ' '.join(self.strterm(b[k], node) for k in ('channel', 'sample', 'modifier', 'prefix', 'suffix')), STR, 2)

    def h_export_root_histogram(self, b, node, st):
        raise tt.TB('_export_root_histogram is used as a value (line %d)' % node.lineno)

    def h_build_modifier(self, b, node, st):
        gen_build_modifier(self.out)
        args = [self.as_typed(b['spec'], 'workspace').s, self.as_typed(b['modifierspec'], 'modifier').s, self.strterm(b['channelname'], node),
                self.strterm(b['samplename'], node), self.as_typed(b['sampledata'], NUMS).s]
        return self.logged_call(st, '(gen_build_modifier %s)' % ' '.join(args), OPTION('xmod'), 'r')

    def h_build_sample(self, b, node, st):
        gen_build_sample(self.out)
        args = [self.as_typed(b['spec'], 'workspace').s, self.as_typed(b['samplespec'], 'sample').s, self.strterm(b['channelname'], node)]
        return self.logged_call(st, '(gen_build_sample %s)' % ' '.join(args), 'xsample', 'r')

    def h_build_data(self, b, node, st):
        gen_build_data(self.out)
        args = [self.as_typed(b['obsspec'], LIST('observation')).s, self.strterm(b['channelname'], node)]
        return self.logged_call(st, '(gen_build_data %s)' % ' '.join(args), 'xdata', 'r')

    def h_build_channel(self, b, node, st):
        raise tt.TB('build_channel is called from a translated function (line %d)' % node.lineno)

    def h_build_measurement(self, b, node, st):
        raise tt.TB('build_measurement is called from a translated function (line %d)' % node.lineno)


# ---- writexml.py ---------------------------------------------------------------------------------------------------------------------------------
W = 'writexml.py'


def new_log():
    return {CX.LOG: mk('[]', RF, 2)}


def gen_make_hist_name(out):
    if 'gen_make_hist_name' in out.raises:
        return
    out.raises['gen_make_hist_name'] = False
    fn, _ = out.fn(W, '_make_hist_name')
    want_params(fn, ['channel', 'sample', 'modifier', 'prefix', 'suffix'])
    const_default(fn, 'modifier', '')
    const_default(fn, 'prefix', 'hist')
    const_default(fn, 'suffix', '')
    x = CX(out, W)
    x.locals = tt.assigned_locals(fn)
    o = x.block(fn.body, tt.St(env={k: mk(k, STR, 2) for k in params_of(fn)}))
    body, r = x.render5(o, STR, always_res=False)
    if r:
        raise tt.TB('_make_hist_name can raise')
    out.add('gen_make_hist_name', out.hdr(W, fn) + 'Definition gen_make_hist_name (channel sample modifier prefix suffix : string) : string :=\n  %s.\n' % body)


def gen_export_root_histogram(out):
    if 'gen_export_root_histogram' in out.raises:
        return
    out.raises['gen_export_root_histogram'] = True
    fn, _ = out.fn(W, '_export_root_histogram')
    want_params(fn, ['hist_name', 'data'])
    x = CX(out, W, file_term='file')
    x.locals = tt.assigned_locals(fn)
    o = x.block(fn.body, tt.St(env={'hist_name': mk('hist_name', STR, 2), 'data': mk('data', NUMS, 0), '_ROOT_DATA_FILE': mk('file', 'rootfile', 2)}))
    body, r = x.render5(o, 'rootfile', fall=lambda st: st.env['_ROOT_DATA_FILE'])
    out.add('gen_export_root_histogram', out.hdr(W, fn) + 'Definition gen_export_root_histogram (file : rootfile N) (hist_name : string) (data : list (V N)) : res (rootfile N) :=\n  %s.\n' % body)


def gen_build_modifier(out):
    if 'gen_build_modifier' in out.raises:
        return
    out.raises['gen_build_modifier'] = True
    fn, _ = out.fn(W, 'build_modifier')
    want_params(fn, ['spec', 'modifierspec', 'channelname', 'samplename', 'sampledata'])
    x = CX(out, W, split={'modifier': MOD_SPLIT})
    x.records = dict(RECORDS, modifier={'name': ('m_name N', STR)})
    x.locals = tt.assigned_locals(fn)
    env = {'spec': mk('spec', 'workspace', 0), 'modifierspec': mk('modifierspec', 'modifier', 0), 'channelname': mk('channelname', STR, 2),
           'samplename': mk('samplename', STR, 2), 'sampledata': mk('sampledata', NUMS, 0)}
    o = x.block(fn.body, tt.St(env=env, attrs=new_log()))
    body, r = x.render5(o, OPTION('xmod'), with_log=True)
    out.add('gen_build_modifier', out.hdr(W, fn) + 'Definition gen_build_modifier (spec : workspace N) (modifierspec : modifier N) (channelname samplename : string) '
            '(sampledata : list (V N)) : res (option (xmod N) * rootfile N) :=\n  %s.\n' % body)


def gen_build_sample(out):
    if 'gen_build_sample' in out.raises:
        return
    out.raises['gen_build_sample'] = True
    fn, _ = out.fn(W, 'build_sample')
    want_params(fn, ['spec', 'samplespec', 'channelname'])
    x = CX(out, W)
    x.locals = tt.assigned_locals(fn)
    env = {'spec': mk('spec', 'workspace', 0), 'samplespec': mk('samplespec', 'sample', 0), 'channelname': mk('channelname', STR, 2)}
    o = x.block(fn.body, tt.St(env=env, attrs=new_log()))
    body, r = x.render5(o, 'xsample', with_log=True)
    out.add('gen_build_sample', out.hdr(W, fn) + 'Definition gen_build_sample (spec : workspace N) (samplespec : sample N) (channelname : string) : res (xsample N * rootfile N) :=\n  %s.\n' % body)


def gen_build_data(out):
    if 'gen_build_data' in out.raises:
        return
    out.raises['gen_build_data'] = True
    fn, _ = out.fn(W, 'build_data')
    want_params(fn, ['obsspec', 'channelname'])
    x = CX(out, W)
    x.locals = tt.assigned_locals(fn)
    env = {'obsspec': mk('obsspec', LIST('observation'), 0), 'channelname': mk('channelname', STR, 2)}
    o = x.block(fn.body, tt.St(env=env, attrs=new_log()))
    body, r = x.render5(o, 'xdata', with_log=True)
    out.add('gen_build_data', out.hdr(W, fn) + 'Definition gen_build_data (obsspec : list (string * list (V N))) (channelname : string) : res (xdata * rootfile N) :=\n  %s.\n' % body)


def gen_build_channel(out):
    if 'gen_build_channel' in out.raises:
        return
    out.raises['gen_build_channel'] = True
    fn, _ = out.fn(W, 'build_channel')
    want_params(fn, ['spec', 'channelspec', 'obsspec'])
    x = CX(out, W)
    x.locals = tt.assigned_locals(fn)
    env = {'spec': mk('spec', 'workspace', 0), 'channelspec': mk('channelspec', 'channel', 0), 'obsspec': mk('obsspec', LIST('observation'), 0)}
    o = x.block(fn.body, tt.St(env=env, attrs=new_log()))
    body, r = x.render5(o, 'xchannel', with_log=True)
    out.add('gen_build_channel', out.hdr(W, fn) + 'Definition gen_build_channel (spec : workspace N) (channelspec : channel N) (obsspec : list (string * list (V N))) : res (xchannel N * rootfile N) :=\n  %s.\n' % body)


def gen_build_measurement(out):
    if 'gen_build_measurement' in out.raises:
        return
    out.raises['gen_build_measurement'] = True
    fn, _ = out.fn(W, 'build_measurement')
    want_params(fn, ['measurementspec', 'modifiertypes'])
    x = CX(out, W)
    x.locals = tt.assigned_locals(fn)
    env = {'measurementspec': mk('measurementspec', 'measurement', 0), 'modifiertypes': mk('modifiertypes', 'pairsdict', 0)}
    o = x.block(fn.body, tt.St(env=env))
    body, r = x.render5(o, 'xmeas')
    out.add('gen_build_measurement', out.hdr(W, fn) + 'Definition gen_build_measurement (measurementspec : measurement N) (modifiertypes : list (string * string)) : res (xmeas N) :=\n  %s.\n' % body)



# ---- readxml.py ------------------------------------------------------------------------------------------------------------------------------------
R = 'readxml.py'
R_HEADER_NOTE = '''(* readxml.py - additional readings:
   * the XML elements handed to process_sample / process_data / process_channel / process_measurements are values of the abstract AST:
     element.attrib is the dict of the attributes the AST carries (see above; InputFile is the one data file `file` of the parse, HistoPath /
     HistoFile* / HistoPath* / Const on NormFactor do not occur), modtag.tag / modtag.attrib of a child of a Sample are known per constructor of
     xmod (the first statement that looks at them is executed once per constructor); sample.iter() is the list of the children (the element
     itself, which iter() lists first, is skipped by the loop or falls through to its `else: log.warning`); findall('Sample') / ('Data') /
     ('Measurement') are xc_samples / olist xc_data / x_meas; x.find('POI') is the POI element (text xm_poi); findall('ParamSetting') is the one
     element with Const="True" whose text is the blank-separated xm_const (text.strip().split(' ') is xm_const, the truth value of the text is
     that of the list: names are neither empty nor hold blanks); histogram names are not empty; tqdm(..) is its first argument;
   * import_root_histogram(resolver, file, path, name) inside process_* is gen_root_lookup file name: the same python function translated with
     nothing cached (the file the parse works on is `file`); its first component (bin contents) is used, the second (bin errors,
     extract_error) has no value in the model (it is used for a StatError without HistoName only);
   * import_root_histogram as a whole (gen_import_root_histogram) is translated against the state of PV.XmlCache with C := rootfile N:
     resolver(filename) is the export directory `dir`; os.stat(fullpath) fails (OSError) when `dir` holds no file, its (st_mtime_ns, st_size,
     st_ino) is the abstract stamp f_sig; filecache is the association list st_cache (get = assoc, item assignment = cons of the new entry);
     a cache entry is CNew f sig for the 3-tuple (f, keys, signature), CLegacy f for a 2-tuple (centry_len / centry_file / centry_sig);
     != on signatures is negb osig_eqb; uproot.open(fullpath) is the content f_root of the file in `dir` (FileNotFoundError = ENoFile when
     there is none); set(f.keys(cycle=False)) is map fst f; f[k] is assoc k f; hist.to_numpy()[0].tolist() the bin contents;
     clear_filecache: assigning {} to the module global replaces the cache component of the state by the empty cache;
   * process_measurements / dedupe_parameters: a dict display with the keys of a modifier / parameter config / measurement / the result of
     process_sample is the record (the pair (sample, parameter_configs) for the last one; result.pop('parameter_configs') splits it);
     {k['name']: <a dict(..) copy of k> for k in l} and {v['name']: v for v in l} are dict_of N l (configs keyed by name, first position, last value; the
     first holds copies, so updating a popped config does not write into the caller's list - the second form followed by an update is
     refused); d.pop(k, x) is dict_pop N k d (the config or x, and the dict without it), d[k] = v is pm_set (in place when the key is there, at
     the end otherwise), d.values() the list; p.update({..}) replaces fields; l.extend(l') is ++; duplicates.setdefault(k, []).append(p) is
     dl_append (groups in order of first occurrence), `for k in d:` runs over map fst d and d[k] inside it is the group (the key is there);
     any(..) is existsb; python == / != on parameter configs is param_eqb N; `continue` ends the iteration; a loop that only logs is skipped;
   * compat: a paramset object is its attributes (name, is_scalar, constrained, n_parameters); paramset_to_rootnames returns a text (inl) or a
     list of texts (inr); an int >= 0 in an f-string field is nat_text i (its decimal digits); the dict interpret_rootname returns is the record
     `interpretation`, 'n/a' being None in the fields that otherwise hold a boolean / an index (its truth value is True: tri_truth);
     re.search with the two literal patterns is rx_alpha (defined below) / rx_gamma (a section variable: the model refuses every gamma_ name
     whatever the match yields); python's ValueError is EConfusing in interpret_rootname and ENonScalar in process_measurements. *)
'''
R_PRELUDE = '''Definition centry_len {C} (e : centry C) : nat := match e with CNew _ _ _ => 3 | CLegacy _ _ => 2 end.                 (* len(cached) *)
Definition centry_file {C} (e : centry C) : C := match e with CNew _ c _ => c | CLegacy _ c => c end.                  (* cached[0] *)
Definition centry_sig {C} (e : centry C) : option nat := match e with CNew _ _ sg => sg | CLegacy _ _ => None end.     (* cached[2], read under len(cached) > 2 only *)
Definition dl_append {A} (d : list (string * list A)) (k : string) (x : A) : list (string * list A) :=         (* d.setdefault(k, []).append(x) *)
  if mem_str k (map fst d) then map (fun kv => if String.eqb (fst kv) k then (fst kv, snd kv ++ [x]) else kv) d else d ++ [(k, [x])].
Fixpoint pm_set (m : list (param N)) (k : string) (v : param N) : list (param N) :=       (* d[k] = v on a dict of parameter configs keyed by name *)
  match m with [] => [v] | q :: r => if String.eqb (p_name N q) k then v :: r else q :: pm_set r k v end.
Definition sresult := (sample N * list (param N))%type.              (* the dict process_sample returns: the sample and its parameter_configs *)
'''


class RX(CX):
    """readxml.py; mode 'file': import_root_histogram with nothing cached, the file being `file`; mode 'cache': against PV.XmlCache"""
    READ = ('import_root_histogram', 'extract_error', 'process_sample', 'process_data', 'process_channel')
    log_calls = ()

    def __init__(self, out, mode='file', split=None):
        super().__init__(out, R, split=split)
        self.mode = mode
        for name in self.READ:
            self.gens[name] = (out.fn(R, name)[0], getattr(self, 'h_' + name))

    def global_name2(self, name, st):
        if name in ('os', 'tqdm', 'compat', 'set', 'cast', 'List', 'any'):
            return Ext(name)
        if name == '__FILECACHE__':
            return Ext('filecache')
        raise tt.TB('unknown name %s' % name)

    # ---- attributes / calls of the outside world --------------------------------------------------------------------------------------------------
    def attr5(self, base, attr, node, st):
        if isinstance(base, T) and base.ty == 'statres' and attr in ('st_mtime_ns', 'st_size', 'st_ino'):
            return Ext('stat.' + attr, base)
        if isinstance(base, T) and attr == 'attrib':
            if base.ty == 'xsample':
                h = mk('(xs_hist N %s)' % base.s, STR, 0)
                h.nonempty = True
                return Dct({'Name': mk('(xs_name N %s)' % base.s, STR, 0), 'HistoName': h, 'InputFile': Ext('file'),
                            'NormalizeByTheory': mk('(xs_nbt N %s)' % base.s, 'booltext', 0)})
            if base.ty == 'xdata':
                h = mk(base.s, STR, 0)
                h.nonempty = True
                return Dct({'HistoName': h, 'InputFile': Ext('file')})
            if base.ty == 'xchannel':
                return Dct({'Name': mk('(xc_name N %s)' % base.s, STR, 0), 'InputFile': Ext('file')})
            if base.ty == 'xmeas':
                return Dct({'Name': mk('(xm_name N %s)' % base.s, STR, 0), 'Lumi': mk('(xm_lumi N %s)' % base.s, NUM, 0),
                            'LumiRelErr': mk('(xm_relerr N %s)' % base.s, NUM, 0)})
        return super().attr5(base, attr, node, st)

    def attr_ext(self, base, attr, node, st):
        if isinstance(base, Ext) and (base.tag, attr) in (('os', 'stat'), ('uproot', 'open'), ('tqdm', 'tqdm'), ('np', 'sqrt'), ('compat', 'interpret_rootname')):
            return Ext(base.tag + '.' + attr)
        return super().attr_ext(base, attr, node, st)

    def expr(self, e, st):
        if isinstance(e, ast.DictComp):
            return self.dictcomp(e, st)
        v = super().expr(e, st)
        if isinstance(e, ast.Tuple) and isinstance(v, Tup) and len(v.items) == 3 and all(isinstance(x, Ext) for x in v.items):
            if [x.tag for x in v.items] == ['stat.st_mtime_ns', 'stat.st_size', 'stat.st_ino'] and len({x.data.s for x in v.items}) == 1:
                return mk('(Some (f_sig X (rootfile N) %s))' % v.items[0].data.s, OPTION(NAT), 2)         # the signature of the file on disk
            raise tt.TB('a tuple of stat fields that is not (st_mtime_ns, st_size, st_ino) (line %d)' % e.lineno)
        return v

    def compare1(self, op, a, b, node):
        opn = type(op).__name__
        if opn in ('Eq', 'NotEq'):
            for x, y in ((a, b), (b, a)):
                if isinstance(x, T) and x.ty == 'booltext' and isinstance(y, S) and y.v in ('True', 'False'):
                    pos = (y.v == 'True') == (opn == 'Eq')
                    return T(x.s if pos else '(negb %s)' % x.s, BOOL)
                if isinstance(x, Ext) and x.tag == 'file' and isinstance(y, S) and y.v == '':
                    return S(opn == 'NotEq')                 # the path of the data file is not empty
            sig = lambda v: (isinstance(v, T) and v.ty == OPTION(NAT)) or (isinstance(v, S) and v.v is None)
            if sig(a) and sig(b) and not (isinstance(a, S) and isinstance(b, S)):
                f = lambda v: 'None' if isinstance(v, S) else v.s
                t = '(osig_eqb %s %s)' % (f(a), f(b))
                return T(t if opn == 'Eq' else '(negb %s)' % t, BOOL)
        return super().compare1(op, a, b, node)

    def bind_pattern(self, target, val, st, node):
        super().bind_pattern(target, val, st, node)
        if isinstance(target, ast.Name) and isinstance(val, T) and val.ty == STR:
            st.env[target.id].loopvar = True

    def subscript(self, base, idx, node):
        if isinstance(base, T) and base.ty == tt.DICT(STR, LIST('param')) and isinstance(idx, T) and idx.ty == STR and getattr(idx, 'loopvar', False):
            # d[k] inside `for k in d`: the key is there
            return mk('(match assoc %s %s with Some y => y | None => [] end)' % (idx.s, base.s), LIST('param'), 0)
        if isinstance(base, T) and base.ty == 'centry' and isinstance(idx, S) and idx.v in (0, 1, 2) and not isinstance(idx.v, bool):
            if idx.v == 0:
                return mk('(centry_file %s)' % base.s, 'rootobj', 0)
            if idx.v == 1:
                return mk('(map fst (centry_file %s))' % base.s, tt.SET(STR), 0)
            return mk('(centry_sig %s)' % base.s, OPTION(NAT), 0)
        if isinstance(base, T) and base.ty == 'rootobj':
            var = self.fresh_var('hist')
            self.pending.append(('(assoc %s %s)' % (self.strterm(idx, node), base.s), var, '@EMissingHist'))
            return mk(var, 'hist', 0)
        return super().subscript(base, idx, node)

    def call_builtin(self, f, args, kwargs, e, st):
        if f.tag == 'len' and len(args) == 1 and not kwargs and isinstance(args[0], T) and args[0].ty == 'centry':
            return T('(centry_len %s)' % args[0].s, NAT)
        if f.tag == 'len' and len(args) == 1 and not kwargs and isinstance(args[0], T) and args[0].ty == 'xsample':
            return T('(length (xs_mods N %s))' % args[0].s, NAT)
        if f.tag == 'set' and len(args) == 1 and not kwargs and isinstance(args[0], T) and args[0].ty == tt.SET(STR):
            return args[0]
        return super().call_builtin(f, args, kwargs, e, st)

    def call_ext(self, f, args, kwargs, node, st):
        tag, ln = f.tag, node.lineno
        if tag == 'resolver' and len(args) == 1 and not kwargs and isinstance(args[0], Ext) and args[0].tag == 'file':
            return Ext('fullpath')
        if tag == 'os.stat' and len(args) == 1 and not kwargs and isinstance(args[0], T) and args[0].ty == 'path':
            if self.mode == 'cache':
                var = self.fresh_var('fe')
                self.pending.append(('(assoc dir (st_fs X (rootfile N) st))', var, 'OSError'))
                return mk(var, 'statres', 0)
            return mk('tt', 'statres', 0)
        if tag == 'uproot.open' and len(args) == 1 and not kwargs and isinstance(args[0], T) and args[0].ty == 'path':
            if self.mode == 'cache':
                var = self.fresh_var('fe')
                self.pending.append(('(assoc dir (st_fs X (rootfile N) st))', var, '@ENoFile'))
                return mk('(f_root X (rootfile N) %s)' % var, 'rootobj', 0)
            return mk('file', 'rootobj', 0)
        if tag == 'tqdm.tqdm' and len(args) == 1 and set(kwargs) <= {'unit', 'disable', 'total'}:
            return args[0]
        if tag == 'compat.interpret_rootname' and len(args) == 1 and not kwargs:
            gen_interpret_rootname(self.out)
            return self.emit_call('(gen_interpret_rootname %s)' % self.strterm(args[0], node), 'interpretation', True, base='i')
        return super().call_ext(f, args, kwargs, node, st)

    def assign(self, target, val, st, node):
        if self.mode == 'file' and isinstance(target, ast.Subscript) and isinstance(target.value, ast.Name) and target.value.id == 'filecache' \
                and isinstance(st.env.get('filecache'), Dct):
            return                                          # nothing is cached in this reading
        super().assign(target, val, st, node)

    def method_ext(self, base, name, args, kwargs, node, st):
        if isinstance(base, T) and base.ty == 'rootobj' and name == 'keys' and not args and set(kwargs) == {'cycle'} and isinstance(kwargs['cycle'], S) \
                and kwargs['cycle'].v is False:
            return mk('(map fst %s)' % base.s, tt.SET(STR), 0)
        if isinstance(base, T) and base.ty == 'hist' and name == 'to_numpy' and not args and not kwargs:
            return Tup([mk(base.s, NUMS, 0), Ext('bin-edges')])
        if isinstance(base, T) and base.ty == 'cache' and name == 'get' and len(args) == 1 and not kwargs:
            if not (isinstance(args[0], T) and args[0].ty == 'path'):
                raise tt.TB('the cache is looked up by something else than the resolved path (line %d)' % node.lineno)
            return mk('(assoc %s %s)' % (args[0].s, base.s), OPTION('centry'), 0)
        if isinstance(base, Dct) and not base.items and name == 'get' and len(args) == 1 and not kwargs:
            return S(None)
        if isinstance(base, T) and base.ty == STR and name == 'strip' and not args and not kwargs:
            return base                                     # names carry no surrounding blanks
        if isinstance(base, T) and base.ty == 'xsample' and name == 'iter' and not args and not kwargs:
            return mk('(xs_mods N %s)' % base.s, LIST('xmod'), 0)
        if isinstance(base, T) and base.ty == 'xchannel' and name == 'getroot' and not args and not kwargs:
            return base
        if isinstance(base, T) and base.ty == 'xchannel' and name == 'findall' and len(args) == 1 and not kwargs and isinstance(args[0], S):
            if args[0].v == 'Sample':
                return mk('(xc_samples N %s)' % base.s, LIST('xsample'), 0)
            if args[0].v == 'Data':
                return mk('(olist (xc_data N %s))' % base.s, LIST('xdata'), 0)
        if isinstance(base, T) and base.ty == 'xdoc' and name == 'findall' and len(args) == 1 and not kwargs and isinstance(args[0], S) and args[0].v == 'Measurement':
            return mk('(x_meas N %s)' % base.s, LIST('xmeas'), 0)
        if isinstance(base, T) and base.ty == 'xmeas' and name == 'find' and len(args) == 1 and not kwargs and isinstance(args[0], S) and args[0].v == 'POI':
            return t5.PyElem(S('POI'), Dct({}), text=mk('(xm_poi N %s)' % base.s, STR, 0))
        if isinstance(base, T) and base.ty == 'xmeas' and name == 'findall' and len(args) == 1 and not kwargs and isinstance(args[0], S) and args[0].v == 'ParamSetting':
            return Lst([t5.PyElem(S('ParamSetting'), Dct({'Const': S('True')}), text=mk('(xm_const N %s)' % base.s, 'blanktext', 0))])
        if isinstance(base, T) and base.ty == 'blanktext' and name == 'strip' and not args and not kwargs:
            return base
        if isinstance(base, T) and base.ty == 'blanktext' and name == 'split' and len(args) == 1 and not kwargs and isinstance(args[0], S) and args[0].v == ' ':
            return mk(base.s, LIST(STR), 0)
        if isinstance(base, T) and base.ty == 'pmap' and name == 'values' and not args and not kwargs:
            return mk(base.s, LIST('param'), min(tt.fresh_of(base), 1))
        if isinstance(base, T) and base.ty == 'pmap' and name == 'pop' and len(args) == 2 and not kwargs:
            names = [k for k, v in st.env.items() if v is base]
            if not names:
                raise tt.TB('pop on an unnamed dict (line %d)' % node.lineno)
            k = self.strterm(args[0], node)
            d = self.as_typed(args[1], 'param')
            for n in names:
                st.env[n] = mk('(snd (dict_pop N %s %s))' % (k, base.s), 'pmap', tt.fresh_of(base))
            return mk('(match fst (dict_pop N %s %s) with Some p => p | None => %s end)' % (k, base.s, d.s), 'param', min(tt.fresh_of(base), tt.fresh_of(d)))
        if isinstance(base, T) and base.ty == 'sresult' and name == 'pop' and len(args) == 1 and not kwargs and isinstance(args[0], S) \
                and args[0].v == 'parameter_configs':
            names = [k for k, v in st.env.items() if v is base]
            if not names:
                raise tt.TB('pop on an unnamed result (line %d)' % node.lineno)
            for k in names:
                st.env[k] = mk('(fst %s)' % base.s, 'sample', 2)          # the dict without that key: a sample document
            return mk('(snd %s)' % base.s, LIST('param'), 2)
        return super().method_ext(base, name, args, kwargs, node, st)

    def truth_of(self, v, node):
        if isinstance(v, T) and v.ty == 'blanktext':
            return T('(lnonempty %s)' % v.s, BOOL)
        return super().truth_of(v, node)

    def dictcomp(self, e, st):
        """{k['name']: dict(**k) for k in l} / {v['name']: v for v in l}: the dict of parameter configs by name (dict_of of the hand model)"""
        if len(e.generators) != 1 or e.generators[0].ifs or e.generators[0].is_async or not isinstance(e.generators[0].target, ast.Name):
            raise tt.TB('dict comprehension shape (line %d)' % e.lineno)
        var = e.generators[0].target.id
        it = self.iter_term(self.expr(e.generators[0].iter, st), e)
        if it.ty != LIST('param') or tt.dump(e.key) != tt.pattern("%s['name']" % var):
            raise tt.TB('dict comprehension: not parameter configs by name (line %d)' % e.lineno)
        v = tt.dump(e.value)
        if v in (tt.pattern('dict(**%s)' % var), tt.pattern('dict(%s)' % var)):
            lvl = 2                                             # the dict holds copies of the configs
        elif v == tt.pattern(var):
            lvl = 0                                             # the dict holds the configs themselves
        else:
            raise tt.TB('dict comprehension value (line %d)' % e.lineno)
        return mk('(dict_of N %s)' % it.s, 'pmap', lvl)

    def effect_stmt(self, e, st):
        if isinstance(e, ast.Call) and isinstance(e.func, ast.Attribute) and e.func.attr == 'set_description':
            return True                                     # progress bar
        return super().effect_stmt(e, st)

    def skip_stmt(self, s, st):
        # `if modtag == sample: continue`: a child is not the element itself
        if isinstance(s, ast.If) and not s.orelse and len(s.body) == 1 and isinstance(s.body[0], ast.Continue) and isinstance(s.test, ast.Compare) \
                and len(s.test.ops) == 1 and isinstance(s.test.ops[0], ast.Eq) and isinstance(s.test.left, ast.Name) and isinstance(s.test.comparators[0], ast.Name):
            a, b = st.env.get(s.test.left.id), st.env.get(s.test.comparators[0].id)
            is_child = lambda v: (isinstance(v, T) and v.ty == 'xmod') or isinstance(v, t5.PyElem)
            if is_child(a) and isinstance(b, T) and b.ty == 'xsample':
                return True
        if isinstance(s, ast.Global):
            return True
        return False

    def mutator(self, e, st):
        if isinstance(e, ast.Call) and isinstance(e.func, ast.Attribute) and e.func.attr == 'update' and len(e.args) == 1 and not e.keywords \
                and not (isinstance(e.func.value, ast.Attribute) and e.func.value.attr == 'attrib'):
            tgt = e.func.value
            cur = self.expr(tgt, st)
            d = self.expr(e.args[0], st)
            if isinstance(cur, (T, Rec)) and (cur.rtype if isinstance(cur, Rec) else cur.ty) == 'param' and isinstance(d, Dct):
                r = self.open_rec(cur)
                for k, v in d.items.items():
                    ent = self.records['param'].get(k)
                    if ent is None:
                        raise tt.TB('update of a parameter config by the key %r (line %d)' % (k, e.lineno))
                    r.fields[ent[0]] = self.as_typed(v, ent[1])
                self.update_place(tgt, r, st, e, '.update', extra=1)
                return True
            raise tt.TB('update of %r by %r (line %d)' % (cur, d, e.lineno))
        if isinstance(e, ast.Call) and isinstance(e.func, ast.Attribute) and e.func.attr == 'extend' and len(e.args) == 1 and not e.keywords:
            tgt = e.func.value
            root, steps = self.resolve_place(tgt, st)
            cur = self.expr(tgt, st)
            x = self.expr(e.args[0], st)
            if isinstance(x, Lst) and not x.items:
                return True
            if not tt.is_seq(x):
                raise tt.TB('extend by %r (line %d)' % (x, e.lineno))
            x = mk(x.s, LIST(x.ty[1]), tt.fresh_of(x))
            if isinstance(cur, Lst) and not cur.items:
                new = x
            else:
                cur = self.as_term(cur) if isinstance(cur, Lst) else cur
                if not (tt.is_seq(cur) and cur.ty[0] == 'list' and cty(cur.ty) == cty(x.ty)):
                    raise tt.TB('extend of %r by %r (line %d)' % (cur, x, e.lineno))
                new = mk('(%s ++ %s)' % (cur.s, x.s), cur.ty, min(tt.fresh_of(cur), 1))
            rootval = self.root_get(root, st)
            self.need_private(rootval, len(steps) + 1, '.extend', e)
            self.root_set(root, self.set_in(rootval, steps, new, e) if steps else new, st)
            return True
        return super().mutator(e, st)

    # ---- documents built by the reader ---------------------------------------------------------------------------------------------------------------
    def dict_display_term2(self, d, probe):
        keys = set(d.items)
        it = d.items
        if keys == {'name', 'type', 'data'} and isinstance(it['type'], S):
            ty = it['type'].v
            data = it['data']
            if ty in ('lumi', 'normfactor', 'shapefactor') and isinstance(data, S) and data.v is None:
                c = {'lumi': '(@DLumi N)', 'normfactor': '(@DNormfactor N)', 'shapefactor': '(@DShapefactor N)'}[ty]
            elif ty == 'normsys' and isinstance(data, Dct) and set(data.items) == {'lo', 'hi'}:
                c = None if probe else '(@DNormsys N %s %s)' % (self.num(data.items['lo']), self.num(data.items['hi']))
            elif ty == 'histosys' and isinstance(data, Dct) and set(data.items) == {'lo_data', 'hi_data'}:
                c = None if probe else '(@DHisto N %s %s)' % (self.as_typed(data.items['lo_data'], NUMS).s, self.as_typed(data.items['hi_data'], NUMS).s)
            elif ty in ('shapesys', 'staterror') and not isinstance(data, (S, Dct)):
                c = None if probe else '(@%s N %s)' % ('DShapesys' if ty == 'shapesys' else 'DStaterror', self.as_typed(data, NUMS).s)
            else:
                return None
            if probe:
                return True
            return mk('(@mkMod N %s %s)' % (self.strterm(it['name']), c), 'modifier', 2)
        if 'name' in keys and keys <= {'name', 'inits', 'bounds', 'auxdata', 'sigmas', 'fixed'}:
            if probe:
                return True
            sch = RECORDS['param']
            parts = [self.strterm(it['name'])]
            for k in ('inits', 'bounds', 'auxdata', 'sigmas', 'fixed'):
                parts.append(self.as_typed(it[k], sch[k][1]).s if k in it else 'None')
            return mk('(@mkParam N %s)' % ' '.join(parts), 'param', 2)
        if keys == {'name', 'config'} and isinstance(it['config'], Dct) and set(it['config'].items) == {'poi', 'parameters'}:
            if probe:
                return True
            c = it['config'].items
            return mk('(@mkMeas N %s %s %s)' % (self.strterm(it['name']), self.strterm(c['poi']), self.as_typed(c['parameters'], LIST('param')).s), 'measurement', 2)
        if keys == {'name', 'data', 'modifiers', 'parameter_configs'}:
            if probe:
                return True
            return mk('((@mkSample N %s %s %s), %s)' % (self.strterm(it['name']), self.as_typed(it['data'], NUMS).s, self.as_typed(it['modifiers'], LIST('modifier')).s,
                                                          self.as_typed(it['parameter_configs'], LIST('param')).s), 'sresult', 2)
        return None

    # ---- calls of the translated functions -------------------------------------------------------------------------------------------------------------
    def h_import_root_histogram(self, b, node, st):
        if not (isinstance(b['resolver'], Ext) and b['resolver'].tag == 'resolver' and isinstance(b['filename'], Ext) and b['filename'].tag == 'file'
                and isinstance(b['path'], S) and b['path'].v == '' and isinstance(b['filecache'], S) and b['filecache'].v is None):
            raise tt.TB('import_root_histogram is called with something else than the data file, an empty path and no cache of its own (line %d)' % node.lineno)
        gen_root_lookup(self.out)
        data = self.emit_call('(gen_root_lookup file %s)' % self.strterm(b['name'], node), NUMS, True, base='d')
        return Tup([data, Ext('bin-errors')])

    def h_extract_error(self, b, node, st):
        return Ext('bin-errors')

    def h_process_sample(self, b, node, st):
        if not (isinstance(b['resolver'], Ext) and isinstance(b['inputfile'], Ext) and b['inputfile'].tag == 'file' and isinstance(b['histopath'], S) and b['histopath'].v == ''):
            raise tt.TB('process_sample arguments (line %d)' % node.lineno)
        gen_process_sample(self.out)
        return self.emit_call('(gen_process_sample file %s %s)' % (self.strterm(b['channel_name'], node), self.as_typed(b['sample'], 'xsample').s), 'sresult', True, base='r')

    def h_process_data(self, b, node, st):
        if not (isinstance(b['resolver'], Ext) and isinstance(b['inputfile'], Ext) and b['inputfile'].tag == 'file' and isinstance(b['histopath'], S) and b['histopath'].v == ''):
            raise tt.TB('process_data arguments (line %d)' % node.lineno)
        gen_process_data(self.out)
        return self.emit_call('(gen_process_data file %s)' % self.as_typed(b['sample'], 'xdata').s, NUMS, True, base='d')

    def h_process_channel(self, b, node, st):
        raise tt.TB('process_channel is called from a translated function (line %d)' % node.lineno)


def first_of_pair(v):
    if isinstance(v, Tup) and len(v.items) == 2 and isinstance(v.items[1], Ext) and v.items[1].tag == 'bin-errors':
        return v.items[0]
    raise tt.TB('import_root_histogram does not return (bin contents, bin errors)')


def irh_env(fn):
    want_params(fn, ['resolver', 'filename', 'path', 'name', 'filecache'])
    d = tt.defaults_of(fn).get('filecache')
    if not (isinstance(d, ast.Constant) and d.value is None):
        raise tt.TB('import_root_histogram: the default of filecache is not None')
    return {'resolver': Ext('resolver'), 'filename': Ext('file'), 'path': S(''), 'name': mk('name', STR, 2), 'filecache': S(None)}


def gen_root_lookup(out):
    """import_root_histogram with nothing cached: the lookup of a key in the opened file"""
    if 'gen_root_lookup' in out.raises:
        return
    out.raises['gen_root_lookup'] = True
    fn, _ = out.fn(R, 'import_root_histogram')
    env = irh_env(fn)
    x = RX(out, 'file')
    x.exc_names = {'KeyError': 'EMissingHist'}
    x.locals = tt.assigned_locals(fn) - {'filecache', 'path'}
    x.patterns.append((tt.pattern('filecache or __FILECACHE__'), Dct({})))           # nothing cached
    x.patterns.append((tt.pattern('str(resolver(filename))'), mk('tt', 'path', 2)))
    o = x.block(fn.body, tt.St(env=env))
    o = tt.map_leaves(o, lambda l: tt.Ret(first_of_pair(l.val), l.st) if isinstance(l, tt.Ret) else l)
    body, r = x.render5(o, NUMS)
    out.add('gen_root_lookup', out.hdr(R, fn) + 'Definition gen_root_lookup (file : rootfile N) (name : string) : res (list (V N)) :=\n  %s.\n' % body)


class CacheType:
    """__FILECACHE__ against st_cache of PV.XmlCache"""

    def mem(self, x, d, k, node):
        raise tt.TB('`in` on the file cache (line %d)' % node.lineno)

    def get(self, x, d, k, node):
        raise tt.TB('the file cache is subscripted (line %d)' % node.lineno)

    def set(self, x, d, k, v, node):
        if not (isinstance(v, Tup) and len(v.items) == 3):
            raise tt.TB('a cache entry that is not a 3-tuple (line %d)' % node.lineno)
        f, keys, sig = v.items
        if not (isinstance(f, T) and f.ty == 'rootobj' and isinstance(keys, T) and keys.s == '(map fst %s)' % f.s):
            raise tt.TB('cache entry: (file, its keys, signature) expected (line %d)' % node.lineno)
        if not (isinstance(k, T) and k.ty == 'path'):
            raise tt.TB('cache key is not the resolved path (line %d)' % node.lineno)
        sg = 'None' if (isinstance(sig, S) and sig.v is None) else x.as_typed(sig, OPTION(NAT)).s
        return mk('((dir, CNew (rootfile N) %s %s) :: %s)' % (f.s, sg, d.s), 'cache', 2)


def gen_import_root_histogram(out):
    if 'gen_import_root_histogram' in out.raises:
        return
    out.raises['gen_import_root_histogram'] = True
    fn, _ = out.fn(R, 'import_root_histogram')
    env = irh_env(fn)
    x = RX(out, 'cache')
    x.dict_types = dict(CX.dict_types, cache=CacheType())
    x.exc_names = {'KeyError': 'EMissingHist'}
    x.locals = tt.assigned_locals(fn) - {'filecache', 'path'}
    x.patterns.append((tt.pattern('filecache or __FILECACHE__'), lambda st: mk('(st_cache X (rootfile N) st)', 'cache', 2)))       # callers pass no cache of their own
    x.patterns.append((tt.pattern('str(resolver(filename))'), lambda st: mk('dir', 'path', 2)))
    o = x.block(fn.body, tt.St(env=env))

    def leaf(l):
        if isinstance(l, tt.Ret):
            return tt.Ret(Tup([first_of_pair(l.val), l.st.env['filecache']]), l.st)
        return l
    o = tt.map_leaves(o, leaf)
    body, r = x.render5(o, None)
    out.add('gen_import_root_histogram', out.hdr(R, fn) + 'Definition gen_import_root_histogram (X : Type) (st : state X (rootfile N)) (dir name : string) '
            ': res (list (V N) * list (string * centry (rootfile N))) :=\n  %s.\n' % body)


class PmapType:
    """a python dict of parameter configs keyed by their name: the list of the configs in insertion order"""

    def mem(self, x, d, k, node):
        raise tt.TB('`in` on the dict of parameter configs (line %d)' % node.lineno)

    def get(self, x, d, k, node):
        raise tt.TB('the dict of parameter configs is subscripted (line %d)' % node.lineno)

    def set(self, x, d, k, v, node):
        return mk('(pm_set %s %s %s)' % (d.s, x.strterm(k, node), x.as_typed(v, 'param').s), 'pmap', tt.fresh_of(d))


def gen_process_measurements(out):
    if 'gen_process_measurements' in out.raises:
        return
    out.raises['gen_process_measurements'] = True
    fn, _ = out.fn(R, 'process_measurements')
    want_params(fn, ['toplvl', 'other_parameter_configs'])
    x = RX(out, 'file')
    x.dict_types = dict(CX.dict_types, pmap=PmapType())
    x.exc_names = {'ValueError': 'ENonScalar', 'RuntimeError': 'EMissingData'}
    x.rec_dflt = {'param': 'dflt_param'}
    x.locals = tt.assigned_locals(fn) - {'other_parameter_configs'}
    env = {'toplvl': mk('toplvl', 'xdoc', 0), 'other_parameter_configs': mk('other_parameter_configs', LIST('param'), 0)}
    o = x.block(fn.body, tt.St(env=env))
    body, r = x.render5(o, LIST('measurement'))
    out.add('gen_process_measurements', out.hdr(R, fn) + 'Definition gen_process_measurements (toplvl : xdoc N) (other_parameter_configs : list (param N)) : res (list (measurement N)) :=\n  %s.\n' % body)


def gen_dedupe_parameters(out):
    if 'gen_dedupe_parameters' in out.raises:
        return
    out.raises['gen_dedupe_parameters'] = True
    fn, _ = out.fn(R, 'dedupe_parameters')
    want_params(fn, ['parameters'])
    x = RX(out, 'file')
    x.exc_names = {'RuntimeError': 'EDedupe'}
    x.implicit_err = {}                                  # parameter_list[0] is read under `for p in parameter_list[1:]` of a list of more than one element
    x.rec_eqb = {'param': 'param_eqb N'}
    x.rec_dflt = {'param': 'dflt_param'}
    x.locals = tt.assigned_locals(fn)
    o = x.block(fn.body, tt.St(env={'parameters': mk('parameters', LIST('param'), 0)}))
    body, r = x.render5(o, LIST('param'))
    out.add('gen_dedupe_parameters', out.hdr(R, fn) + 'Definition gen_dedupe_parameters (parameters : list (param N)) : res (list (param N)) :=\n  %s.\n' % body)


def gen_process_sample(out):
    if 'gen_process_sample' in out.raises:
        return
    out.raises['gen_process_sample'] = True
    fn, _ = out.fn(R, 'process_sample')
    want_params(fn, ['sample', 'resolver', 'inputfile', 'histopath', 'channel_name', 'track_progress'])
    x = RX(out, 'file', split={'xmod': XMOD_SPLIT})
    x.exc_names = {'RuntimeError': 'EStatEmpty'}
    x.locals = tt.assigned_locals(fn) - {'inputfile', 'histopath'}
    env = {'sample': mk('sample', 'xsample', 0), 'resolver': Ext('resolver'), 'inputfile': Ext('file'), 'histopath': S(''), 'channel_name': mk('channel_name', STR, 2),
           'track_progress': S(False)}
    o = x.block(fn.body, tt.St(env=env))
    body, r = x.render5(o, 'sresult')
    out.add('gen_process_sample', out.hdr(R, fn) + 'Definition gen_process_sample (file : rootfile N) (channel_name : string) (sample : xsample N) : res sresult :=\n  %s.\n' % body)


def gen_process_data(out):
    if 'gen_process_data' in out.raises:
        return
    out.raises['gen_process_data'] = True
    fn, _ = out.fn(R, 'process_data')
    want_params(fn, ['sample', 'resolver', 'inputfile', 'histopath'])
    x = RX(out, 'file')
    x.exc_names = {'NotImplementedError': 'EMissingData'}
    x.locals = tt.assigned_locals(fn) - {'inputfile', 'histopath'}
    env = {'sample': mk('sample', 'xdata', 0), 'resolver': Ext('resolver'), 'inputfile': Ext('file'), 'histopath': S('')}
    o = x.block(fn.body, tt.St(env=env))
    body, r = x.render5(o, NUMS)
    out.add('gen_process_data', out.hdr(R, fn) + 'Definition gen_process_data (file : rootfile N) (sample : xdata) : res (list (V N)) :=\n  %s.\n' % body)


def gen_process_channel(out):
    if 'gen_process_channel' in out.raises:
        return
    out.raises['gen_process_channel'] = True
    fn, _ = out.fn(R, 'process_channel')
    want_params(fn, ['channelxml', 'resolver', 'track_progress'])
    x = RX(out, 'file')
    x.exc_names = {'RuntimeError': 'EMissingData'}
    x.locals = tt.assigned_locals(fn)
    env = {'channelxml': mk('channelxml', 'xchannel', 0), 'resolver': Ext('resolver'), 'track_progress': S(False)}
    o = x.block(fn.body, tt.St(env=env))

    def leaf(l):
        if isinstance(l, tt.Ret):
            v = l.val
            if not (isinstance(v, Tup) and len(v.items) == 4):
                raise tt.TB('process_channel does not return (name, data, samples, parameter configs)')
            a, b, c, d = v.items
            t = mk('(@mkCr N %s %s %s %s)' % (x.strterm(a), x.as_typed(b, NUMS).s, x.as_typed(c, LIST('sample')).s, x.as_typed(d, LIST('param')).s), 'chan_result', 2)
            return tt.Ret(t, l.st)
        return l
    o = tt.map_leaves(o, leaf)
    body, r = x.render5(o, 'chan_result')
    out.add('gen_process_channel', out.hdr(R, fn) + 'Definition gen_process_channel (file : rootfile N) (channelxml : xchannel N) : res (chan_result N) :=\n  %s.\n' % body)


# ---- compat.py -------------------------------------------------------------------------------------------------------------------------------------
K = 'compat.py'


def gen_interpret_rootname(out):
    if 'gen_interpret_rootname' in out.raises:
        return
    out.raises['gen_interpret_rootname'] = True
    fn, _ = out.fn(K, 'interpret_rootname')
    want_params(fn, ['rootname'])
    x = CX(out, K)
    x.exc_names = {'ValueError': 'EConfusing'}
    x.locals = tt.assigned_locals(fn)
    o = x.block(fn.body, tt.St(env={'rootname': mk('rootname', STR, 2)}))
    body, r = x.render5(o, 'interpretation')
    out.add('gen_interpret_rootname', out.hdr(K, fn) + 'Definition gen_interpret_rootname (rootname : string) : res interpretation :=\n  %s.\n' % body)


def gen_paramset_to_rootnames(out):
    if 'gen_paramset_to_rootnames' in out.raises:
        return
    out.raises['gen_paramset_to_rootnames'] = False
    fn, _ = out.fn(K, 'paramset_to_rootnames')
    want_params(fn, ['paramset'])
    x = CX(out, K)
    x.locals = tt.assigned_locals(fn)
    ps = Ext('paramset', {'name': mk('name', STR, 2), 'is_scalar': T('is_scalar', BOOL), 'constrained': T('constrained', BOOL), 'n_parameters': T('n_parameters', NAT)})
    o = x.block(fn.body, tt.St(env={'paramset': ps}))
    if x.raises(o):
        raise tt.TB('paramset_to_rootnames can raise')

    def leaf(l):
        if not isinstance(l, tt.Ret):
            raise tt.TB('paramset_to_rootnames: a path ends without a return')
        v = l.val
        if x.is_str(v):
            return '(inl %s)' % x.strterm(v)                   # one name
        v = x.as_term(v) if not isinstance(v, T) else v
        if tt.is_seq(v) and v.ty[1] == STR:
            return '(inr %s)' % v.s                            # a list of names
        raise tt.TB('paramset_to_rootnames returns %r' % (v,))
    body = tt.render2(o, leaf)
    out.add('gen_paramset_to_rootnames', out.hdr(K, fn) + 'Definition gen_paramset_to_rootnames (name : string) (is_scalar constrained : bool) (n_parameters : nat) '
            ': (string + list string) :=\n  %s.\n' % body)


def gen_clear_filecache(out):
    if 'gen_clear_filecache' in out.raises:
        return
    out.raises['gen_clear_filecache'] = False
    fn, _ = out.fn(R, 'clear_filecache')
    want_params(fn, [])
    if not (fn.body and isinstance(fn.body[0], ast.Global) and fn.body[0].names == ['__FILECACHE__']):
        raise tt.TB('clear_filecache does not declare __FILECACHE__ global')
    x = RX(out, 'cache')
    x.locals = set()
    o = x.block(fn.body, tt.St(env={}))
    if not isinstance(o, tt.Fall) or set(o.st.env) != {'__FILECACHE__'}:
        raise tt.TB('clear_filecache does something else than assigning the module cache')
    v = o.st.env['__FILECACHE__']
    if not (isinstance(v, Dct) and not v.items):
        raise tt.TB('clear_filecache assigns %r' % (v,))
    out.add('gen_clear_filecache', out.hdr(R, fn) + 'Definition gen_clear_filecache (X : Type) (st : state X (rootfile N)) : state X (rootfile N) :=\n'
            '  mkSt X (rootfile N) (st_fs X (rootfile N) st) [] (st_clock X (rootfile N) st).        (* the module global is the cache component of the state; {} is the empty cache *)\n')


def generate():
    out = Out()
    gen_make_hist_name(out)
    gen_export_root_histogram(out)
    gen_build_modifier(out)
    gen_build_sample(out)
    gen_build_data(out)
    gen_build_channel(out)
    gen_build_measurement(out)
    gen_interpret_rootname(out)
    gen_root_lookup(out)
    gen_import_root_histogram(out)
    gen_process_sample(out)
    gen_process_data(out)
    gen_process_channel(out)
    gen_process_measurements(out)
    gen_dedupe_parameters(out)
    gen_paramset_to_rootnames(out)
    gen_clear_filecache(out)
    text = GEN_HEADER + R_HEADER_NOTE + t5.PRELUDE5 + PRELUDE + R_PRELUDE + ''.join(t for _, t in out.defs) + '\nEnd Gen.\n'
    return text, dict(definitions=[n for n, _ in out.defs])


def extract(ctx):
    text, info = generate()
    core.write_if_changed(os.path.join(core.COQ, 'gen', GEN_NAME + '.v'), text)
    return dict(file='coq/gen/%s.v' % GEN_NAME, definitions=info['definitions'])
