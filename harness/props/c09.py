"""C09 - upper limits solve CLs(mu) = level at the requested level (grid scan and automatic toms748 scan)."""
import ast
import json
import math
import os
from fractions import Fraction

from harness import core, facts

F = Fraction
DEFAULT_LEVEL = F(1, 20)
REQUIRED_FACTS = ['toms_f_minus_level', 'toms_args_level', 'toms_bracket_level', 'toms_loops_level', 'grid_interp_level',
                  'level_never_reassigned', 'hypotest_fwd_grid', 'hypotest_fwd_toms']


# ---------------------------------------------------------------------------------------
# fact extraction (python ast -> coq/gen/FactsC09.v), fail closed
def _params(fn):
    a = fn.args
    if a.posonlyargs or a.vararg:
        raise facts.TieBroken('%s: positional-only / *args parameters are outside the extractor' % fn.name)
    names = [x.arg for x in a.args] + [x.arg for x in a.kwonlyargs]
    ndef = len(a.defaults)
    defaults = {}
    for x, d in zip(a.args[len(a.args) - ndef:], a.defaults):
        defaults[x.arg] = d
    for x, d in zip(a.kwonlyargs, a.kw_defaults):
        if d is not None:
            defaults[x.arg] = d
    return names, defaults, (a.kwarg.arg if a.kwarg else None), len(a.args)


def _assigned_names(fn, skip=()):
    """names (re)bound anywhere inside fn (not descending into the nested defs listed in skip)."""
    out = set()

    def tgt(t):
        if isinstance(t, ast.Name):
            out.add(t.id)
        elif isinstance(t, (ast.Tuple, ast.List)):
            for e in t.elts:
                tgt(e)
        elif isinstance(t, ast.Starred):
            tgt(t.value)

    def walk(n):
        for ch in ast.iter_child_nodes(n):
            if isinstance(ch, (ast.FunctionDef, ast.Lambda)) and (isinstance(ch, ast.Lambda) or ch.name in skip):
                continue
            if isinstance(ch, ast.Assign):
                for t in ch.targets:
                    tgt(t)
            elif isinstance(ch, (ast.AugAssign, ast.AnnAssign)):
                tgt(ch.target)
            elif isinstance(ch, (ast.For, ast.AsyncFor)):
                tgt(ch.target)
            elif isinstance(ch, ast.comprehension):
                tgt(ch.target)
            elif isinstance(ch, ast.NamedExpr):
                tgt(ch.target)
            elif isinstance(ch, (ast.With, ast.AsyncWith)):
                for it in ch.items:
                    if it.optional_vars is not None:
                        tgt(it.optional_vars)
            elif isinstance(ch, (ast.Global, ast.Nonlocal)):
                out.update(ch.names)
            elif isinstance(ch, ast.FunctionDef):
                out.add(ch.name)
            walk(ch)
    walk(fn)
    return out


def _src(node, caller_params, reassigned):
    if isinstance(node, ast.Name):
        if node.id in caller_params and node.id not in reassigned:
            return 'param:' + node.id
        return 'expr'
    if isinstance(node, ast.Constant):
        return 'const:' + repr(node.value)
    return 'expr'


def _bind(call, callee, caller_params, reassigned):
    names, _, kwname, npos = _params(callee)
    out, star = [], []
    if any(isinstance(a, ast.Starred) for a in call.args):
        raise facts.TieBroken('call of %s uses *args' % callee.name)
    if len(call.args) > npos:
        raise facts.TieBroken('call of %s has too many positional arguments' % callee.name)
    for nm, a in zip(names, call.args):
        out.append((nm, _src(a, caller_params, reassigned)))
    for k in call.keywords:
        if k.arg is None:
            if not isinstance(k.value, ast.Name):
                raise facts.TieBroken('call of %s: ** of a non-name' % callee.name)
            star.append(k.value.id if (k.value.id in caller_params or '**' + k.value.id in caller_params) and k.value.id not in reassigned else 'expr')
        else:
            if k.arg in [n for n, _ in out]:
                raise facts.TieBroken('call of %s binds %s twice' % (callee.name, k.arg))
            if k.arg not in names and kwname is None:
                raise facts.TieBroken('call of %s: unknown keyword %s' % (callee.name, k.arg))
            out.append((k.arg if k.arg in names else 'kwargs:' + k.arg, _src(k.value, caller_params, reassigned)))
    return out, star


def _calls(fn, name):
    return [n for n in ast.walk(fn) if isinstance(n, ast.Call) and isinstance(n.func, ast.Name) and n.func.id == name]


def _level_default(fn):
    _, defaults, _, _ = _params(fn)
    d = defaults.get('level')
    if d is None:
        raise facts.TieBroken('%s has no default for level' % fn.name)
    if not (isinstance(d, ast.Constant) and isinstance(d.value, (int, float)) and not isinstance(d.value, bool)):
        raise facts.TieBroken('%s: default of level is not a numeric literal' % fn.name)
    seg = repr(d.value)
    return F(seg)   # the decimal literal as written (0.05 -> 1/20)


def _hypotest_fwd(fn, kwname):
    """every hypotest(...) call inside fn is hypotest(<poi>, data, model, return_expected_set=True, **<kwname>)"""
    cs = _calls(fn, 'hypotest')
    if not cs:
        return False
    for c in cs:
        if len(c.args) != 3 or not all(isinstance(a, ast.Name) for a in c.args):
            return False
        if [a.id for a in c.args[1:]] != ['data', 'model']:
            return False
        kws = {k.arg: k.value for k in c.keywords}
        if set(kws) != {'return_expected_set', None}:
            return False
        v = kws['return_expected_set']
        if not (isinstance(v, ast.Constant) and v.value is True):
            return False
        if not (isinstance(kws[None], ast.Name) and kws[None].id == kwname):
            return False
    return True


def extract(ctx):
    tree, _ = facts.parse('infer/intervals/upper_limits.py')
    ul = facts.find_func(tree, 'upper_limit')
    grid = facts.find_func(tree, 'linear_grid_scan')
    toms = facts.find_func(tree, 'toms748_scan')
    ul_names, _, ul_kw, _ = _params(ul)
    if 'level' not in ul_names:
        raise facts.TieBroken('upper_limit has no parameter level')
    ul_params = set(ul_names) | ({ul_kw} if ul_kw else set())
    ul_re = _assigned_names(ul)
    gcalls, tcalls = _calls(ul, 'linear_grid_scan'), _calls(ul, 'toms748_scan')
    if len(gcalls) != 1 or len(tcalls) != 1:
        raise facts.TieBroken('upper_limit must call each scan function exactly once (found %d / %d)' % (len(gcalls), len(tcalls)))
    # the grid call must sit under `if scan is not None`, the automatic one outside it
    disp = [n for n in ul.body if isinstance(n, ast.If)]
    ok_disp = False
    for n in disp:
        t = n.test
        if isinstance(t, ast.Compare) and isinstance(t.left, ast.Name) and t.left.id == 'scan' and len(t.ops) == 1 \
                and isinstance(t.ops[0], ast.IsNot) and isinstance(t.comparators[0], ast.Constant) and t.comparators[0].value is None:
            inside = [c for c in ast.walk(n) if c is gcalls[0]]
            inside_t = [c for b in n.body for c in ast.walk(b) if c is tcalls[0]]
            if inside and not inside_t and all(isinstance(b, ast.Return) for b in n.body[-1:]):
                ok_disp = True
    if not ok_disp:
        raise facts.TieBroken('dispatch `if scan is not None: return linear_grid_scan(...)` not recognised')
    gb, gstar = _bind(gcalls[0], grid, ul_params, ul_re)
    tb, tstar = _bind(tcalls[0], toms, ul_params, ul_re)
    # deprecated alias pyhf.infer.intervals.upperlimit -> upper_limit
    itree, _ = facts.parse('infer/intervals/__init__.py')
    dep = facts.find_func(itree, 'upperlimit')
    dnames, _, dkw, _ = _params(dep)
    dcalls = [n for n in ast.walk(dep) if isinstance(n, ast.Call) and isinstance(n.func, ast.Attribute) and n.func.attr == 'upper_limit']
    if len(dcalls) != 1:
        raise facts.TieBroken('intervals.upperlimit does not call upper_limit exactly once')
    db, dstar = _bind(dcalls[0], ul, set(dnames) | ({dkw} if dkw else set()), _assigned_names(dep))

    # --- use of the level inside toms748_scan
    tnames, _, tkw, _ = _params(toms)
    nested = {n.name: n for n in toms.body if isinstance(n, ast.FunctionDef)}
    t_re = _assigned_names(toms, skip=tuple(nested))
    fl = {}
    # the roles of the nested functions are read off their use, not their names:
    #   objective = first argument of every toms748(...) call; cached evaluator = the one calling hypotest;
    #   bracket chooser = the one whose result is splatted into a toms748 call
    tc = _calls(toms, 'toms748')
    fnames = {c.args[0].id for c in tc if c.args and isinstance(c.args[0], ast.Name)}
    f = nested.get(next(iter(fnames))) if len(fnames) == 1 else None
    cached = [n for n in nested.values() if _calls(n, 'hypotest')]
    cached_name = cached[0].name if len(cached) == 1 else None
    bnames = {a.value.func.id for c in tc for a in c.args if isinstance(a, ast.Starred) and isinstance(a.value, ast.Call)
              and isinstance(a.value.func, ast.Name)}
    bb = nested.get(next(iter(bnames))) if len(bnames) == 1 else None
    # objective(poi, level, limit=0): every returned leaf is  <subscript chain of cached(poi)> - <its second parameter>
    ok = False
    if f is not None and cached_name is not None and len(f.args.args) >= 2:
        lvl = f.args.args[1].arg
        poi = f.args.args[0].arg
        leaves = []

        def leaf(e):
            if isinstance(e, ast.IfExp):
                leaf(e.body)
                leaf(e.orelse)
            else:
                leaves.append(e)
        rets = [n for n in ast.walk(f) if isinstance(n, ast.Return)]
        for r in rets:
            if r.value is not None:
                leaf(r.value)

        def rooted(e):
            while isinstance(e, ast.Subscript):
                e = e.value
            return isinstance(e, ast.Call) and isinstance(e.func, ast.Name) and e.func.id == cached_name and len(e.args) == 1 \
                and isinstance(e.args[0], ast.Name) and e.args[0].id == poi
        ok = bool(leaves) and all(isinstance(e, ast.BinOp) and isinstance(e.op, ast.Sub) and rooted(e.left)
                                  and isinstance(e.right, ast.Name) and e.right.id == lvl for e in leaves) \
            and lvl not in _assigned_names(f)
    fl['toms_f_minus_level'] = ok
    # toms748(objective, a, b, args=(level, idx), ...)
    ok = len(tc) >= 2 and f is not None
    for c in tc:
        a = facts.kw(c, 'args')
        ok = ok and isinstance(a, ast.Tuple) and len(a.elts) == 2 and isinstance(a.elts[0], ast.Name) and a.elts[0].id == 'level'
    fl['toms_args_level'] = ok
    # bracket chooser: values minus the enclosing level
    ok = False
    if bb is not None and 'level' not in [x.arg for x in bb.args.args] and 'level' not in _assigned_names(bb):
        subs = [n for n in ast.walk(bb) if isinstance(n, ast.BinOp) and isinstance(n.op, ast.Sub) and isinstance(n.left, ast.Subscript)]
        ok = bool(subs) and all(isinstance(n.right, ast.Name) and n.right.id == 'level' for n in subs)
    fl['toms_bracket_level'] = ok
    # the two extension loops compare the results with level
    ws = [n for n in toms.body if isinstance(n, ast.While)]
    ops = []
    for w in ws:
        for n in ast.walk(w.test):
            if isinstance(n, ast.Compare) and len(n.ops) == 1 and isinstance(n.comparators[0], ast.Name) and n.comparators[0].id == 'level':
                ops.append(type(n.ops[0]).__name__)
    fl['toms_loops_level'] = (len(ws) == 2 and ops in (['Lt', 'Gt'], ['Lt', 'GtE']))
    upper_ge = ops[1:] == ['GtE']
    # linear_grid_scan: _interp(level, ...)
    ic = _calls(grid, '_interp')
    fl['grid_interp_level'] = bool(ic) and all(c.args and isinstance(c.args[0], ast.Name) and c.args[0].id == 'level' for c in ic)
    g_re = _assigned_names(grid)
    fl['level_never_reassigned'] = 'level' not in t_re and 'level' not in g_re and 'level' not in ul_re and 'level' in tnames
    gnames, _, gkw, _ = _params(grid)
    fl['hypotest_fwd_grid'] = gkw is not None and _hypotest_fwd(grid, gkw) and gkw not in g_re
    fl['hypotest_fwd_toms'] = tkw is not None and _hypotest_fwd(toms, tkw) and tkw not in t_re

    gd, td, ud = _level_default(grid), _level_default(toms), _level_default(ul)

    def tbl(b):
        return '[' + '; '.join('(%s, %s)' % (core.cstr(k), core.cstr(v)) for k, v in b) + ']'
    txt = 'Open Scope string_scope.\n'
    txt += 'Definition ul_params : list string := %s.\n' % facts.coq_strlist(ul_names + (['**' + ul_kw] if ul_kw else []))
    txt += 'Definition ul_grid_bind : list (string * string) := %s.\n' % tbl(gb)
    txt += 'Definition ul_grid_starkw : list string := %s.\n' % facts.coq_strlist(gstar)
    txt += 'Definition ul_toms_bind : list (string * string) := %s.\n' % tbl(tb)
    txt += 'Definition ul_toms_starkw : list string := %s.\n' % facts.coq_strlist(tstar)
    txt += 'Definition dep_ul_bind : list (string * string) := %s.\n' % tbl(db)
    txt += 'Definition dep_ul_starkw : list string := %s.\n' % facts.coq_strlist(dstar)
    for nm, d in (('grid', gd), ('toms', td), ('ul', ud)):
        txt += 'Definition %s_level_default : Z * positive := (%d%%Z, %d%%positive).\n' % (nm, d.numerator, d.denominator)
    txt += 'Definition toms_upper_loop_ge : bool := %s.\n' % core.cbool(upper_ge)
    txt += 'Definition level_use_facts : list (string * bool) := [%s].\n' % '; '.join(
        '(%s, %s)' % (core.cstr(k), core.cbool(v)) for k, v in fl.items())
    facts.write_gen('FactsC09', txt)
    return dict(grid_bind=gb, toms_bind=tb, deprecated_alias_bind=db, star_kwargs=dict(grid=gstar, toms=tstar, alias=dstar),
                level_defaults=dict(grid=str(gd), toms=str(td), upper_limit=str(ud)), level_use=fl,
                upper_extension_loop='>=' if upper_ge else '>')



# ---------------------------------------------------------------------------------------
# synthetic CLs curves:  c(mu) = 1 / P(s*mu),  P(x) = (1+x)^p  or  1 + x + x^2/2   (strictly decreasing on mu >= 0, c(0) = 1)
def curve_float(par, mu):
    kind, s, p = par
    x = s * float(mu)
    if kind == 'pow':
        return 1.0 / (1.0 + x) ** p
    return 1.0 / (1.0 + x + 0.5 * x * x)


def curve_root(par, level):
    kind, s, p = par
    if kind == 'pow':
        return (level ** (-1.0 / p) - 1.0) / s
    return (-1.0 + math.sqrt(1.0 - 2.0 * (1.0 - 1.0 / level))) / s


def curve_lip(par):
    kind, s, p = par
    return F(s) * (p if kind == 'pow' else 1)


def gen_curves(rng, ordered):
    kind = rng.choice(['pow', 'pow', 'exp2'])
    p = rng.choice([1, 2, 3])
    base = rng.choice([0.05, 0.2, 0.5, 1.0, 2.0, 5.0]) * rng.uniform(0.5, 2.0)
    if ordered:
        # band order: index 0 (-2 sigma) is the lowest CLs curve -> the largest s
        fs = sorted([rng.uniform(0.3, 3.0) for _ in range(5)], reverse=True)
        exp = [(kind, base * f, p) for f in fs]
    else:
        exp = [(rng.choice(['pow', 'exp2']), base * rng.uniform(0.3, 3.0), rng.choice([1, 2, 3])) for _ in range(5)]
    obs = (rng.choice(['pow', 'exp2']), base * rng.uniform(0.3, 3.0), rng.choice([1, 2, 3]))
    return [obs] + exp


def gen_level(rng):
    r = rng.random()
    if r < 0.35:
        return rng.choice([0.05, 0.1, 0.01, 0.32, 0.2, 0.003, 0.45, 0.25])
    return math.exp(rng.uniform(math.log(0.0011), math.log(0.499)))


def close(a, b, rtol=1e-9, atol=1e-12):
    """core.close, but a non-finite implementation value is a plain mismatch (never a harness crash)."""
    if a is None or b is None or b != b or b in (float('inf'), float('-inf')):
        return False
    return core.close(a, b, rtol, atol)


def finite(xs):
    return all(isinstance(x, (int, float)) and x == x and abs(x) != float('inf') for x in xs)


class FakeConfig:
    poi_name = 'mu'

    def __init__(self, bounds):
        self._b = bounds

    def suggested_bounds(self):
        return [(-5.0, 5.0), tuple(self._b), (1e-10, 10.0)]

    def par_slice(self, name):
        assert name == 'mu'
        return slice(1, 2)


class FakeModel:
    def __init__(self, bounds):
        self.config = FakeConfig(bounds)


def run_impl(case, record=True):
    """run pyhf.infer.intervals.upper_limits.upper_limit with hypotest replaced by the synthetic curves."""
    import numpy as np
    import pyhf
    from pyhf.infer.intervals import upper_limits as ul
    import scipy.optimize
    pyhf.set_backend('numpy')
    tb = pyhf.tensorlib
    curves = [tuple(c) for c in case['curves']]
    calls, tcalls = [], []
    model = FakeModel(case.get('bounds', (0, 10)))
    data = object()

    def stub(*args, **kw):
        poi = args[0] if args else kw.pop('poi_test')
        vals = [curve_float(c, poi) for c in curves]
        calls.append(dict(poi=poi, nargs=len(args), data_ok=(len(args) > 1 and args[1] is data), model_ok=(len(args) > 2 and args[2] is model),
                          kw={k: v for k, v in kw.items()}, vals=vals))
        return tb.astensor(vals[0]), [tb.astensor(v) for v in vals[1:]]

    def toms_rec(f, a, b, args=(), **kw):
        pts = []

        def g(x, *aa):
            pts.append(float(x))
            return f(x, *aa)
        r = scipy.optimize.toms748(g, a, b, args=args, **kw)
        tcalls.append(dict(a=a, b=b, level_arg=(args[0] if args else None), kw={k: v for k, v in kw.items()}, pts=pts, root=float(r)))
        return r
    old_h, old_t = ul.hypotest, ul.toms748
    ul.hypotest, ul.toms748 = stub, toms_rec
    try:
        kwargs = dict(case.get('kwargs', {}))
        scan = None if case['mode'] == 'auto' else np.asarray(case['scan'], dtype='float64')
        how = case.get('call', 'kw')
        level = case['level']
        rr = case.get('return_results', True)
        if how == 'pos':
            out = ul.upper_limit(data, model, scan, level, rr, **kwargs)
        elif how == 'alias':
            import warnings
            with warnings.catch_warnings():
                warnings.simplefilter('ignore')
                out = pyhf.infer.intervals.upperlimit(data, model, scan, level, rr, **kwargs)
        else:
            out = ul.upper_limit(data, model, scan=scan, level=level, return_results=rr, **kwargs)
        res = dict(ok=True, nret=len(out), obs=float(out[0]), exp=[float(x) for x in out[1]], calls=calls, toms=tcalls)
        if len(out) > 2:
            pts, rs = out[2]
            res['points'] = [p if isinstance(p, int) else float(p) for p in pts]
            res['results'] = [[float(r[0])] + [float(x) for x in r[1]] for r in rs]
        return res
    except Exception as e:      # noqa
        return dict(ok=False, exc=core.exc_enum(e), msg=str(e)[:200], calls=calls, toms=tcalls)
    finally:
        ul.hypotest, ul.toms748 = old_h, old_t


# ---------------------------------------------------------------------------------------
# the property itself, in exact arithmetic on what the implementation returned (no Coq model involved)
def check_property(case, res):
    """returns list of (signature, what) ; empty when the property holds on this case."""
    bad = []
    mode = case['mode']
    level = core.frac(case['level'])
    curves = [tuple(c) for c in case['curves']]
    if not res['ok']:
        if mode == 'auto' and res['exc'] == 'PyValueError' and 'empty sequence' in (res.get('msg') or ''):
            return [('auto-exact-hit-upper-bound', 'automatic scan raised "%s": a CLs curve equals the level exactly at the final upper bound, '
                     'no strictly negative bracket end exists for it (C09_auto_scan_exact_hit_refuted)' % res.get('msg'))]
        return [('exception:%s:%s' % (mode, res['exc']), 'upper_limit raised %s: %s' % (res['exc'], res.get('msg')))]
    want = 3 if case.get('return_results', True) else 2
    if res['nret'] != want:
        bad.append(('return-shape:' + mode, 'upper_limit returned a %d-tuple, %d expected for return_results=%r' % (res['nret'], want, case.get('return_results', True))))
    if len(res['exp']) != 5:
        bad.append(('return-shape:' + mode, 'expected limits has %d entries' % len(res['exp'])))
        return bad
    limits = [res['obs']] + res['exp']
    if not finite(limits) or not finite(res.get('points', [])) or not all(finite(r) for r in res.get('results', [])):
        return bad + [('limit-not-finite:' + mode, 'upper_limit returned non-finite values: %r' % (limits,))]
    # forwarding of hypotest options and of (poi, data, model)
    kw = dict(case.get('kwargs', {}))
    if mode == 'auto':
        kw.pop('rtol', None)
        kw.pop('atol', None)
    want_kw = dict(kw, return_expected_set=True)
    for c in res['calls']:
        if c['kw'] != want_kw or not c['data_ok'] or not c['model_ok']:
            bad.append(('kwargs-not-forwarded:' + mode, 'hypotest called with %r (data ok %s, model ok %s), expected options %r'
                        % (c['kw'], c['data_ok'], c['model_ok'], want_kw)))
            break
    if mode == 'grid':
        scan = [core.frac(x) for x in case['scan']]
        pois = [core.frac(c['poi']) for c in res['calls']]
        if pois != scan:
            bad.append(('results-not-hypotests:grid', 'hypotest evaluated at %d points that are not the scan' % len(pois)))
        for k in range(6):
            cs = [core.frac(curve_float(curves[k], x)) for x in case['scan']]
            t = limits[k]
            cell = [i for i in range(1, len(cs)) if cs[i - 1] > level >= cs[i]]
            if not cell:
                continue
            i = cell[0]
            a, b, ca, cb = scan[i - 1], scan[i], cs[i - 1], cs[i]
            texp = b + (a - b) * (level - cb) / (ca - cb)
            tf = core.frac(t)
            slack = F(1, 10 ** 9) * max(abs(a), abs(b), 1)
            if not (min(a, b) - slack <= tf <= max(a, b) + slack):
                # is it the crossing of the default level? then the level was not forwarded
                dcell = [j for j in range(1, len(cs)) if cs[j - 1] > DEFAULT_LEVEL >= cs[j]]
                if level != DEFAULT_LEVEL and dcell and close(scan[dcell[0]] + (scan[dcell[0] - 1] - scan[dcell[0]]) * (DEFAULT_LEVEL - cs[dcell[0]]) / (cs[dcell[0] - 1] - cs[dcell[0]]), t, 1e-9):
                    bad.append(('grid-level-not-forwarded', 'grid limit %d = %r is the crossing of level 0.05, requested level %r' % (k, t, case['level'])))
                else:
                    bad.append(('grid-limit-outside-cell', 'limit %d = %r outside the crossing cell [%r, %r] of curve %d at level %r'
                                % (k, t, float(a), float(b), k, case['level'])))
            elif not close(texp, t, 1e-9):
                bad.append(('grid-limit-not-chord', 'limit %d = %r is not where the chord of the crossing cell meets the level (%r)' % (k, t, float(texp))))
        if 'results' in res:
            if [core.frac(p) for p in res['points']] != scan or len(res['results']) != len(scan) or any(
                    [core.frac(v) for v in r] != [core.frac(curve_float(c, x)) for c in curves] for r, x in zip(res['results'], case['scan'])):
                bad.append(('results-not-hypotests:grid', 'returned (scan, results) are not the hypothesis tests at the scan points'))
    else:
        rtol = case.get('kwargs', {}).get('rtol', 1e-4)
        atol = case.get('kwargs', {}).get('atol', 2e-12)
        for k in range(6):
            t = limits[k]
            val = core.frac(curve_float(curves[k], t))
            bound = curve_lip(curves[k]) * 2 * (F(atol) + F(rtol) * abs(core.frac(t))) + F(1, 10 ** 13)
            if abs(val - level) > bound:
                if level != DEFAULT_LEVEL and abs(val - DEFAULT_LEVEL) <= bound:
                    bad.append(('level-not-forwarded', 'automatic scan with level=%r returned limit %d = %r where CLs = %.6g: it solved CLs = 0.05'
                                % (case['level'], k, t, float(val))))
                else:
                    bad.append(('auto-limit-off-level', 'automatic scan with level=%r: CLs_%d(limit=%r) = %.9g, |difference| %.3g > tolerance %.3g'
                                % (case['level'], k, t, float(val), float(abs(val - level)), float(bound))))
        if 'results' in res:
            pts = res['points']
            if len(pts) != len(res['results']) or any([core.frac(v) for v in r] != [core.frac(curve_float(c, x)) for c in curves]
                                                      for r, x in zip(res['results'], pts)):
                bad.append(('results-not-hypotests:auto', 'returned (points, results) are not the hypothesis tests at those points'))
            fl = [core.frac(p) for p in pts]
            if len(set(fl)) != len(fl) or sorted(fl) != sorted(set(core.frac(c['poi']) for c in res['calls'])):
                bad.append(('results-not-hypotests:auto', 'reported points differ from the points at which hypotest was evaluated'))
    if case.get('ordered'):
        e = res['exp']
        tolo = [F(0)] * 4
        if mode == 'auto':
            rtol = case.get('kwargs', {}).get('rtol', 1e-4)
            tolo = [4 * F(rtol) * max(abs(core.frac(e[i])), abs(core.frac(e[i + 1]))) + F(1, 10 ** 10) for i in range(4)]
        for i in range(4):
            if core.frac(e[i]) > core.frac(e[i + 1]) + tolo[i]:
                bad.append(('expected-limits-unordered:' + mode, 'expected limits %r are not ordered from -2 sigma to +2 sigma' % (e,)))
                break
    return bad


# ---------------------------------------------------------------------------------------
# the model, evaluated inside Coq
HEADER_COMMON = '''From Coq Require Import ZArith QArith Qcanon String List.
Require Import PV.Num PV.Run PV.UpperLimit%s.
Import ListNotations. Open Scope string_scope.
%s
Definition Hq (tbl : list (Qc * (Qc * list Qc))) (p : Qc) : Qc * list Qc :=
  match @cfind QcNum tbl p with Some r => r | None => (0%%Qc, []) end.
Definition dq (d : Z * positive) : Qc := mkq (fst d) (snd d).
Definition no_toms (k : nat) (g : Qc -> Qc) (a b : Qc) : list Qc * Qc := ([], 0%%Qc).
Definition out (o : option (scan_out QcNum)) :=
  match o with
  | None => (0%%Z, [], [], [])
  | Some s => (1%%Z, qouts (so_obs s :: so_exp s), qouts (so_points s), map (fun ab => [qout (fst ab); qout (snd ab)]) (so_brackets s))
  end.
Definition grid_case tbl scan level :=
  out (@upper_limit QcNum (Hq tbl) no_toms toms_upper_loop_ge ul_grid_bind ul_toms_bind (dq grid_level_default) (dq toms_level_default) 64 (0%%Qc, 0%%Qc) (Some scan) level).
Definition auto_case tbl (rec : list (list Qc * Qc)) lo up level :=
  out (@upper_limit QcNum (Hq tbl) (fun k g a b => nth k rec ([], 0%%Qc)) toms_upper_loop_ge ul_grid_bind ul_toms_bind (dq grid_level_default) (dq toms_level_default) 64 (lo, up) None level).
'''
HEADER = HEADER_COMMON % (' PV.gen.FactsC09', '')
# when the facts cannot be extracted the model is still run, with the forwarding the property demands written out
HEADER_NOFACTS = HEADER_COMMON % ('', '''Definition ul_grid_bind := [("level", "param:level")].
Definition ul_toms_bind := [("level", "param:level")].
Definition grid_level_default : Z * positive := (1%Z, 20%positive).
Definition toms_level_default : Z * positive := (1%Z, 20%positive).
Definition toms_upper_loop_ge : bool := true.''')


def hres(vals):
    return '(%s, %s)' % (core.q(vals[0]), core.qlist(vals[1:]))


def model_expr(case, res):
    tbl = {}
    for c in res['calls']:
        tbl.setdefault(core.frac(c['poi']), c['vals'])
    t = '[' + '; '.join('(%s, %s)' % (core.q(p), hres(v)) for p, v in tbl.items()) + ']'
    if case['mode'] == 'grid':
        return 'grid_case %s %s %s' % (t, core.qlist(case['scan']), core.q(case['level']))
    rec = '[' + '; '.join('(%s, %s)' % (core.qlist(tc['pts']), core.q(tc['root'])) for tc in res['toms']) + ']'
    lo, up = case['bounds']
    return 'auto_case %s %s %s %s %s' % (t, rec, core.q(lo), core.q(up), core.q(case['level']))


def decode(s):
    v = core.parse_qc(s.replace('%Z', ''))
    if v[0] == 0:
        return None
    return dict(limits=core.to_frac(v[1]), points=core.to_frac(v[2]), brackets=[[F(*a), F(*b)] for a, b in v[3]])


def compare_model(case, res, mo):
    """API-level observables of the model against the implementation's; returns None or a description."""
    if mo is None:
        return 'model raises, implementation returns'
    limits = [res['obs']] + res['exp']
    if len(mo['limits']) != 6:
        return 'model returns %d limits' % len(mo['limits'])
    for k in range(6):
        if not close(mo['limits'][k], limits[k], 1e-9):
            return 'limit %d: model %.17g, implementation %.17g' % (k, float(mo['limits'][k]), limits[k])
    if 'points' in res and mo['points'] != [core.frac(p) for p in res['points']]:
        return 'reported points differ: model %r..., implementation %r...' % ([float(x) for x in mo['points'][:8]], res['points'][:8])
    if case['mode'] == 'auto' and 'points' not in res:
        # without return_results the evaluation order is still observable through the stub
        order = []
        for c in res['calls']:
            if core.frac(c['poi']) not in order:
                order.append(core.frac(c['poi']))
        if mo['points'] != order:
            return 'order of hypotest evaluations differs from the model cache'
    return None


# ---------------------------------------------------------------------------------------
def gen_case(rng, mode, i):
    ordered = rng.random() < 0.5
    curves = gen_curves(rng, ordered)
    level = gen_level(rng)
    kwargs = {}
    r = rng.random()
    if r < 0.3:
        kwargs = {'test_stat': rng.choice(['q', 'qtilde'])}
    elif r < 0.5:
        kwargs = {'calctype': 'asymptotics', 'par_bounds': [[0, 10], [0, 5]], 'marker': i}
    case = dict(mode=mode, curves=curves, level=level, ordered=ordered, kwargs=kwargs,
                return_results=rng.random() < 0.75, call=rng.choice(['kw', 'kw', 'pos', 'alias']))
    roots = [curve_root(c, level) for c in curves]
    if mode == 'grid':
        n = rng.choice([2, 3, 4, 5, 6, 9, 17, 21, 40])
        lo = rng.choice([0.0, 0.0, min(roots) * rng.uniform(0.1, 0.9)])
        hi = max(roots) * rng.uniform(1.05, 3.0) if rng.random() < 0.85 else max(roots) * rng.uniform(0.3, 0.9)
        style = rng.choice(['linspace', 'random', 'geometric'])
        if style == 'linspace':
            scan = [lo + (hi - lo) * j / (n - 1) for j in range(n)]
        elif style == 'random':
            inc = [rng.choice([1e-3, 0.1, 1.0, 1.0, 3.0]) * rng.uniform(0.2, 1.0) for _ in range(n - 1)]
            tot = sum(inc)
            scan, x = [lo], lo
            for d in inc:
                x += d * (hi - lo) / tot
                scan.append(x)
        else:
            scan = [lo] + [lo + (hi - lo) * 2.0 ** (j - (n - 2)) for j in range(n - 1)]
        scan = sorted(set(float(x) for x in scan))
        if len(scan) < 2:
            scan = [0.0, float(hi) + 1.0]
        case['scan'] = scan
        if rng.random() < 0.12:      # the level sits exactly on a grid value of one curve (the xp[j] == x branch)
            k = rng.randrange(6)
            j = rng.randrange(len(scan))
            lv = curve_float(curves[k], scan[j])
            if 0.001 < lv < 0.5:
                case['level'] = lv
    else:
        case['bounds'] = rng.choice([(0, 10), (0, 10), (0, 1), (0.5, 2.0), (0, 5), (1.0, 3.0), (0.0, 100.0), (3, 4)])
        if rng.random() < 0.25:
            case['kwargs'] = dict(case['kwargs'], rtol=rng.choice([1e-6, 1e-3, 1e-8]))
    return case


def nontrivial_sig(case, res):
    """a case is non-trivial when all six limits are interior crossings (grid) / were solved (auto); distinct by inputs."""
    if not res.get('ok'):
        return None
    if case['mode'] == 'grid':
        lv = core.frac(case['level'])
        for c in case['curves']:
            cs = [core.frac(curve_float(tuple(c), x)) for x in case['scan']]
            if not any(cs[i - 1] > lv >= cs[i] for i in range(1, len(cs))):
                return None
    return json.dumps([case['mode'], case['curves'], case['level'], case.get('scan'), case.get('bounds')])


def real_cases(ctx):
    """a few real models through the real hypotest."""
    out = []
    specs = [dict(signal=[12.0, 11.0], bkg=[50.0, 52.0], unc=[3.0, 7.0], obs=[51, 48])]
    if not ctx.quick:
        specs += [dict(signal=[5.0], bkg=[30.0], unc=[4.0], obs=[33]),
                  dict(signal=[3.0, 6.0, 2.0], bkg=[20.0, 40.0, 10.0], unc=[2.0, 5.0, 1.5], obs=[18, 45, 9])]
    levels = [0.1] if ctx.quick else [0.05, 0.1, 0.2, 0.01]
    for sp in specs:
        for lv in levels:
            out.append(dict(mode='auto', real=sp, level=lv, kwargs={}))
            out.append(dict(mode='grid', real=sp, level=lv, kwargs={}, scan=[0.0 + 5.0 * j / 20 for j in range(21)]))
    return out


def run_real(case):
    import numpy as np
    import pyhf
    pyhf.set_backend('numpy')
    sp = case['real']
    model = pyhf.simplemodels.uncorrelated_background(signal=sp['signal'], bkg=sp['bkg'], bkg_uncertainty=sp['unc'])
    data = pyhf.tensorlib.astensor(sp['obs'] + model.config.auxdata)
    scan = None if case['mode'] == 'auto' else np.asarray(case['scan'])
    bad = []
    try:
        obs, exp, (pts, rs) = pyhf.infer.intervals.upper_limits.upper_limit(data, model, scan=scan, level=case['level'], return_results=True, **case['kwargs'])
    except Exception as e:
        return [('exception:real-%s:%s' % (case['mode'], core.exc_enum(e)), 'upper_limit raised on a real model: %s' % str(e)[:200])], None
    limits = [float(obs)] + [float(x) for x in exp]
    level = core.frac(case['level'])
    out = dict(limits=limits, npoints=len(pts))
    if case['mode'] == 'auto':
        vals = []
        for k, t in enumerate(limits):
            r = pyhf.infer.hypotest(t, data, model, return_expected_set=True, **case['kwargs'])
            v = float(r[0]) if k == 0 else float(r[1][k - 1])
            vals.append(v)
            # |dCLs/dmu| * 2*rtol*mu, slope estimated from the curve itself, plus the fit noise
            h = max(1e-3 * t, 1e-6)
            r2 = pyhf.infer.hypotest(t + h, data, model, return_expected_set=True, **case['kwargs'])
            v2 = float(r2[0]) if k == 0 else float(r2[1][k - 1])
            slope = abs(core.frac(v2) - core.frac(v)) / core.frac(h)
            bound = 4 * slope * (F(2, 10 ** 12) + F(1, 10 ** 4) * abs(core.frac(t))) + F(2, 10 ** 5) * level + F(1, 10 ** 6)
            if abs(core.frac(v) - level) > bound:
                sig = 'level-not-forwarded' if level != DEFAULT_LEVEL and abs(core.frac(v) - DEFAULT_LEVEL) <= bound else 'auto-limit-off-level'
                bad.append((sig, 'real model, level=%r: CLs_%d(limit=%r) = %.9g (tolerance %.3g)' % (case['level'], k, t, v, float(bound))))
        out['cls_at_limits'] = vals
    else:
        sc = [core.frac(x) for x in case['scan']]
        for k, t in enumerate(limits):
            cs = [core.frac(float(r[0]) if k == 0 else float(r[1][k - 1])) for r in rs]
            cell = [i for i in range(1, len(cs)) if cs[i - 1] > level >= cs[i]]
            if not cell or any(cs[i] >= cs[i - 1] for i in range(1, len(cs))):
                continue
            i = cell[0]
            texp = sc[i] + (sc[i - 1] - sc[i]) * (level - cs[i]) / (cs[i - 1] - cs[i])
            if not close(texp, t, 1e-9):
                bad.append(('grid-limit-not-chord', 'real model: limit %d = %r, chord crossing of the cell is %r' % (k, t, float(texp))))
    for i in range(4):
        if limits[1 + i] > limits[2 + i] * (1 + 1e-3):
            bad.append(('expected-limits-unordered:' + case['mode'], 'real model: expected limits %r not ordered' % (limits[1:],)))
            break
    for p, r in list(zip(pts, rs))[:3]:
        rr = pyhf.infer.hypotest(p, data, model, return_expected_set=True, **case['kwargs'])
        if not close(core.frac(float(rr[0])), float(r[0]), 1e-6):
            bad.append(('results-not-hypotests:' + case['mode'], 'real model: returned result at %r is not hypotest(%r)' % (p, p)))
            break
    return bad, out


def shrink_case(case):
    """smaller variants of a failing synthetic case that still fail the property."""
    cur = case
    for mod in (dict(kwargs={}), dict(call='kw'), dict(return_results=True), dict(bounds=(0, 10)),
                dict(curves=[['pow', 1.0, 1]] + [['pow', s, 1] for s in (3.0, 2.0, 1.5, 1.0, 0.7)], ordered=True),
                dict(scan=[0.0, 0.5, 1.0, 2.0, 4.0, 8.0, 16.0, 32.0, 64.0])):
        if any(k not in cur for k in mod if k in ('scan', 'bounds')):
            continue
        trial = dict(cur, **mod)
        res = run_impl(trial)
        if check_property(trial, res):
            cur = trial
    return cur


def search(ctx, tie, report):
    """property-directed sweep on the implementation alone: both modes x levels x call styles on fixed curves."""
    found = False
    curves = [['pow', 1.0, 1]] + [['pow', s, 1] for s in (3.0, 2.0, 1.5, 1.0, 0.7)]
    for mode in ('auto', 'grid'):
        for lv in (0.2, 0.05, 0.01, 0.4, 0.1):
            for call in ('kw', 'pos', 'alias'):
                for kwargs in ({}, {'test_stat': 'q'}):
                    case = dict(mode=mode, curves=curves, level=lv, ordered=True, kwargs=kwargs, return_results=True, call=call)
                    if mode == 'grid':
                        case['scan'] = [0.25 * j for j in range(0, 801, 4)]
                    else:
                        case['bounds'] = (0, 10)
                    res = run_impl(case)
                    bad = check_property(case, res)
                    if bad:
                        report(case, res, bad)
                        found = True
    return found


def run(ctx):
    rng = ctx.rng
    tie = None
    nofacts = False
    try:
        fx = extract(ctx)
        ctx.coverage['extracted_facts'] = fx
    except facts.TieBroken as e:
        tie = 'fact extraction failed: %s' % e
        nofacts = True
    try:
        from harness.props import c09_tie
        ctx.coverage['translated_from_source'] = c09_tie.extract(ctx)
    except facts.TieBroken as e:
        tie = tie or ('translation of pyhf/infer/intervals/upper_limits.py to Gallina failed (harness/props/c09_tie.py): %s' % e)
    if tie is None:
        ok, txt = core.prove(ctx)
        if not ok:
            why = ('the functions translated from the source no longer coincide with the hand model (coq/TieUpperLimit.v, C09_source_is_model_*): '
                   if ('TieUpperLimit' in txt or 'source_is_model' in txt or 'UpperLimitGen' in txt) else 'proof obligations of props/C09.v no longer check: ')
            tie = why + txt[-1500:]
            # the model file itself must be available for the correspondence even when a tie lemma fails
            core.coq_make(['UpperLimit.vo'])
            if 'FactsC09' in txt or 'C09_' in txt:
                pass
    else:
        core.coq_make(['UpperLimit.vo'])
    ctx.trusted += ['harness/props/c09_tie.py + harness/props/tie_translate.py (python ast -> Gallina for _interp, linear_grid_scan, toms748_scan with its nested '
                    'functions and extension loops, upper_limit; fail closed): C09_source_is_model_* prove the translated definitions equal to the hand model; '
                    'the reading of the external names (hypotest, np.interp, np.argmin/argmax, toms748, the dict) is stated in the header of coq/gen/UpperLimitGen.v']
    ctx.trusted += ['harness/props/c09.py:extract (python ast -> FactsC09.v: argument binding of the two scan calls inside upper_limit and of the '
                    'deprecated alias, use of level inside toms748_scan/linear_grid_scan) - a syntactic reading of the source',
                    'scipy.optimize.toms748 enters auto_limit_solves as a Section variable with its post-condition (toms_post) as hypothesis; '
                    'the correspondence replays its recorded evaluation points and roots',
                    'numpy.interp modelled from compiled_base.c (arr_interp, binary_search_with_guess) and validated by the exact comparison']
    ctx.assumptions += ['toms_post: started on a sign-changing bracket toms748 returns a point between two points of opposite sign not further apart than xtol + rtol*|x|',
                        'CLs curves are L-Lipschitz (auto_limit_solves) / strictly decreasing on the grid (grid theorems) - the well-posedness premise of the property',
                        'backends other than numpy are outside the property quantifier: upper_limit raises there (jax: unhashable cache key, pytorch: negative-step slice, '
                        'tensorflow: no .T) - observed, reported, not gated']
    found_concrete = [False]
    stats = dict(grid=0, auto=0, grid_clamped_curves=0, level_on_grid_value=0, auto_extended_low=0, auto_extended_up=0, exceptions={}, kwargs_cases=0,
                 call_styles={}, toms_evaluations=0)

    def report(case, res, bad):
        sigs = sorted(set(s for s, _ in bad))
        small = shrink_case(case) if 'real' not in case else case
        sres = run_impl(small) if 'real' not in case else res
        sbad = check_property(small, sres) if 'real' not in case else bad
        if not sbad:
            small, sres, sbad = case, res, bad
        for sig in sorted(set(s for s, _ in sbad)):
            what = [w for s, w in sbad if s == sig][0]
            ctx.violation(sig, what, dict(kind='synthetic', case=small, impl={k: v for k, v in sres.items() if k not in ('calls',)},
                                          expected='limits solve CLs_k(mu) = level=%r for the six synthetic curves; options forwarded; results are the hypotests' % small['level'],
                                          all_failures=[w for _, w in sbad][:6], original_case=case if small is not case else None,
                                          theorem='C09_auto_limit_solves / C09_level_forwarded_both_modes / C09_grid_limit_in_crossing_cell / C09_results_are_hypotests'))
        found_concrete[0] = True

    # ---- corpus first, then generated cases
    cases = []
    cdir = os.path.join(core.VERIF, 'corpus', 'C09')
    if os.path.isdir(cdir):
        for fn in sorted(os.listdir(cdir)):
            if fn.endswith('.json'):
                cases.append(json.load(open(os.path.join(cdir, fn))))
    ncorpus = len(cases)
    ng, na = ctx.n(120, 1500), ctx.n(45, 500)
    cases += [gen_case(rng, 'grid', i) for i in range(ng)] + [gen_case(rng, 'auto', i) for i in range(na)]
    results = [run_impl(c) for c in cases]
    sigs = set()
    exprs, idx = [], []
    for i, (c, r) in enumerate(zip(cases, results)):
        stats[c['mode']] += 1
        stats['call_styles'][c.get('call', 'kw')] = stats['call_styles'].get(c.get('call', 'kw'), 0) + 1
        stats['kwargs_cases'] += bool(c.get('kwargs'))
        if not r['ok']:
            stats['exceptions'][r['exc']] = stats['exceptions'].get(r['exc'], 0) + 1
        bad = check_property(c, r)
        if bad:
            report(c, r, bad)
        s = nontrivial_sig(c, r)
        if s:
            sigs.add(s)
        if r['ok']:
            try:
                if c['mode'] == 'auto':
                    b = c['bounds']
                    stats['auto_extended_low'] += bool(r['toms'] and core.frac(r['toms'][0]['a']) != core.frac(b[0]))
                    stats['auto_extended_up'] += bool(r['toms'] and core.frac(r['toms'][0]['b']) != core.frac(b[1]))
                    stats['toms_evaluations'] += sum(len(t['pts']) for t in r['toms'])
                else:
                    lv = core.frac(c['level'])
                    for cu in c['curves']:
                        cs = [core.frac(curve_float(tuple(cu), x)) for x in c['scan']]
                        stats['grid_clamped_curves'] += not any(cs[j - 1] > lv >= cs[j] for j in range(1, len(cs)))
                        stats['level_on_grid_value'] += lv in cs
                exprs.append(model_expr(c, r))
                idx.append(i)
            except (ValueError, OverflowError):      # non-finite values from the implementation: already reported by check_property
                stats['non_finite_cases'] = stats.get('non_finite_cases', 0) + 1
    # ---- the model inside Coq on the same inputs
    disagree = []
    try:
        mres = core.coq_eval(ctx, 'ul', HEADER_NOFACTS if nofacts else HEADER, exprs, shard=12)
        for i, s in zip(idx, mres):
            mo = decode(s)
            why = compare_model(cases[i], results[i], mo)
            if why:
                disagree.append((i, why))
            elif cases[i]['mode'] == 'auto':
                # diagnostic only (internal observable): the six brackets the model hands to toms748 against the recorded ones
                rec = [[core.frac(t['a']), core.frac(t['b'])] for t in results[i]['toms']]
                stats['bracket_mismatches'] = stats.get('bracket_mismatches', 0) + (mo['brackets'] != rec)
    except core.CoqEvalError as e:
        tie = tie or ('model evaluation failed: %s' % str(e)[-800:])
    bracket_diag = None
    if disagree:
        i, why = disagree[0]
        tie = tie or ('model and implementation disagree on %d of %d cases; first: %s' % (len(disagree), len(idx), why))
        bracket_diag = dict(case=cases[i], why=why, impl={k: v for k, v in results[i].items() if k != 'calls'})

    # ---- real models through the real hypotest
    rstats = []
    for c in real_cases(ctx):
        bad, out = run_real(c)
        rstats.append(dict(mode=c['mode'], level=c['level'], out=out))
        if bad:
            for sig, what in bad:
                ctx.violation(sig, what, dict(kind='real', case=c, impl=out, expected='CLs at every reported limit equals the requested level',
                                              theorem='C09_auto_limit_solves / C09_grid_limit_is_linear_interp'))
            found_concrete[0] = True
        elif out is not None:
            sigs.add(json.dumps(['real', c['mode'], c['real'], c['level']]))

    # ---- decide
    if tie and not found_concrete[0]:
        if not search(ctx, tie, report):
            ctx.violation('tie-broken', tie[:300], dict(kind='tie', detail=tie, first_disagreement=bracket_diag, theorem='props/C09.v'), nofail=True)
    ctx.coverage.update(
        evaluations=len(cases) + len(rstats), distinct_nontrivial=len(sigs),
        rule='synthetic: six strictly decreasing rational CLs curves 1/(1+s mu)^p or 1/(1+x+x^2/2) per call (band-ordered in half of the cases), '
             'level log-uniform in (0.0011,0.499) or a round value or exactly a grid value of one curve; grids of 2-40 points (uniform, random increments over '
             '3 decades, geometric), 15% not bracketing the crossing; automatic scans from 8 different bounds incl. ones needing halving/doubling; '
             'call by keyword / position / deprecated alias, with and without hypotest options, return_results on/off.  Non-trivial = all six limits '
             'are interior crossings (grid) or solved roots (auto), or a real model; distinct by full input',
        corpus_cases=ncorpus, stats=stats, real=rstats, model_disagreements=len(disagree), backends=['numpy'],
        validated_not_proved=['scipy toms748 (post-condition assumed, checked on every automatic case against the synthetic curve)',
                              'numpy.interp kernel (modelled; exact comparison on every grid case)'],
        samples=[dict(case=cases[ncorpus], impl={k: v for k, v in results[ncorpus].items() if k not in ('calls', 'results', 'points')}),
                 dict(case=cases[-1], impl={k: v for k, v in results[-1].items() if k not in ('calls', 'results', 'points', 'toms')},
                      brackets=[[t['a'], t['b']] for t in results[-1].get('toms', [])])])


def replay(body):
    kind = body.get('kind')
    if kind == 'synthetic':
        res = run_impl(body['case'])
        bad = check_property(body['case'], res)
        print(json.dumps(dict(impl={k: v for k, v in res.items() if k not in ('calls', 'toms', 'results', 'points')}, failures=bad), indent=1, default=str))
        return 1 if bad else 0
    if kind == 'real':
        bad, out = run_real(body['case'])
        print(json.dumps(dict(impl=out, failures=bad), indent=1, default=str))
        return 1 if bad else 0
    print(body.get('detail'))
    return 0
