"""C12 - the model configuration is a consistent partition and honours overrides."""
import copy
import json
import logging

from harness import core, facts, engine
from harness.props import c01


def workspace_of(spec, poi, obs):
    return {'channels': copy.deepcopy(spec['channels']),
            'observations': [{'name': c['name'], 'data': list(obs[c['name']])} for c in spec['channels']],
            'measurements': [{'name': 'meas', 'config': {'poi': poi or '', 'parameters': copy.deepcopy(spec.get('parameters', []))}}],
            'version': '1.0.0'}


def permute(rng, ws):
    ws = copy.deepcopy(ws)
    rng.shuffle(ws['channels'])
    rng.shuffle(ws['observations'])
    for c in ws['channels']:
        rng.shuffle(c['samples'])
        for s in c['samples']:
            rng.shuffle(s['modifiers'])
    for m in ws['measurements']:
        rng.shuffle(m['config']['parameters'])
    return ws


def partition_checks(cfg):
    """the property evaluated on the implementation's own report; returns list of (what, detail)"""
    bad = []
    pos = 0
    for n, (a, b) in zip(cfg['par_order'], cfg['par_slices']):
        if a != pos or b < a:
            bad.append(('par-slices-do-not-tile', '%s has slice [%d,%d), expected start %d' % (n, a, b, pos)))
        pos = b
    if pos != cfg['npars']:
        bad.append(('par-slices-do-not-tile', 'slices end at %d, npars %d' % (pos, cfg['npars'])))
    for k in ('inits', 'fixed', 'par_names'):
        if len(cfg[k]) != cfg['npars']:
            bad.append(('suggestion-length:' + k, 'len(%s) = %d, npars = %d' % (k, len(cfg[k]), cfg['npars'])))
    if isinstance(cfg['bounds'], list) and len(cfg['bounds']) != cfg['npars']:
        bad.append(('suggestion-length:bounds', 'len(bounds) = %d, npars = %d' % (len(cfg['bounds']), cfg['npars'])))
    pos = 0
    for (cn, a, b), nb in zip(cfg['slices'], cfg['nbins']):
        if a != pos or b - a != nb:
            bad.append(('channel-slices-do-not-tile', '%s [%d,%d) nbins %d expected start %d' % (cn, a, b, nb, pos)))
        pos = b
    if pos != cfg['nmaindata']:
        bad.append(('channel-slices-do-not-tile', 'end %d nmaindata %d' % (pos, cfg['nmaindata'])))
    sizes = dict(zip(cfg['par_order'], [b - a for a, b in cfg['par_slices']]))
    naux = sum(sizes[n] for n in cfg['aux_order'])
    if naux != len(cfg['auxdata']) or any(t == 'unconstrained' for n, t in zip(cfg['par_order'], cfg['ptypes']) if n in cfg['aux_order']) \
            or [n for n, t in zip(cfg['par_order'], cfg['ptypes']) if t != 'unconstrained'] != cfg['aux_order']:
        bad.append(('auxdata-not-one-per-constrained-component', 'aux_order %r sizes %d auxdata %d' % (cfg['aux_order'], naux, len(cfg['auxdata']))))
    if sorted(cfg['par_order']) != cfg['parameters']:
        bad.append(('parameters-list', '%r vs %r' % (cfg['parameters'], cfg['par_order'])))
    return bad


def override_checks(spec, cfg):
    bad = []
    sl = dict(zip(cfg['par_order'], cfg['par_slices']))
    auxpos = {}
    k = 0
    for n in cfg['aux_order']:
        auxpos[n] = k
        k += sl[n][1] - sl[n][0]
    for p in spec.get('parameters', []):
        n = p['name']
        if n not in sl:
            continue
        a, b = sl[n]
        if 'inits' in p and cfg['inits'][a:b] != p['inits']:
            bad.append(('override-not-verbatim:inits', '%s: %r vs %r' % (n, cfg['inits'][a:b], p['inits'])))
        if 'bounds' in p and isinstance(cfg['bounds'], list) and [list(x) for x in cfg['bounds'][a:b]] != [list(x) for x in p['bounds']]:
            bad.append(('override-not-verbatim:bounds', '%s: %r vs %r' % (n, cfg['bounds'][a:b], p['bounds'])))
        if 'fixed' in p and cfg['fixed'][a:b] != [p['fixed']] * (b - a):
            bad.append(('override-not-verbatim:fixed', '%s: %r vs %r' % (n, cfg['fixed'][a:b], p['fixed'])))
        if 'auxdata' in p and n in auxpos and cfg['auxdata'][auxpos[n]:auxpos[n] + b - a] != p['auxdata']:
            bad.append(('override-not-verbatim:auxdata', '%s: %r vs %r' % (n, cfg['auxdata'][auxpos[n]:auxpos[n] + b - a], p['auxdata'])))
        if 'sigmas' in p and [float(x) for x in cfg['sigmas'].get(n, [])] != p['sigmas']:
            bad.append(('override-not-verbatim:sigmas', '%s: %r vs %r' % (n, cfg['sigmas'].get(n), p['sigmas'])))
        if 'factors' in p and [float(x) for x in cfg['factors'].get(n, [])] != p['factors']:
            bad.append(('override-not-verbatim:factors', '%s: %r vs %r' % (n, cfg['factors'].get(n), p['factors'])))
    return bad


def poi_checks(poi, cfg):
    """the parameter of interest is addressed through the same layout as everything else: poi_index is the start of the
    POI's slice, the name reported there is the POI's (a one-component non-scalar set is listed as name[0])"""
    bad = []
    pi = cfg['poi_index']
    if poi is None:
        if pi is not None:
            bad.append(('poi-index', 'no POI requested, poi_index = %r' % (pi,)))
        return bad
    if cfg.get('poi_name') != poi:
        bad.append(('poi-index', 'poi_name %r, requested %r' % (cfg.get('poi_name'), poi)))
    if poi not in cfg['par_order']:
        return bad + [('poi-index', 'POI %s not in par_order' % poi)]
    a, b = cfg['par_slices'][cfg['par_order'].index(poi)]
    if pi != a:
        bad.append(('poi-index', 'poi_index = %r, slice of %s is [%d,%d) (par_order %r)' % (pi, poi, a, b, cfg['par_order'])))
    elif not (isinstance(pi, int) and 0 <= pi < len(cfg['par_names'])) or cfg['par_names'][pi] not in (poi, poi + '[0]'):
        bad.append(('poi-index', 'par_names[poi_index] = %r, POI is %s' % (cfg['par_names'][pi] if isinstance(pi, int) and 0 <= pi < len(cfg['par_names']) else None, poi)))
    return bad


def reread_checks(model, cfg):
    """every accessor of the configuration read a second time on the same object gives the same answer"""
    again = engine.impl_config(model)
    d = [k for k in cfg if cfg[k] != again.get(k)]
    return [('accessor-not-idempotent:' + d[0], 'second read of the configuration of one model object differs in %r: %r then %r' % (d, cfg[d[0]], again.get(d[0])))] if d else []


def measurement_selection_checks(pyhf, wsd0, wcfg, prng):
    """a workspace with several measurements: the model built for a measurement selected by NAME or by INDEX carries that
    measurement's parameter settings and POI (decoy measurements with other settings surround it)"""
    bad = []
    real = copy.deepcopy(wsd0['measurements'][0])
    pars = real['config']['parameters']
    def decoy(k):
        d = {'name': 'decoy%d' % k, 'config': {'poi': '', 'parameters': []}}
        for pc in pars:                      # same parameters configured differently (keeps required settings such as lumi's present)
            q = copy.deepcopy(pc)
            if 'inits' in q:
                q['inits'] = [x + 0.125 for x in q['inits']]
            if 'fixed' in q:
                q['fixed'] = not q['fixed']
            d['config']['parameters'].append(q)
        return d
    ndec = prng.choice([1, 2])
    pos = prng.randrange(1, ndec + 1)          # never first: the default selection is not what is tested here
    meas = [decoy(k) for k in range(ndec)]
    meas.insert(pos, real)
    doc = dict(copy.deepcopy(wsd0), measurements=meas)
    ms = {'normsys': {'interpcode': 'code4'}, 'histosys': {'interpcode': 'code4p'}}
    try:
        ws = pyhf.Workspace(doc)
        for how, kw in (('measurement_name', dict(measurement_name=real['name'])), ('measurement_index', dict(measurement_index=pos))):
            cfg = engine.impl_config(ws.model(modifier_settings=ms, **kw))
            diff = [k for k in wcfg if k != 'sigmas' and cfg.get(k) != wcfg[k]]
            if diff:
                bad.append(('measurement-selection:' + how, 'Workspace.model(%s=%r) on a workspace with measurements %r does not carry the settings of that measurement: differs in %r (e.g. %s: %r vs %r)'
                            % (how, list(kw.values())[0], [m['name'] for m in meas], diff, diff[0], cfg.get(diff[0]), wcfg[diff[0]]), doc))
    except Exception as e:
        bad.append(('measurement-selection:raises', 'selecting a measurement of a well-formed workspace raises %s: %s' % (core.exc_enum(e), str(e)[:160]), doc))
    return bad


def workspace_data_checks(ws, wm, wsd0, obs, cfg):
    """Workspace.data read repeatedly (with and without auxiliary data) on one workspace object; expected layout from the
    observations handed in (pristine copy), the reported channel order and the reported auxiliary data.
    returns (first full data vector, list of (signature, detail, observed, expected))"""
    bad = []
    expect_main = [float(x) for cn in cfg['channels'] for x in obs[cn]]
    expect_full = expect_main + [float(x) for x in cfg['auxdata']]
    reads = [('data(model)', True), ('data(model, include_auxdata=False)', False), ('data(model) [second call]', True),
             ('data(model, include_auxdata=False) [second call]', False), ('data(model) [third call]', True)]
    first = None
    for k, (what, aux) in enumerate(reads):
        got = [float(x) for x in (ws.data(wm) if aux else ws.data(wm, include_auxdata=False))]
        if first is None:
            first = got
        exp = expect_full if aux else expect_main
        if got != exp:
            sig = 'workspace-data-layout' if k == 0 else 'workspace-data-not-idempotent'
            bad.append((sig, 'Workspace.%s does not follow the model\'s channel order%s' % (what, ' + auxdata' if aux else ''), got, exp))
            break
    now = {o['name']: [float(x) for x in o['data']] for o in ws['observations']}
    was = {o['name']: [float(x) for x in o['data']] for o in wsd0['observations']}
    stored = {cn: [float(x) for x in v] for cn, v in getattr(ws, 'observations', {}).items()}
    if now != was or (stored and stored != was):
        bad.append(('workspace-data-mutates-workspace', 'reading Workspace.data changed the observations stored in the workspace', stored if stored != was else now, was))
    return first, bad


def load_corpus():
    import glob, os
    out = []
    if os.environ.get('VERIF_NO_CORPUS'):        # (testing the generator alone)
        return out
    for f in sorted(glob.glob(os.path.join(core.VERIF, 'corpus', 'C12', '*.json'))):
        c = json.load(open(f))
        c.setdefault('st', dict(normsys='code4', histosys='code4p'))
        out.append(c)
    return out


# tie to the source: coq/gen/ConfigGen.v is written from $VERIF_REPO/src on every run (harness/props/c12_tie.py)
def generate():
    from harness.props import c12_tie
    return c12_tie.generate()


def extract(ctx):
    from harness.props import c12_tie
    return c12_tie.extract(ctx)


def run(ctx):
    import pyhf
    logging.getLogger('pyhf').setLevel(logging.CRITICAL)
    rng = ctx.rng
    tie = None
    try:
        ctx.coverage['translated_from_source'] = extract(ctx)
    except facts.TieBroken as e:
        tie = 'translation of pyhf/mixins.py (_ChannelSummaryMixin.__init__) to Gallina failed (harness/props/c12_tie.py): %s' % e
    if tie is None:
        ok, txt = core.prove(ctx, extra=['EngineRun.vo'])
        if not ok:
            why = ('the channel summary translated from the source no longer coincides with the hand model (coq/TieConfig.v, C12_source_is_model_channel_summary): '
                   if ('TieConfig' in txt or 'source_is_model' in txt or 'ConfigGen' in txt) else 'proof obligations of props/C12.v no longer check: ')
            tie = why + txt[-1500:]
    if tie is not None:
        core.coq_make(['EngineRun.vo'])                # the hand model is run for the correspondence even when the tie no longer checks
    ctx.trusted += ['harness/props/c12_tie.py + harness/props/tie_translate.py (python ast -> Gallina for _ChannelSummaryMixin.__init__; fail closed): '
                    'C12_source_is_model_channel_summary proves the translated definition equal to cfg_channels / cfg_samples / cfg_modifiers / nbins / '
                    'channel_slices of the hand model; the reading of the python values is stated in the header of coq/gen/ConfigGen.v']
    pyhf.set_backend('numpy')
    n = ctx.n(150, 2500)
    cases = c01.gen_cases(ctx, n)
    for c in cases:
        c['st'] = dict(normsys='code4', histosys='code4p')
    cases = load_corpus() + cases
    exprs, impls, wsdatas = [], [], []
    stats = dict(overrides=0, permuted=0, build_roundtrips=0, build_known=0, corpus=len(cases) - n, poi_kinds={}, poi_after_multicomponent=0,
                 poi_switches=0, data_reads=0)
    sigs = set()
    found = False
    evaluations = 0
    for case in cases:
        spec, poi = case['spec'], case['poi']
        before = copy.deepcopy(spec)
        prng = core.random.Random(rng.randrange(1 << 30))
        try:
            m = engine.impl_build(spec, poi, case['st'])
        except Exception as e:
            ctx.violation('wellformed-refused:' + core.exc_enum(e), 'well-formed specification refused: %s' % str(e)[:200], dict(case=case))
            found = True
            impls.append(None)
            wsdatas.append(None)
            exprs.append('run_build %s' % engine.spec_to_coq(spec, poi))
            continue
        cfg = engine.impl_config(m)
        impls.append(cfg)
        wsdatas.append(None)
        evaluations += 1
        kind = engine.par_info(spec).get(poi, ('none',))[0]
        stats['poi_kinds'][kind] = stats['poi_kinds'].get(kind, 0) + 1
        if poi in cfg['par_order'] and any(b - a > 1 for a, b in cfg['par_slices'][:cfg['par_order'].index(poi)]):
            stats['poi_after_multicomponent'] += 1
        if spec != before:
            ctx.violation('model-mutates-spec', 'pyhf.Model modified the caller\'s specification', dict(case=case))
            found = True
        stats['overrides'] += len(spec.get('parameters', []))
        if engine.nontrivial(spec) or spec.get('parameters'):
            sigs.add(engine.shape_signature(spec))
        for sig, detail in partition_checks(cfg) + override_checks(spec, cfg) + poi_checks(poi, cfg) + reread_checks(m, cfg):
            ctx.violation(sig, detail, dict(case=case, config={k: v for k, v in cfg.items() if k != 'sigmas'}, theorem='C12_par_slices_tile / C12_overrides_verbatim'))
            found = True
        exprs.append(engine.case_expr(spec, poi, case['st'], []))
        # ---- workspace layer: data layout, listing-order independence, rebuild ----
        obs = {c['name']: [engine.dy(prng, 0, 60, 1.0) for _ in c['samples'][0]['data']] for c in spec['channels']}
        wsd = workspace_of(spec, poi, obs)
        wsd0 = copy.deepcopy(wsd)
        try:
            ws = pyhf.Workspace(wsd)
            wm = ws.model(modifier_settings={'normsys': {'interpcode': 'code4'}, 'histosys': {'interpcode': 'code4p'}})
            wcfg = engine.impl_config(wm)
            data, dbad = workspace_data_checks(ws, wm, wsd0, obs, wcfg)
            stats['data_reads'] += 5
        except Exception as e:
            ctx.violation('workspace-refused:' + core.exc_enum(e), 'workspace of a well-formed spec refused: ' + str(e)[:200], dict(case=case, workspace=wsd))
            found = True
            continue
        wsdatas[-1] = dict(data=data, obs=obs)
        for sig, detail, got, exp in dbad:
            ctx.violation(sig, detail, dict(case=case, workspace=wsd0, obs=obs, impl=got, expected=exp, theorem='C12_workspace_data_layout'))
            found = True
        if wsd != wsd0:
            ctx.violation('workspace-mutates-spec', 'Workspace/model()/data() modified the caller\'s document', dict(case=case))
            found = True
        for sig, detail in poi_checks(poi, wcfg) + reread_checks(wm, wcfg):
            ctx.violation(sig, 'Workspace.model(): ' + detail, dict(case=case, workspace=wsd0, config={k: v for k, v in wcfg.items() if k != 'sigmas'}))
            found = True
        if True:
            stats['measurement_selections'] = stats.get('measurement_selections', 0) + 2
            for sig, detail, doc in measurement_selection_checks(pyhf, wsd0, wcfg, prng):
                ctx.violation(sig, detail, dict(case=case, workspace=doc, kind='measurement-selection', theorem='C12_overrides_verbatim (the selected measurement\'s settings)'))
                found = True
        # Workspace.model(poi_name=...) : every other one-component parameter as the parameter of interest
        alts = [nm for nm, (a, b) in zip(wcfg['par_order'], wcfg['par_slices']) if b - a == 1 and nm != poi]
        for alt in prng.sample(alts, min(len(alts), 2)):
            stats['poi_switches'] += 1
            try:
                am = ws.model(poi_name=alt, modifier_settings={'normsys': {'interpcode': 'code4'}, 'histosys': {'interpcode': 'code4p'}})
                acfg = engine.impl_config(am)
            except Exception as e:
                ctx.violation('poi-refused:' + core.exc_enum(e), 'Workspace.model(poi_name=%s) refused for a one-component parameter: %s' % (alt, str(e)[:160]),
                              dict(case=case, workspace=wsd0, poi_name=alt))
                found = True
                continue
            d = [k for k in wcfg if k not in ('poi_index', 'poi_name') and wcfg[k] != acfg.get(k)]
            for sig, detail in poi_checks(alt, acfg) + ([('poi-index', 'choosing another POI changes %r' % d)] if d else []):
                ctx.violation(sig, 'Workspace.model(poi_name=%s): %s' % (alt, detail), dict(case=case, workspace=wsd0, poi_name=alt,
                              config={k: v for k, v in acfg.items() if k != 'sigmas'}))
                found = True
        if {k: v for k, v in wcfg.items()} != {k: v for k, v in cfg.items()}:
            d = [k for k in cfg if cfg[k] != wcfg.get(k)]
            ctx.violation('workspace-model-differs', 'Workspace.model() differs from Model(spec) in %r' % d, dict(case=case, keys=d))
            found = True
        # listing-order independence
        pw = permute(prng, wsd)
        stats['permuted'] += 1
        try:
            pws = pyhf.Workspace(pw)
            pm = pws.model(modifier_settings={'normsys': {'interpcode': 'code4'}, 'histosys': {'interpcode': 'code4p'}})
            pcfg = engine.impl_config(pm)
            pdata = pws.data(pm)
            pdata_again = pws.data(pm)
            if [float(x) for x in pdata_again] != [float(x) for x in pdata]:
                ctx.violation('workspace-data-not-idempotent', 'second Workspace.data(model) on one workspace differs from the first',
                              dict(case=case, workspace=pw, obs=obs, impl=[float(x) for x in pdata_again], expected=[float(x) for x in pdata]))
                found = True
            pars = engine.gen_point(prng, spec, cfg)
            l1 = float(wm.logpdf(pars, data)[0])
            l2 = float(pm.logpdf(pars, pdata)[0])
            same = pcfg == wcfg and [float(x) for x in pdata] == [float(x) for x in data] and \
                (l1 == l2 or abs(l1 - l2) <= 1e-9 * max(1.0, abs(l1)) or (l1 != l1 and l2 != l2))
            if not same:
                d = [k for k in wcfg if wcfg[k] != pcfg.get(k)]
                ctx.violation('listing-order-dependence', 'permuting the channel/sample/modifier/parameter/observation lists changes %r (logpdf %r vs %r)' % (d, l1, l2),
                              dict(case=case, workspace=wsd, permuted=pw, pars=pars, theorem='C12_listing_order_irrelevant'))
                found = True
        except Exception as e:
            ctx.violation('listing-order-dependence:' + core.exc_enum(e), 'permuted workspace fails: ' + str(e)[:200], dict(case=case, permuted=pw))
            found = True
        # rebuild from model and data
        stats['build_roundtrips'] += 1
        mixed = any(len(set(wcfg['fixed'][a:b])) > 1 for a, b in wcfg['par_slices'])
        defaults_dropped = any(k in p for p in spec.get('parameters', []) for k in ('auxdata', 'sigmas', 'factors'))
        nopoi = wcfg['poi_index'] is None
        try:
            ws2 = pyhf.Workspace.build(wm, data)
            m2 = ws2.model(modifier_settings={'normsys': {'interpcode': 'code4'}, 'histosys': {'interpcode': 'code4p'}})
            c2 = engine.impl_config(m2)
            d2 = ws2.data(m2)
            okrt = c2 == wcfg and [float(x) for x in d2] == [float(x) for x in data]
            why = [k for k in wcfg if wcfg[k] != c2.get(k)]
        except Exception as e:
            okrt = False
            why = core.exc_enum(e) + ': ' + str(e)[:120]
        if not okrt:
            if mixed:
                sig = 'workspace-build:mixed-fixed-flags'
            elif nopoi:
                sig = 'workspace-build:no-poi'
            elif defaults_dropped:
                sig = 'workspace-build:drops-auxdata-sigmas-factors'
            else:
                sig = 'workspace-build-roundtrip'
            stats['build_known'] += 1
            ctx.violation(sig, 'Workspace.build(model, data) does not reproduce model and data: %r' % (why,),
                          dict(case=case, workspace=wsd, why=why, theorem='C12_build_roundtrip'))
            if sig == 'workspace-build-roundtrip':
                found = True
    # ---- correspondence with the transcription: the full configuration ----
    ndis = 0
    try:
        res = core.coq_eval(ctx, 'cfg', engine.HEADER, exprs, shard=25)
        for case, cfg, r, wd in zip(cases, impls, res, wsdatas):
            if cfg is None:
                continue
            mo = engine.decode_case(r)
            d = [('build', 'ok', mo['build'])] if mo['build'] != 'ok' else engine.diff_config(cfg, mo)
            if wd is not None and mo['build'] == 'ok':
                # the workspace's data vector against the MODEL's layout: observations in the model's channel order, then its auxdata
                mexp = [core.frac(x) for cn in mo['channels'] for x in wd['obs'][cn]] + list(mo['auxdata'])
                d += engine.diff_vec('workspace.data', wd['data'], mexp)
            if d:
                ndis += 1
                if ndis == 1:
                    ctx.coverage['first_disagreement'] = dict(case=case, diffs=[(a, str(b)[:300], str(c)[:300]) for a, b, c in d[:4]])
                    tie = tie or 'model and implementation disagree on the configuration: %r' % (d[:2],)
    except core.CoqEvalError as e:
        tie = tie or ('model evaluation failed: ' + str(e)[-1200:])
    if tie:
        ctx.notes.append('tie: ' + tie[:600])
        ctx.log('tie broken: ' + ' '.join(tie.split())[:300])
    if tie and not found:
        ctx.violation('tie-broken', tie[:300], dict(kind='tie', detail=tie, theorem='props/C12.v / Impl correspondence',
                                                     first_disagreement=ctx.coverage.get('first_disagreement')), nofail=True)
    ctx.trusted += ['"never modifies the caller\'s specification" has no content in a pure model: harness-only deep comparison']
    ctx.coverage.update(evaluations=evaluations, distinct_nontrivial=len(sigs), stats=stats, model_impl_disagreements=ndis,
                        rule='corpus, then the C01 spec generator (30% of the specs from a random subset of the modifier families) with '
                             'measurement overrides (inits, bounds, fixed, auxdata, sigmas, factors); POI = none / a normfactor / any other '
                             'one-component parameter (alpha, lumi, one-bin shapefactor, one-bin shapesys or staterror gamma); every case: '
                             'partition/length/override/POI predicates on the reported configuration, every accessor read twice on one object, '
                             'Workspace.data read five times (with/without auxdata) against observations + auxdata in the reported order and '
                             'the stored observations compared afterwards, Workspace.model(poi_name=other one-component parameter), one random '
                             'permutation of all lists (config, data, logpdf equal), Workspace.build round trip, deep comparison of inputs; '
                             'full configuration (incl. poi_index) and the workspace data vector diffed with the Coq model. non-trivial = C01 '
                             'rule or has overrides; distinct = shape signature',
                        samples=[dict(spec=cases[0]['spec'], config={k: v for k, v in (impls[0] or {}).items() if k in ('par_order', 'par_slices', 'auxdata', 'aux_order', 'fixed')})])


def replay(body):
    import pyhf
    logging.getLogger('pyhf').setLevel(logging.CRITICAL)
    pyhf.set_backend('numpy')
    case = body['case']
    ms = {'normsys': {'interpcode': 'code4'}, 'histosys': {'interpcode': 'code4p'}}
    out = {}
    if body.get('kind') == 'measurement-selection':
        ws = pyhf.Workspace(copy.deepcopy(body['workspace']))
        names = [m_['name'] for m_ in body['workspace']['measurements']]
        k = names.index('meas')
        by_name = engine.impl_config(ws.model(measurement_name='meas', modifier_settings=ms))
        by_index = engine.impl_config(ws.model(measurement_index=k, modifier_settings=ms))
        print(json.dumps(dict(measurements=names, by_name={x: by_name[x] for x in ('inits', 'fixed', 'poi_name', 'poi_index')},
                              by_index={x: by_index[x] for x in ('inits', 'fixed', 'poi_name', 'poi_index')}, equal=by_name == by_index), indent=1, default=str))
        return 0
    if 'workspace' in body:
        wsd = copy.deepcopy(body['workspace'])
        ws = pyhf.Workspace(wsd)
        m = ws.model(poi_name=body['poi_name'], modifier_settings=ms) if body.get('poi_name') else ws.model(modifier_settings=ms)
        out['workspace_data_reads'] = [[float(x) for x in ws.data(m)], [float(x) for x in ws.data(m, include_auxdata=False)], [float(x) for x in ws.data(m)]]
        out['observations_after'] = {o['name']: list(o['data']) for o in ws['observations']}
    else:
        m = engine.impl_build(case['spec'], case['poi'], case.get('st') or dict(normsys='code4', histosys='code4p'))
    cfg = engine.impl_config(m)
    out['config'] = cfg
    out['second_read_equal'] = engine.impl_config(m) == cfg
    out['poi'] = dict(requested=body.get('poi_name') or case.get('poi'), poi_index=cfg['poi_index'],
                      name_at_index=cfg['par_names'][cfg['poi_index']] if cfg['poi_index'] is not None else None)
    out['property_checks'] = [list(x) for x in partition_checks(cfg) + override_checks(case['spec'], cfg) + poi_checks(body.get('poi_name') or case.get('poi'), cfg)]
    if 'expected' in body:
        out['expected'] = body['expected']
    print(json.dumps(out, indent=1, default=str))
    return 0
