"""C12 - the model configuration is a consistent partition and honours overrides."""
import copy
import json
import logging

from harness import core, engine
from harness.props import c01


def workspace_of(spec, poi, obs):
    return {'channels': copy.deepcopy(spec['channels']),
            'observations': [{'name': c['name'], 'data': list(obs[c['name']])} for c in spec['channels']],
            'measurements': [{'name': 'meas', 'config': {'poi': poi or '', 'parameters': copy.deepcopy(spec.get('parameters', []))}}],
            'version': '1.0.0'}


def permute(rng, ws):
    ws = copy.deepcopy(ws)
    rng.shuffle(ws['channels'])
    rng.shuffle(ws['observations'])
    for c in ws['channels']:
        rng.shuffle(c['samples'])
        for s in c['samples']:
            rng.shuffle(s['modifiers'])
    for m in ws['measurements']:
        rng.shuffle(m['config']['parameters'])
    return ws


def partition_checks(cfg):
    """the property evaluated on the implementation's own report; returns list of (what, detail)"""
    bad = []
    pos = 0
    for n, (a, b) in zip(cfg['par_order'], cfg['par_slices']):
        if a != pos or b < a:
            bad.append(('par-slices-do-not-tile', '%s has slice [%d,%d), expected start %d' % (n, a, b, pos)))
        pos = b
    if pos != cfg['npars']:
        bad.append(('par-slices-do-not-tile', 'slices end at %d, npars %d' % (pos, cfg['npars'])))
    for k in ('inits', 'fixed', 'par_names'):
        if len(cfg[k]) != cfg['npars']:
            bad.append(('suggestion-length:' + k, 'len(%s) = %d, npars = %d' % (k, len(cfg[k]), cfg['npars'])))
    if isinstance(cfg['bounds'], list) and len(cfg['bounds']) != cfg['npars']:
        bad.append(('suggestion-length:bounds', 'len(bounds) = %d, npars = %d' % (len(cfg['bounds']), cfg['npars'])))
    pos = 0
    for (cn, a, b), nb in zip(cfg['slices'], cfg['nbins']):
        if a != pos or b - a != nb:
            bad.append(('channel-slices-do-not-tile', '%s [%d,%d) nbins %d expected start %d' % (cn, a, b, nb, pos)))
        pos = b
    if pos != cfg['nmaindata']:
        bad.append(('channel-slices-do-not-tile', 'end %d nmaindata %d' % (pos, cfg['nmaindata'])))
    sizes = dict(zip(cfg['par_order'], [b - a for a, b in cfg['par_slices']]))
    naux = sum(sizes[n] for n in cfg['aux_order'])
    if naux != len(cfg['auxdata']) or any(t == 'unconstrained' for n, t in zip(cfg['par_order'], cfg['ptypes']) if n in cfg['aux_order']) \
            or [n for n, t in zip(cfg['par_order'], cfg['ptypes']) if t != 'unconstrained'] != cfg['aux_order']:
        bad.append(('auxdata-not-one-per-constrained-component', 'aux_order %r sizes %d auxdata %d' % (cfg['aux_order'], naux, len(cfg['auxdata']))))
    if sorted(cfg['par_order']) != cfg['parameters']:
        bad.append(('parameters-list', '%r vs %r' % (cfg['parameters'], cfg['par_order'])))
    return bad


def override_checks(spec, cfg):
    bad = []
    sl = dict(zip(cfg['par_order'], cfg['par_slices']))
    auxpos = {}
    k = 0
    for n in cfg['aux_order']:
        auxpos[n] = k
        k += sl[n][1] - sl[n][0]
    for p in spec.get('parameters', []):
        n = p['name']
        if n not in sl:
            continue
        a, b = sl[n]
        if 'inits' in p and cfg['inits'][a:b] != p['inits']:
            bad.append(('override-not-verbatim:inits', '%s: %r vs %r' % (n, cfg['inits'][a:b], p['inits'])))
        if 'bounds' in p and isinstance(cfg['bounds'], list) and [list(x) for x in cfg['bounds'][a:b]] != [list(x) for x in p['bounds']]:
            bad.append(('override-not-verbatim:bounds', '%s: %r vs %r' % (n, cfg['bounds'][a:b], p['bounds'])))
        if 'fixed' in p and cfg['fixed'][a:b] != [p['fixed']] * (b - a):
            bad.append(('override-not-verbatim:fixed', '%s: %r vs %r' % (n, cfg['fixed'][a:b], p['fixed'])))
        if 'auxdata' in p and n in auxpos and cfg['auxdata'][auxpos[n]:auxpos[n] + b - a] != p['auxdata']:
            bad.append(('override-not-verbatim:auxdata', '%s: %r vs %r' % (n, cfg['auxdata'][auxpos[n]:auxpos[n] + b - a], p['auxdata'])))
        if 'sigmas' in p and [float(x) for x in cfg['sigmas'].get(n, [])] != p['sigmas']:
            bad.append(('override-not-verbatim:sigmas', '%s: %r vs %r' % (n, cfg['sigmas'].get(n), p['sigmas'])))
        if 'factors' in p and [float(x) for x in cfg['factors'].get(n, [])] != p['factors']:
            bad.append(('override-not-verbatim:factors', '%s: %r vs %r' % (n, cfg['factors'].get(n), p['factors'])))
    return bad


def run(ctx):
    import pyhf
    logging.getLogger('pyhf').setLevel(logging.CRITICAL)
    rng = ctx.rng
    ok, txt = core.prove(ctx, extra=['EngineRun.vo'])
    tie = None if ok else 'proof obligations of props/C12.v no longer check: ' + txt[-1500:]
    pyhf.set_backend('numpy')
    n = ctx.n(150, 2500)
    cases = c01.gen_cases(ctx, n)
    for c in cases:
        c['st'] = dict(normsys='code4', histosys='code4p')
    exprs, impls = [], []
    stats = dict(overrides=0, permuted=0, build_roundtrips=0, build_known=0)
    sigs = set()
    found = False
    evaluations = 0
    for case in cases:
        spec, poi = case['spec'], case['poi']
        before = copy.deepcopy(spec)
        prng = core.random.Random(rng.randrange(1 << 30))
        try:
            m = engine.impl_build(spec, poi, case['st'])
        except Exception as e:
            ctx.violation('wellformed-refused:' + core.exc_enum(e), 'well-formed specification refused: %s' % str(e)[:200], dict(case=case))
            found = True
            impls.append(None)
            exprs.append('run_build %s' % engine.spec_to_coq(spec, poi))
            continue
        cfg = engine.impl_config(m)
        impls.append(cfg)
        evaluations += 1
        if spec != before:
            ctx.violation('model-mutates-spec', 'pyhf.Model modified the caller\'s specification', dict(case=case))
            found = True
        stats['overrides'] += len(spec.get('parameters', []))
        if engine.nontrivial(spec) or spec.get('parameters'):
            sigs.add(engine.shape_signature(spec))
        for sig, detail in partition_checks(cfg) + override_checks(spec, cfg):
            ctx.violation(sig, detail, dict(case=case, config={k: v for k, v in cfg.items() if k != 'sigmas'}, theorem='C12_par_slices_tile / C12_overrides_verbatim'))
            found = True
        exprs.append(engine.case_expr(spec, poi, case['st'], []))
        # ---- workspace layer: data layout, listing-order independence, rebuild ----
        obs = {c['name']: [engine.dy(prng, 0, 60, 1.0) for _ in c['samples'][0]['data']] for c in spec['channels']}
        wsd = workspace_of(spec, poi, obs)
        wsd0 = copy.deepcopy(wsd)
        try:
            ws = pyhf.Workspace(wsd)
            wm = ws.model(modifier_settings={'normsys': {'interpcode': 'code4'}, 'histosys': {'interpcode': 'code4p'}})
            data = ws.data(wm)
        except Exception as e:
            ctx.violation('workspace-refused:' + core.exc_enum(e), 'workspace of a well-formed spec refused: ' + str(e)[:200], dict(case=case, workspace=wsd))
            found = True
            continue
        if wsd != wsd0:
            ctx.violation('workspace-mutates-spec', 'Workspace/model()/data() modified the caller\'s document', dict(case=case))
            found = True
        wcfg = engine.impl_config(wm)
        expect_data = [x for cn in wcfg['channels'] for x in obs[cn]] + list(wcfg['auxdata'])
        if [float(x) for x in data] != [float(x) for x in expect_data]:
            ctx.violation('workspace-data-layout', 'Workspace.data does not follow the model\'s channel order + auxdata',
                          dict(case=case, workspace=wsd, impl=data, expected=expect_data, theorem='C12_workspace_data_layout'))
            found = True
        if {k: v for k, v in wcfg.items()} != {k: v for k, v in cfg.items()}:
            d = [k for k in cfg if cfg[k] != wcfg.get(k)]
            ctx.violation('workspace-model-differs', 'Workspace.model() differs from Model(spec) in %r' % d, dict(case=case, keys=d))
            found = True
        # listing-order independence
        pw = permute(prng, wsd)
        stats['permuted'] += 1
        try:
            pws = pyhf.Workspace(pw)
            pm = pws.model(modifier_settings={'normsys': {'interpcode': 'code4'}, 'histosys': {'interpcode': 'code4p'}})
            pcfg = engine.impl_config(pm)
            pdata = pws.data(pm)
            pars = engine.gen_point(prng, spec, cfg)
            l1 = float(wm.logpdf(pars, data)[0])
            l2 = float(pm.logpdf(pars, pdata)[0])
            same = pcfg == wcfg and [float(x) for x in pdata] == [float(x) for x in data] and \
                (l1 == l2 or abs(l1 - l2) <= 1e-9 * max(1.0, abs(l1)) or (l1 != l1 and l2 != l2))
            if not same:
                d = [k for k in wcfg if wcfg[k] != pcfg.get(k)]
                ctx.violation('listing-order-dependence', 'permuting the channel/sample/modifier/parameter/observation lists changes %r (logpdf %r vs %r)' % (d, l1, l2),
                              dict(case=case, workspace=wsd, permuted=pw, pars=pars, theorem='C12_listing_order_irrelevant'))
                found = True
        except Exception as e:
            ctx.violation('listing-order-dependence:' + core.exc_enum(e), 'permuted workspace fails: ' + str(e)[:200], dict(case=case, permuted=pw))
            found = True
        # rebuild from model and data
        stats['build_roundtrips'] += 1
        mixed = any(len(set(wcfg['fixed'][a:b])) > 1 for a, b in wcfg['par_slices'])
        defaults_dropped = any(k in p for p in spec.get('parameters', []) for k in ('auxdata', 'sigmas', 'factors'))
        nopoi = wcfg['poi_index'] is None
        try:
            ws2 = pyhf.Workspace.build(wm, data)
            m2 = ws2.model(modifier_settings={'normsys': {'interpcode': 'code4'}, 'histosys': {'interpcode': 'code4p'}})
            c2 = engine.impl_config(m2)
            d2 = ws2.data(m2)
            okrt = c2 == wcfg and [float(x) for x in d2] == [float(x) for x in data]
            why = [k for k in wcfg if wcfg[k] != c2.get(k)]
        except Exception as e:
            okrt = False
            why = core.exc_enum(e) + ': ' + str(e)[:120]
        if not okrt:
            if mixed:
                sig = 'workspace-build:mixed-fixed-flags'
            elif nopoi:
                sig = 'workspace-build:no-poi'
            elif defaults_dropped:
                sig = 'workspace-build:drops-auxdata-sigmas-factors'
            else:
                sig = 'workspace-build-roundtrip'
            stats['build_known'] += 1
            ctx.violation(sig, 'Workspace.build(model, data) does not reproduce model and data: %r' % (why,),
                          dict(case=case, workspace=wsd, why=why, theorem='C12_build_roundtrip'))
            if sig == 'workspace-build-roundtrip':
                found = True
    # ---- correspondence with the transcription: the full configuration ----
    ndis = 0
    try:
        res = core.coq_eval(ctx, 'cfg', engine.HEADER, exprs, shard=25)
        for case, cfg, r in zip(cases, impls, res):
            if cfg is None:
                continue
            mo = engine.decode_case(r)
            d = [('build', 'ok', mo['build'])] if mo['build'] != 'ok' else engine.diff_config(cfg, mo)
            if d:
                ndis += 1
                if ndis == 1:
                    ctx.coverage['first_disagreement'] = dict(case=case, diffs=[(a, str(b)[:300], str(c)[:300]) for a, b, c in d[:4]])
                    tie = tie or 'model and implementation disagree on the configuration: %r' % (d[:2],)
    except core.CoqEvalError as e:
        tie = tie or ('model evaluation failed: ' + str(e)[-1200:])
    if tie and not found:
        ctx.violation('tie-broken', tie[:300], dict(kind='tie', detail=tie, theorem='props/C12.v / Impl correspondence',
                                                     first_disagreement=ctx.coverage.get('first_disagreement')), nofail=True)
    ctx.trusted += ['"never modifies the caller\'s specification" has no content in a pure model: harness-only deep comparison']
    ctx.coverage.update(evaluations=evaluations, distinct_nontrivial=len(sigs), stats=stats, model_impl_disagreements=ndis,
                        rule='C01 spec generator with measurement overrides (inits, bounds, fixed, auxdata, sigmas, factors); every case: '
                             'partition/length/override predicates on the reported configuration, Workspace.data layout, one random '
                             'permutation of all lists (config, data, logpdf equal), Workspace.build round trip, deep comparison of inputs; '
                             'full configuration diffed with the Coq model. non-trivial = C01 rule or has overrides; distinct = shape signature',
                        samples=[dict(spec=cases[0]['spec'], config={k: v for k, v in (impls[0] or {}).items() if k in ('par_order', 'par_slices', 'auxdata', 'aux_order', 'fixed')})])


def replay(body):
    import pyhf
    case = body['case']
    m = engine.impl_build(case['spec'], case['poi'], case['st'])
    print(json.dumps(engine.impl_config(m), indent=1, default=str))
    return 0
