"""C08 - tie to the source: pyhf/infer/__init__.py (`hypotest`: the assembly of the returned value, the singleton unwrapping,
`is_q0`, the wiring calculator -> p-values; `_check_hypotest_prerequisites` with utils.all_pois_floating) and the POI value of
the Asimov data in AsymptoticCalculator.teststatistic, translated to coq/gen/HypotestGen.v on every run
(translator: harness/props/tie_translate.py; fail closed)."""
import ast
import os

from harness import core, facts
from harness.props import tie_translate as tt

GEN_HEADER = ('From Coq Require Import ZArith Bool List.\nRequire Import PV.Num PV.Asympt PV.Hypotest.\nImport ListNotations.\nLocal Open Scope list_scope.\n'
              '(* GENERATED on every run by harness/props/c08.py:extract from $VERIF_REPO/src/pyhf/infer/__init__.py (and utils.py) - do not edit.\n'
              '   p : pvals T holds, in the order the calculator returns them, (CLsb, CLb, CLs) of calc.pvalues(teststat, sb, b) and of\n'
              '   calc.expected_pvalues(sb, b) with teststat = calc.teststatistic(poi_test), (sb, b) = calc.distributions(poi_test);\n'
              '   an element of the returned sequence is an ritem: RScalar (a tensor), RList (a python list of tensors), RCalc. *)\n')
FLAG_COQ = {'return_tail_probs': 'tail', 'return_expected': 'exp', 'return_expected_set': 'expset', 'return_calculator': 'calcf'}
HYPOTEST_PARAMS = ['poi_test', 'data', 'pdf', 'init_pars', 'par_bounds', 'fixed_params', 'calctype'] + list(FLAG_COQ)
KINDS = [('q', 'KQ'), ('qtilde', 'KQtilde'), ('q0', 'KQ0')]
ITEM = 'item'
TT = 'T'


def tags(vals):
    return [getattr(v, 'tag', None) for v in vals]


class HX(tt.Exec):
    dflt = {TT: 'dflt', tt.BOOL: 'false'}

    def __init__(self, utils_tree, infer_tree):
        super().__init__()
        self.utils_tree, self.infer_tree = utils_tree, infer_tree
        self.facts = {}

    # ---- names / attributes: opaque objects with a provenance tag
    def global_name(self, name, st):
        if name in ('get_backend', 'float', 'len', 'tuple', 'list', 'utils', 'exceptions', '_check_hypotest_prerequisites'):
            return tt.Ext(name)
        raise tt.TB('unknown name %s' % name)

    def attr_ext(self, base, attr, node, st):
        if isinstance(base, tt.Ext) and base.tag == 'tensorlib':
            return tt.Ext('tensorlib.' + attr)
        if isinstance(base, tt.Ext) and base.tag in ('pdf', 'pdf.config', 'utils', 'calc', 'kwargs'):
            return tt.Ext(base.tag + '.' + attr)
        raise tt.TB('attribute .%s of %r (line %d)' % (attr, base, node.lineno))

    def ext_boolop(self, op, vals, node, st):
        # x = x or pdf.config.suggested_x()
        t = tags(vals)
        if op == 'Or' and len(t) == 2 and t[0] in ('arg:init_pars', 'arg:par_bounds', 'arg:fixed_params') and t[1] == 'suggested:' + t[0][4:]:
            return tt.Ext('or:' + t[0][4:])
        raise tt.TB('and/or on external values (line %d)' % node.lineno)

    def compare1(self, op, a, b, node):
        if isinstance(a, tt.Ext) and a.tag == 'kwget:test_stat' and isinstance(b, tt.S) and isinstance(b.v, str) and isinstance(op, ast.Eq):
            tab = [(None, a.data == b.v)] + [(k, k == b.v) for k, _ in KINDS]
            self.facts['is_q0'] = tab
            return tt.T('is_q0', tt.BOOL)
        return super().compare1(op, a, b, node)

    def call_star(self, f, e, st):
        if (isinstance(f, tt.Ext) and f.tag == 'utils.create_calculator' and len(e.keywords) == 1 and e.keywords[0].arg is None
                and not any(isinstance(a, ast.Starred) for a in e.args)):
            args = [self.expr(a, st) for a in e.args]
            kw = self.expr(e.keywords[0].value, st)
            if tags(args) != ['calctype', 'data', 'pdf', 'or:init_pars', 'or:par_bounds', 'or:fixed_params'] or tags([kw]) != ['kwargs']:
                raise tt.TB('create_calculator (line %d) is not called with (calctype, data, pdf, init_pars, par_bounds, fixed_params, **kwargs)' % e.lineno)
            self.facts['calc_created'] = True
            return tt.Ext('calc')
        raise tt.TB('*args / **kwargs in a call (line %d)' % e.lineno)

    def call_ext(self, f, args, kwargs, node, st):
        tag = f.tag
        if tag in ('pdf.config.suggested_init', 'pdf.config.suggested_bounds', 'pdf.config.suggested_fixed') and not args and not kwargs:
            return tt.Ext('suggested:' + {'init': 'init_pars', 'bounds': 'par_bounds', 'fixed': 'fixed_params'}[tag.rsplit('_', 1)[1]])
        if tag == 'calc.teststatistic' and tags(args) == ['poi_test'] and not kwargs:
            return tt.Ext('teststat')
        if tag == 'calc.distributions' and tags(args) == ['poi_test'] and not kwargs:
            return tt.Tup([tt.Ext('sb'), tt.Ext('b')])
        if tag == 'calc.pvalues' and tags(args) == ['teststat', 'sb', 'b'] and not kwargs:
            return tt.Tup([tt.T('(%s T p)' % n, TT) for n in ('CLsb_obs', 'CLb_obs', 'CLs_obs')])
        if tag == 'calc.expected_pvalues' and tags(args) == ['sb', 'b'] and not kwargs:
            return tt.Tup([tt.T('(%s T p)' % n, tt.LIST(TT)) for n in ('CLsb_exp', 'CLb_exp', 'CLs_exp')])
        if tag == 'kwargs.get' and len(args) == 2 and not kwargs and all(isinstance(a, tt.S) and isinstance(a.v, str) for a in args) and args[0].v == 'test_stat':
            return tt.Ext('kwget:test_stat', args[1].v)
        if tag == 'utils.all_pois_floating' and len(args) == 2 and not kwargs:
            fn = facts.find_func(self.utils_tree, 'all_pois_floating')
            bound, params, extra = tt.bind_call(fn, args, kwargs)
            if len(bound) != len(params):
                raise tt.TB('all_pois_floating: arguments')
            o = tt.only_ret(self.block(fn.body, tt.St(env=bound)), 'all_pois_floating')
            return o.val
        if tag == 'tuple' and len(args) == 1 and isinstance(args[0], tt.T) and args[0].ty == tt.LIST(ITEM):
            return tt.T('(Tuple %s)' % args[0].s, 'retval')
        raise tt.TB('call of %r (line %d)' % (f, node.lineno))

    def effect_call(self, e, st):
        f = self.expr(e.func, st)
        if isinstance(f, tt.Ext) and f.tag == '_check_hypotest_prerequisites' and not e.keywords:
            args = [self.expr(a, st) for a in e.args]
            fn = facts.find_func(self.infer_tree, '_check_hypotest_prerequisites')
            bound, params, extra = tt.bind_call(fn, args, {})
            if (tags([bound.get('pdf')]) != ['pdf'] or tags([bound.get('fixed_params')]) != ['or:fixed_params']):
                raise tt.TB('_check_hypotest_prerequisites (line %d) does not receive pdf and the defaulted fixed_params' % e.lineno)
            if self.facts.get('calc_created'):
                raise tt.TB('_check_hypotest_prerequisites is called after the calculator is created')
            self.facts['prereq_checked'] = True
            return
        raise tt.TB('expression statement (line %d)' % e.lineno)

    # ---- elements of the returned sequence
    def item(self, x):
        if isinstance(x, tt.T) and x.ty == ITEM:
            return x.s
        if isinstance(x, tt.T) and x.ty == TT:
            return '(RScalar %s)' % x.s
        if isinstance(x, tt.T) and x.ty == tt.LIST(TT):
            return '(RList %s)' % x.s
        if isinstance(x, tt.Lst) and all(isinstance(i, tt.T) and i.ty == TT for i in x.items):
            return '(RList [%s])' % '; '.join(i.s for i in x.items)
        if isinstance(x, tt.Ext) and x.tag == 'calc':
            return '(RCalc calc)'
        raise tt.TB('element of the returned sequence: %r' % (x,))

    def list_term(self, lst):
        return tt.T('[' + '; '.join(self.item(x) for x in lst.items) + ']', tt.LIST(ITEM))

    def subscript(self, base, idx, node):
        cons = getattr(base, 'cons', None)
        if cons and isinstance(idx, tt.S) and idx.v == 0:
            return tt.T(cons[0], ITEM)
        return super().subscript(base, idx, node)


def generate():
    """returns (Coq text of gen/HypotestGen.v, info).  Raises facts.TieBroken."""
    rel = 'infer/__init__.py'
    tree, path = facts.parse(rel)
    utils_tree, upath = facts.parse('infer/utils.py')
    fn = facts.find_func(tree, 'hypotest')
    a = fn.args
    params = [x.arg for x in a.args]
    dfl = tt.defaults_of(fn)
    if (params != HYPOTEST_PARAMS or a.vararg or a.kwonlyargs or a.kwarg is None or a.kwarg.arg != 'kwargs'
            or any(not (isinstance(dfl.get(f), ast.Constant) and dfl[f].value is False) for f in FLAG_COQ)
            or any(not (isinstance(dfl.get(f), ast.Constant) and dfl[f].value is None) for f in ('init_pars', 'par_bounds', 'fixed_params'))):
        raise tt.TB('hypotest: signature / defaults changed')
    text, info = GEN_HEADER, {}
    x = HX(utils_tree, tree)
    env = {'poi_test': tt.Ext('poi_test'), 'data': tt.Ext('data'), 'pdf': tt.Ext('pdf'), 'calctype': tt.Ext('calctype'), 'kwargs': tt.Ext('kwargs')}
    env.update({p: tt.Ext('arg:' + p) for p in ('init_pars', 'par_bounds', 'fixed_params')})
    env.update({f: tt.T(c, tt.BOOL) for f, c in FLAG_COQ.items()})
    body = [s for s in fn.body if not (isinstance(s, ast.Expr) and isinstance(s.value, ast.Constant))]
    if not body or not isinstance(body[-1], ast.Return):
        raise tt.TB('hypotest does not end in a return')
    o = x.block(body[:-1], tt.St(env=env))
    if not isinstance(o, tt.Fall):
        raise tt.TB('hypotest returns or raises before its last statement')
    st = o.st
    for k in ('prereq_checked', 'calc_created', 'is_q0'):
        if k not in x.facts:
            raise tt.TB('hypotest: %s not found' % k)
    ret = body[-1].value
    names = sorted({n.id for n in ast.walk(ret) if isinstance(n, ast.Name)} - {'tuple', 'len'})
    if len(names) != 1 or names[0] not in st.env:
        raise tt.TB('hypotest: the returned expression does not depend on exactly one local')
    seq = x.as_term(st.env[names[0]])
    if seq.ty != tt.LIST(ITEM):
        raise tt.TB('hypotest: the returned sequence is a %r' % (seq.ty,))
    sig = '(T C : Type) (dflt : T)'
    text += '\n' + tt.source_comment(rel, fn, path)
    text += ('Definition gen_assemble %s (is_q0 tail exp expset calcf : bool) (p : pvals T) (calc : C) : list (ritem T C) :=\n  %s.\n' % (sig, seq.s))
    # the return expression, on a non-empty sequence x :: t (the sequence starts as a one-element list and is only appended to)
    first = [s for s in body if isinstance(s, ast.Assign) and any(isinstance(t, ast.Name) and t.id == names[0] for t in s.targets)]
    if len(first) != 1 or not (isinstance(first[0].value, ast.List) and len(first[0].value.elts) >= 1):
        raise tt.TB('hypotest: %s is not initialised once with a non-empty list literal' % names[0])
    for n in ast.walk(fn):
        if isinstance(n, ast.Attribute) and isinstance(n.value, ast.Name) and n.value.id == names[0] and n.attr != 'append':
            raise tt.TB('hypotest: %s.%s' % (names[0], n.attr))
        if isinstance(n, (ast.Delete, ast.AugAssign)):
            raise tt.TB('hypotest: del / augmented assignment')
    lv = tt.T('(x :: t)', tt.LIST(ITEM))
    lv.cons = ('x', 't')
    rst = tt.St(env={names[0]: lv})
    if not isinstance(ret, ast.IfExp):
        raise tt.TB('hypotest: the returned expression is not a conditional expression')
    c = x.boolterm(x.test(ret.test, rst))

    def retval(v):
        if isinstance(v, tt.T) and v.ty == 'retval':
            return v.s
        if isinstance(v, tt.T) and v.ty == ITEM:
            return '(Bare %s)' % v.s
        raise tt.TB('hypotest returns %r' % (v,))
    text += ('Definition gen_finish (T C : Type) (x : ritem T C) (t : list (ritem T C)) : retval T C :=\n  (if %s then %s else %s).\n'
             % (c, retval(x.expr(ret.body, rst)), retval(x.expr(ret.orelse, rst))))
    tab = dict(x.facts['is_q0'])
    text += ('(* is_q0 as a function of the test_stat keyword argument (None: not given) *)\n'
             'Definition gen_is_q0 (test_stat : option tkind) : bool :=\n  (match test_stat with None => %s | Some KQ => %s | Some KQtilde => %s | Some KQ0 => %s end).\n'
             % tuple(core.cbool(tab[k]) for k in (None, 'q', 'qtilde', 'q0')))
    info.update(gen_assemble=len(seq.s), gen_finish=True, gen_is_q0=x.facts['is_q0'])

    # ---- _check_hypotest_prerequisites (with utils.all_pois_floating inlined)
    pfn = facts.find_func(tree, '_check_hypotest_prerequisites')
    if [p.arg for p in pfn.args.args] != ['pdf', 'data', 'init_pars', 'par_bounds', 'fixed_params'] or pfn.args.defaults:
        raise tt.TB('_check_hypotest_prerequisites: signature changed')
    px = HX(utils_tree, tree)
    px.patterns = [(tt.pattern('pdf.config.poi_index'), tt.T('poi_index', tt.OPTION(tt.NAT)))]
    penv = {'pdf': tt.Ext('pdf'), 'data': tt.Ext('data'), 'init_pars': tt.Ext('or:init_pars'), 'par_bounds': tt.Ext('or:par_bounds'),
            'fixed_params': tt.T('fixed_params', tt.LIST(tt.BOOL))}
    po = px.block(pfn.body, tt.St(env=penv))
    EXC = {'UnspecifiedPOI': 'HUnspecifiedPOI', 'InvalidModel': 'HInvalidModel'}

    def leaf(l):
        if isinstance(l, tt.Exc):
            if l.name not in EXC:
                raise tt.TB('_check_hypotest_prerequisites raises %s' % l.name)
            return '(Some %s)' % EXC[l.name]
        if isinstance(l, tt.Fall):
            return 'None'
        raise tt.TB('_check_hypotest_prerequisites returns a value')
    text += '\n' + tt.source_comment(rel, pfn, path)
    text += ('Definition gen_check_prerequisites (poi_index : option nat) (fixed_params : list bool) : option herr :=\n  %s.\n' % tt.render(po, leaf))
    info['gen_check_prerequisites'] = True
    return text, info


def extract(ctx):
    text, info = generate()
    core.write_if_changed(os.path.join(core.COQ, 'gen', 'HypotestGen.v'), text)
    return dict(file='coq/gen/HypotestGen.v', definitions=sorted(info))
